"""C04 -- one fitter object shared by concurrent threads.  DESIGN.md section 4 / C04.

Flow: gate -> build props/C04.v -> for every case (object state x method x schedule):
  (a) PROGRAM CORRESPONDENCE: the calls are run one after another on a fresh object with every access to a
      shared attribute recorded (harness/c04trace.py); the recording is parsed into the model's segment
      list with the help of method-entry markers, and the model (coq/C04/Model.v, evaluated inside Coq)
      must regenerate exactly the same access sequence and the same final abstract state;
  (b) SCHEDULE REPLAY: the same calls run in real threads under a deterministic scheduler that parks each
      thread before every shared access; the interleaved access log, the outcome of every thread
      (equal to serial bit-for-bit / different / exception) and the final abstract state are compared
      with the model's prediction for the executed schedule;
  (c) DIRECT ORACLE: concurrent results vs serial results bit-for-bit (also for 2-D objects and for
      methods that the model does not parse).
"""
import itertools
import os
import sys
import warnings

# A race that leaves a cached helper half-updated can hand inconsistent shapes to a numba kernel, which then
# writes out of bounds and aborts the whole process (seen: "corrupted size vs. prev_size").  With bounds
# checking the same event is a clean IndexError in the offending thread = a reportable failing schedule.
# Results are bit-identical; the compiled kernels are cached in a private directory.
BOUNDSCHECK_ACTIVE = 'numba' not in sys.modules
if BOUNDSCHECK_ACTIVE:
    os.environ['NUMBA_BOUNDSCHECK'] = '1'
    os.environ['NUMBA_CACHE_DIR'] = os.environ.get('NUMBA_CACHE_DIR', '/verif/.cache/numba').rstrip('/') + '_c04_boundscheck'
    os.makedirs(os.environ['NUMBA_CACHE_DIR'], exist_ok=True)

import numpy as np

from . import c04trace as T
from . import c04lines as LN
from .common import zl, zlist

PROP = 'C04'
N1 = 40

HEADER = """From Coq Require Import ZArith List Bool.
From PB Require Import lib.CaseUtil C04.Sched C04.Model.
Import ListNotations.
Open Scope Z_scope.
"""

CELL = {'x': 0, 'size': 1, 'shape': 2, 'valid': 3, 'poly': 4, 'spline': 5,
        'vander': 6, 'order': 7, 'stale': 8, 'pinv': 9}

KEY_FIRST_1D = 'first-call:1d:x-published-before-size'
KEY_FIRST_2D = 'first-call:2d:x-z-shape-published-in-steps'
KEY_AMM = 'adaptive_minmax:shared-polynomial-cache'


# ------------------------------------------------------------------------------------------------
# data, objects, methods

def xgrid(n=N1, dup=False):
    x = np.linspace(0.0, 10.0, n) + 0.3 * np.sin(np.arange(n))
    x = np.sort(x)
    if dup:
        x[5] = x[4]
    return x


def ydata(i, n=N1):
    r = np.random.default_rng(1000 + i)
    t = np.linspace(0, 1, n)
    return 3 + 2 * t + np.exp(-((t - 0.3 - 0.1 * i) ** 2) / 0.002) * (4 + i) + 0.05 * r.normal(size=n)


def ydata2(i, shape=(12, 10)):
    r = np.random.default_rng(2000 + i)
    a, b = np.meshgrid(np.linspace(0, 1, shape[0]), np.linspace(0, 1, shape[1]), indexing='ij')
    return 1 + a + 2 * b + (3 + i) * np.exp(-((a - 0.5) ** 2 + (b - 0.4) ** 2) / 0.01) + 0.05 * r.normal(size=shape)


W1 = np.linspace(1.0, 2.0, N1)

# methods whose access sequence the model parses (every cache user of the 1-D fitter)
MODEL_METHODS = {
    'poly': {'poly_order': 3},
    'poly_w': ('poly', {'poly_order': 3, 'weights': W1}),
    'modpoly': {'poly_order': 2, 'max_iter': 4},
    'imodpoly': {'poly_order': 2, 'max_iter': 4},
    'penalized_poly': {'poly_order': 2, 'max_iter': 4},
    'loess': {'poly_order': 1, 'max_iter': 2, 'fraction': 0.4},
    'quant_reg': {'poly_order': 2, 'max_iter': 4},
    'goldindec': {'poly_order': 2, 'max_iter': 6, 'max_iter_2': 4},
    'iasls': {'lam': 1e3, 'max_iter': 3},
    'pspline_asls': {'num_knots': 8, 'lam': 10, 'max_iter': 3},
    'pspline_iasls': {'num_knots': 8, 'lam': 10, 'max_iter': 3},
    'mixture_model': {'num_knots': 8, 'lam': 10, 'max_iter': 3},
    'rubberband': {},
    'asls': {'lam': 1e3, 'max_iter': 3},
    'adaptive_minmax': {'poly_order': 2, 'method_kwargs': {'max_iter': 2}},
}
# optimizers / composites only checked by the direct oracle
ORACLE_ONLY = {
    'custom_bc': {'method': 'modpoly', 'method_kwargs': {'poly_order': 2, 'max_iter': 3}},
    'optimize_extended_range': {'method': 'modpoly', 'min_value': 2, 'max_value': 3,
                                'method_kwargs': {'max_iter': 3}},
    'swima': {'min_half_window': 2, 'max_half_window': 5},
    'dietrich': {'poly_order': 2, 'smooth_half_window': 2, 'max_iter': 3},
}
METHODS_2D = {
    'pspline_iasls': {'num_knots': 5, 'lam': 10, 'max_iter': 2},
    'adaptive_minmax': {'poly_order': 1, 'method_kwargs': {'max_iter': 2}},
    'poly': {'poly_order': 2},
    'modpoly': {'poly_order': 2, 'max_iter': 3},
    'pspline_asls': {'num_knots': 5, 'lam': 10, 'max_iter': 2},
    'asls': {'lam': 1e2, 'max_iter': 2},
}


def method_of(name):
    spec = {**MODEL_METHODS, **ORACLE_ONLY}[name]
    if isinstance(spec, tuple):
        return spec
    return name, spec


def make_obj(kind):
    """kind: 'x' | 'xdup' | 'nox' | 'warm:<q>' (polynomial cache left at order q, pinv computed) |
    'warmw:<q>' (order q, pinv never computed) | 'spl:<k>' (spline cache for k knots)."""
    from pybaselines import Baseline
    with warnings.catch_warnings():
        warnings.simplefilter('ignore')
        if kind == 'nox':
            return Baseline()
        f = Baseline(xgrid(dup=(kind == 'xdup')))
        y0 = ydata(99)
        if kind.startswith('warm:'):
            f.poly(y0, poly_order=int(kind[5:]))
        elif kind.startswith('warmw:'):
            f.poly(y0, poly_order=int(kind[6:]), weights=W1)
        elif kind.startswith('spl:'):
            f.pspline_asls(y0, num_knots=int(kind[4:]), max_iter=1)
        elif kind.startswith('whit:'):
            f.asls(y0, lam=10, diff_order=int(kind[5:]), max_iter=1)
        return f


def make_obj2(kind):
    from pybaselines import Baseline2D
    if '+' in kind:                      # 'xz+s5' spline cache for 5 knots, 'xz+l5' also the lazy full basis
        base, w = kind.split('+')
        f = make_obj2(base)
        with warnings.catch_warnings():
            warnings.simplefilter('ignore')
            if w[0] == 's':
                f.pspline_asls(ydata2(98), num_knots=int(w[1:]), lam=10, max_iter=1)
            elif w[0] == 'p':
                f.poly(ydata2(98), poly_order=int(w[1:]))
            elif w[0] == 'w':
                f.asls(ydata2(98), lam=1e2, max_iter=1)
            else:
                f.pspline_iasls(ydata2(98), num_knots=int(w[1:]), lam=10, max_iter=1)
        return f
    if kind == 'noxz':
        return Baseline2D()
    x, z = np.linspace(0, 5, 12), np.linspace(-1, 3, 10)
    if kind == 'xonly':
        return Baseline2D(x)
    if kind == 'zonly':
        return Baseline2D(None, z)
    return Baseline2D(x, z)


# ------------------------------------------------------------------------------------------------
# abstraction of the real object (mirrors `abstraction` in coq/C04/Model.v)

def abstraction(f):
    x = f.__dict__.get('x')
    size = f.__dict__.get('_Algorithm__size')
    shape = f.__dict__.get('_shape')
    out = [-1 if x is None else len(x), -1 if size is None else int(size),
           -1 if (shape is None or shape[0] is None) else int(shape[0]),
           1 if f.__dict__.get('_validated_x') else 0]
    h = f.__dict__.get('_polynomial')
    if h is None:
        out += [-2, -2, -2, -2]
    else:
        v, pi = h.__dict__.get('vandermonde'), h.__dict__.get('_pseudo_inverse')
        out += [-1 if v is None else v.shape[1] - 1, int(h.__dict__.get('poly_order')),
                1 if h.__dict__.get('pinv_stale') else 0, -1 if pi is None else pi.shape[0] - 1]
    b = f.__dict__.get('_spline_basis')
    out += [-1, -1] if b is None else [int(b.num_knots), int(b.spline_degree)]
    return out


def has_dup(f):
    x = f.__dict__.get('x')
    return bool(x is not None and np.any(x[1:] == x[:-1]))


def coq_shared(ab, dup):
    def oz(v):
        return 'None' if v < 0 else f'(Some {zl(v)})'
    x = 'None' if ab[0] < 0 else f'(Some ({zl(ab[0])}, {"true" if dup else "false"}))'
    if ab[4] == -2:
        poly, heap = 'None', '[]'
    else:
        poly = '(Some 0%nat)'
        heap = f'[mkH {oz(ab[4])} {zl(ab[5])} {"true" if ab[6] else "false"} {oz(ab[7])}]'
    spl = 'None' if ab[8] < 0 else f'(Some ({zl(ab[8])}, {zl(ab[9])}))'
    return f'(mkS {x} {oz(ab[1])} {oz(ab[2])} {"true" if ab[3] else "false"} {poly} {heap} {spl})'


# ------------------------------------------------------------------------------------------------
# recorded events -> model segments (fail-closed)

class Unparsed(Exception):
    pass


def _bind_setup(name, a, k):
    if name == '_setup_polynomial':
        names = ['weights', 'poly_order', 'calc_vander', 'calc_pinv', 'copy_weights']
        d = {'weights': None, 'poly_order': 2, 'calc_vander': False, 'calc_pinv': False}
    else:
        names = ['weights', 'spline_degree', 'num_knots', 'penalized', 'diff_order', 'lam', 'make_basis',
                 'allow_lower', 'reverse_diags', 'copy_weights']
        d = {'weights': None, 'spline_degree': 3, 'num_knots': 10, 'make_basis': True}
    d.update(dict(zip(names, a)))
    d.update(k)
    return d


def parse_events(events, n, x_present, valid):
    """Segments (Coq text list) of one thread's recorded call; raises Unparsed on anything the model does
    not know (an unknown access outside a setup call, a store outside prologue/setup, ...)."""
    segs = []
    i, m = 0, len(events)
    cur_p, cur_kd = None, None
    while i < m:
        e = events[i]
        if e[0] == 'M' and e[1] == 'call':
            _, uniq, hasdata = e[2]
            segs.append(f'SPro {"true" if uniq else "false"} {"true" if hasdata else "false"} {n}')
            if not x_present:
                k = 4
            else:
                k = 1 + ((1 + (0 if valid else 3)) if uniq else 0) + (1 if hasdata else 0)
            for ev in events[i + 1:i + 1 + k]:
                if ev[0] not in 'RW' or ev[1] != 'fit':
                    raise Unparsed(f'prologue of {e[2][0]}: unexpected {ev}')
                if ev[0] == 'W' and ev[2] == 'x':
                    x_present = True
                if ev[0] == 'W' and ev[2] == 'valid':
                    valid = True
            i += 1 + k
        elif e[0] == 'M' and e[1] == 'setup':
            name, a, k = e[2]
            d = _bind_setup(name, a, k)
            j = i + 1
            while j < m and not (events[j][0] == 'E' and events[j][1] == 'setup'):
                if events[j][0] == 'M':
                    raise Unparsed(f'nested marker inside {name}')
                j += 1
            if name == '_setup_polynomial':
                cur_p = int(d['poly_order'])
                mode = ('MNone' if not d['calc_vander'] else 'MVander' if not d['calc_pinv']
                        else 'MUnw' if d['weights'] is None else 'MWt')
                segs.append(f'SPoly {zl(cur_p)} {mode}')
            else:
                segs.append('SUse Csize')
                if d['make_basis']:
                    cur_kd = (int(d['num_knots']), int(d['spline_degree']))
                    segs.append(f'SSpl {zl(cur_kd[0])} {zl(cur_kd[1])}')
            i = j + 1
        elif e[0] == 'E':
            i += 1
        elif e[0] == 'P':
            if segs and segs[-1].startswith('SBody '):
                segs[-1] = 'SBodyPinv ' + segs[-1][6:]
            i += 1
        elif e[0] == 'R' and e[1] == 'fit' and e[2] == 'poly':
            if i + 1 < m and events[i + 1][:3] == ('R', 'helper', 'vander') and cur_p is not None:
                segs.append(f'SBody {zl(cur_p)}')
                i += 2
            else:
                raise Unparsed(f'read of _polynomial not followed by .vandermonde: {events[i + 1:i + 2]}')
        elif e[0] == 'R' and e[1] == 'fit' and e[2] in ('size', 'shape', 'x'):
            segs.append({'size': 'SUse Csize', 'shape': 'SUse Cshape', 'x': 'SUse Cx'}[e[2]])
            i += 1
        elif e[0] == 'R' and e[1] == 'fit' and e[2] == 'spline' and cur_kd is not None:
            segs.append(f'SUseSpl {zl(cur_kd[0])} {zl(cur_kd[1])}')
            i += 1
        else:
            raise Unparsed(f'access outside the modelled protocol: {e}')
    return segs


def codes(events, tid=None):
    out = []
    for e in events:
        if e[0] in 'RW':
            c = CELL[e[2]] + (10 if e[0] == 'W' else 0)
            out.append(c if tid is None else 100 * tid + c)
    return out


# ------------------------------------------------------------------------------------------------
# comparing results

def same(a, b):
    if isinstance(a, np.ndarray) or isinstance(b, np.ndarray):
        a, b = np.asarray(a), np.asarray(b)
        return a.shape == b.shape and a.dtype == b.dtype and np.array_equal(a, b, equal_nan=True)
    if isinstance(a, dict):
        return isinstance(b, dict) and a.keys() == b.keys() and all(same(a[k], b[k]) for k in a)
    if isinstance(a, (list, tuple)):
        return isinstance(b, (list, tuple)) and len(a) == len(b) and all(same(u, v) for u, v in zip(a, b))
    try:
        return bool(a == b) or (a != a and b != b)
    except Exception:
        return False


def outcome_code(res, ref):
    """0 = identical to the serial result, 1 = different result, 3 = length-mismatch ValueError,
    8 = matmul shape ValueError, 11 = TypeError from a None shape, 50 = any other exception, 60 = scheduler killed it."""
    if res is None or res[0] == 'killed':
        return 60
    if res[0] == 'exc':
        if ref[0] == 'exc' and ref[1] == res[1]:
            return 0                      # the serial call raises the same exception
        t, msg = res[1]
        if t == 'ValueError' and 'length mismatch' in msg:
            return 3
        if t == 'ValueError' and 'matmul' in msg:
            return 8
        if t == 'TypeError' and 'NoneType' in msg:
            return 11
        return 50
    if ref[0] != 'ok':
        return 1
    return 0 if same(res[1], ref[1]) else 1


def call_job(f, meth, kw, y):
    def job():
        return getattr(f, meth)(y, **kw)
    return job


# ------------------------------------------------------------------------------------------------
# one case = (object kind, method, number of threads, schedule)

def serial_reference(kind, name, nthreads, two_d=False):
    """Runs the calls one after another on a fresh object, instrumented; returns per-thread results,
    event lists, the object's abstraction before / after and the unmodelled writes."""
    meth, kw = (name, METHODS_2D[name]) if two_d else method_of(name)
    f = (make_obj2 if two_d else make_obj)(kind)
    ab0 = None if two_d else abstraction(f)
    dup = False if two_d else has_dup(f)
    res, evs, unm = [], [], []
    for i in range(nthreads):
        y = ydata2(i) if two_d else ydata(i)
        r, ev, un = T.run_solo(call_job(f, meth, kw, y), [f])
        res.append(r)
        evs.append(ev)
        unm += un
    return {'results': res, 'events': evs, 'ab0': ab0, 'ab1': None if two_d else abstraction(f),
            'dup': dup, 'unmodelled': unm}


def concurrent_run(kind, name, nthreads, schedule, two_d=False):
    meth, kw = (name, METHODS_2D[name]) if two_d else method_of(name)
    f = (make_obj2 if two_d else make_obj)(kind)
    jobs = [call_job(f, meth, kw, ydata2(i) if two_d else ydata(i)) for i in range(nthreads)]
    out = T.run_concurrent([f], jobs, schedule)
    out['ab1'] = None if two_d else abstraction(f)
    return out


def interleavings(a, b):
    """All schedules with a zeros and b ones."""
    for pos in itertools.combinations(range(a + b), a):
        s = [1] * (a + b)
        for p_ in pos:
            s[p_] = 0
        yield s


def schedules_for(ctx, kind, name, nthreads, steps, exhaustive, sampled):
    """The SEARCH (not the proof): all interleavings of the first `exhaustive` accesses of 2 threads,
    'thread 0 pre-empted after k accesses' for every k, and seeded random interleavings."""
    out = []
    if nthreads == 2:
        out += list(interleavings(exhaustive, exhaustive))
        out += [[0] * k + [1] * (steps + 5) for k in range(0, steps + 1)]
    for _ in range(sampled):
        total = steps * nthreads
        out.append([ctx.rng.randrange(nthreads) for _ in range(total)])
    return out


def finding_key(kind, name, two_d):
    if name == 'adaptive_minmax':
        return KEY_AMM            # 1-D and 2-D: the same sub-call pattern through one shared helper
    if two_d and kind in ('noxz', 'xonly', 'zonly'):
        return KEY_FIRST_2D       # repaired by d3d4e98 (a `fixed:` line): a hit is a VIOLATION again
    if not two_d and kind == 'nox':
        return KEY_FIRST_1D       # repaired by f1bf5e1 (a `fixed:` line): a hit is a VIOLATION again
    if name == 'adaptive_minmax':
        return KEY_AMM            # 1-D and 2-D: the same sub-call pattern through one shared helper
    return None


def run_case_group(ctx, kind, name, nthreads, scheds, lits, meta, modelled):
    """Serial reference once, then every schedule on the real threads; appends Coq literals."""
    try:
        ser = serial_reference(kind, name, nthreads)
    except T.SchedulerBroken as e:
        ctx.broke('scheduler', str(e))
        return
    if ser['unmodelled']:
        ctx.broke('correspondence:unmodelled-shared-write',
                  f'{name} on {kind}: stores to attributes outside the modelled cells: {sorted(set(ser["unmodelled"]))[:6]}')
    progs = None
    if modelled:
        try:
            xp, valid = ser['ab0'][0] >= 0, bool(ser['ab0'][3])
            progs = []
            for ev in ser['events']:
                progs.append(parse_events(ev, N1, xp, valid))
                xp = True
                valid = valid or any(e[0] == 'W' and e[2] == 'valid' for e in ev)
        except Unparsed as e:
            ctx.broke('correspondence:program-parse', f'{name} on {kind}: {e}')
            progs = None
    if progs is not None:
        ctx.traces += nthreads
        st = (f'({coq_shared(ser["ab0"], ser["dup"])}, '
              f'[{"; ".join("init_local [" + "; ".join(p) + "]" for p in progs)}])')
        ser_sched = []
        ser_log = []
        for i, ev in enumerate(ser['events']):
            c = codes(ev, i)
            ser_sched += [i] * len(c)
            ser_log += c
        xv_n = N1
        # serial: log, all outcomes 0 (or serial exception), final abstraction
        ser_out = [0 if r[0] == 'ok' else -1 for r in ser['results']]
        lits.append(f'({st}, {"true" if ser["dup"] else "false"}, [{"; ".join(str(t) + "%nat" for t in ser_sched)}], '
                    f'{zlist(ser_log)}, {zlist(ser_out)}, {zlist(ser["ab1"])}, true)')
        meta.append({'kind': kind, 'method': name, 'threads': nthreads, 'schedule': 'serial'})
        ctx.case(('serial', kind, name, nthreads), nontrivial=True, kind=f'program:{name}:{kind.split(":")[0]}')
    for sched in scheds:
        try:
            con = concurrent_run(kind, name, nthreads, sched)
        except T.SchedulerBroken as e:
            ctx.broke('scheduler', f'{name} on {kind} schedule {sched[:40]}: {e}')
            return
        outs = [outcome_code(con['results'][i], ser['results'][i]) for i in range(nthreads)]
        case = {'kind': kind, 'method': name, 'threads': nthreads, 'schedule': con['executed'], 'two_d': False,
                'outcomes': outs}
        switches = sum(1 for a, b in zip(con['executed'], con['executed'][1:]) if a != b)
        ctx.case((kind, name, nthreads, tuple(con['executed'])), nontrivial=switches >= 2,
                 kind=f'replay:{name}:{kind.split(":")[0]}:{nthreads}t')
        if any(outs):
            key = finding_key(kind, name, False)
            what = describe(kind, name, outs, con)
            ctx.fail(key or f'race:1d:{name}:{kind.split(":")[0]}', what, case)
        if con['unmodelled']:
            ctx.broke('correspondence:unmodelled-shared-write', f'{name} on {kind}: {sorted(set(con["unmodelled"]))[:6]}')
        if progs is not None:
            glog = []
            ptr = [0] * nthreads
            for t in con['executed']:
                lg = con['logs'][t]
                if ptr[t] < len(lg):
                    glog.append(100 * t + CELL[lg[ptr[t]][2]] + (10 if lg[ptr[t]][0] == 'W' else 0))
                    ptr[t] += 1
            lits.append(f'({st}, {"true" if ser["dup"] else "false"}, [{"; ".join(str(t) + "%nat" for t in con["executed"])}], '
                        f'{zlist(glog)}, {zlist(outs)}, {zlist(con["ab1"])}, false)')
            meta.append(case)
    ctx.sample({'kind': kind, 'method': name, 'threads': nthreads,
                'program_of_thread_0': (progs[0][:12] if progs else None)})


def describe(kind, name, outs, con):
    msgs = []
    for i, o in enumerate(outs):
        r = con['results'][i]
        if o == 1:
            msgs.append(f'thread {i} returns a result different from the serial one')
        elif o:
            msgs.append(f'thread {i} raises {r[1][0]}: {r[1][1][:90]}' if r and r[0] == 'exc' else f'thread {i} did not finish')
    return f'{name} on a shared object ({kind}): ' + '; '.join(msgs)


CHECK = """
Definition xv_of (st : state) (dup : bool) : option (Z * bool) :=
  match sx (fst st) with Some v => Some v | None => Some (%d, false) end.
Definition ok (c : state * bool * list nat * list Z * list Z * list Z * bool) : bool :=
  let '(st, dup, sched, log, outs, ab, serial) := c in
  let fin := run_sched sched st in
  let mouts := map (outcome (xv_of st dup)) (snd fin) in
  let clean := forallb (fun o => o =? 0) mouts in
  (* outcomes: serial cases carry -1 where the serial call itself raises (then the model must raise too) *)
  (if serial then forallb (fun p => if fst p =? -1 then 2 <=? snd p else snd p =? 0) (combine outs mouts)
   else zl_eqb outs mouts)
  && (if clean then zl_eqb (sched_log sched st) log && zl_eqb (abstraction (fst fin)) ab else true).
""" % N1


def coq_check(ctx, lits, meta, tag, tolerate=False):
    """`tolerate` (refuted regions only, DESIGN.md section 6): when the implementation behaves serially on
    every replayed schedule of the region, a mismatch with the model (which describes the recorded
    defect) is reported as a note, not as a broken obligation."""
    ob = f'correspondence:{tag}(access sequences, outcomes and final state: model = real threads)'
    ctx.obligations.append(ob)
    repaired = tolerate and not any(any(m.get('outcomes') or []) for m in meta)
    if repaired:
        ctx.note(f'{tag}: the implementation behaved serially on all {len(meta)} replayed schedules of this refuted region; '
                 'the model of the recorded defect is not compared (finding no longer reproduces)')
        ctx.discharged.append(ob)
        return False
    bad = False
    per = 250
    for s in range(0, len(lits), per):
        sh = lits[s:s + per]
        text = HEADER + CHECK + ('\nDefinition cases : list (state * bool * list nat * list Z * list Z * list Z * bool) := [\n'
                                 + ';\n'.join('  ' + l for l in sh) + '\n].\nEval vm_compute in (bad ok cases).\n')
        vals = ctx.coq_eval(f'{tag.replace("-", "_")}{s // per}', text)
        if vals is None:
            bad = True
        elif not vals or not vals[0].startswith('(0'):
            bad = True
            import re
            mm = re.match(r'\((\d+)(?:%nat)?, \[(.*)\]\)', vals[0]) if vals else None
            idx = [int(t.replace('%nat', '')) for t in (mm.group(2).split(';') if mm else []) if t.strip()]
            ctx.broke(ob, f'model and implementation disagree on {vals[0] if vals else "?"}: '
                          f'{[meta[s + i] for i in idx[:3]]}')
    if not bad:
        ctx.discharged.append(ob)
    return bad


# ------------------------------------------------------------------------------------------------

def model_cases(ctx):
    lits, meta = [], []
    ex = ctx.n(3, 4)
    samp = ctx.n(4, 30)
    plan = []
    for name in MODEL_METHODS:
        if name == 'adaptive_minmax':
            continue
        meth, kw = method_of(name)
        p = kw.get('poly_order')
        kinds = ['x']
        if p is not None or name == 'iasls':
            kinds += ['warm:5', 'warm:1'] + ([f'warmw:{p if p is not None else 2}'] if (ctx.tier == 'thorough' or name in ('poly', 'modpoly')) else [])
        if 'num_knots' in kw:
            kinds += ['spl:8', 'spl:6']
        if name == 'poly':
            kinds += ['xdup', 'warm:3']
        for kind in kinds:
            plan.append((kind, name))
    for kind, name in plan:
        ser = serial_reference(kind, name, 1)
        steps = len(codes(ser['events'][0]))
        full = name in ('poly', 'poly_w', 'modpoly', 'pspline_asls', 'loess', 'iasls', 'rubberband')
        scheds = schedules_for(ctx, kind, name, 2, steps, ex if full else 2, samp if full else 2)
        if not full:
            scheds = [s for j, s in enumerate(scheds) if j % 3 == 0]
        run_case_group(ctx, kind, name, 2, scheds, lits, meta, True)
        if full:
            run_case_group(ctx, kind, name, 3, schedules_for(ctx, kind, name, 3, steps, 0, ctx.n(3, 20)), lits, meta, True)
    first_call_cases(ctx, lits, meta)
    return coq_check(ctx, lits, meta, 'safe')


def first_call_cases(ctx, lits, meta):
    """First concurrent calls on a Baseline created without x_data: SAFE since f1bf5e1 (C04_first_call_safe);
    strict correspondence, and the schedule that failed before the repair is always replayed."""
    for name in ('poly', 'modpoly', 'pspline_asls', 'rubberband'):
        ser = serial_reference('nox', name, 1)
        steps = len(codes(ser['events'][0]))
        scheds = [[0, 0, 1, 1]] + schedules_for(ctx, 'nox', name, 2, steps, ctx.n(4, 5) if name == 'poly' else 2, ctx.n(3, 20))
        run_case_group(ctx, 'nox', name, 2, scheds, lits, meta, True)
    run_case_group(ctx, 'nox', 'poly', 3, schedules_for(ctx, 'nox', 'poly', 3, 20, 0, ctx.n(5, 40)), lits, meta, True)


def refuted_cases(ctx):
    """The refuted region adaptive_minmax: every schedule is still replayed and compared with the model
    (which models the current code), and the deviations are reported under the finding key."""
    lits, meta = [], []
    ctx.known_replayed = {KEY_AMM}
    ser = serial_reference('x', 'adaptive_minmax', 1)
    steps = len(codes(ser['events'][0]))
    scheds = schedules_for(ctx, 'x', 'adaptive_minmax', 2, steps, 2, ctx.n(6, 40))
    run_case_group(ctx, 'x', 'adaptive_minmax', 2, scheds, lits, meta, True)
    run_case_group(ctx, 'warm:5', 'adaptive_minmax', 2, scheds[::4], lits, meta, True)
    return coq_check(ctx, lits, meta, 'refuted-adaptive-minmax', tolerate=True)


def oracle(ctx, budget):
    """Direct oracle on the implementation: serial vs concurrent, bit for bit (no model involved)."""
    for name in ORACLE_ONLY:
        for kind in ('x', 'warm:4'):
            try:
                ser = serial_reference(kind, name, 2)
                for _ in range(3 * budget):
                    sched = [ctx.rng.randrange(2) for _ in range(ctx.rng.randrange(20, 400))]
                    con = concurrent_run(kind, name, 2, sched)
                    outs = [outcome_code(con['results'][i], ser['results'][i]) for i in range(2)]
                    ctx.case(('oracle', kind, name, tuple(con['executed'][:200])), kind=f'oracle:{name}')
                    if any(outs):
                        ctx.fail(f'race:1d:{name}:{kind.split(":")[0]}', describe(kind, name, outs, con),
                                 {'kind': kind, 'method': name, 'threads': 2, 'schedule': con['executed'], 'two_d': False})
            except T.SchedulerBroken as e:
                ctx.broke('scheduler', f'{name}: {e}')
    for name in METHODS_2D:
        for kind in ('xz', 'noxz', 'xonly', 'zonly'):
            try:
                ser = serial_reference(kind, name, 2, two_d=True)
                steps = max(sum(1 for e in ser['events'][0] if e[0] in 'RW'), 8)
                kmax = steps if kind == 'xz' else min(steps, 14)
                scheds = [[0] * k + [1] * (steps + 5) for k in range(0, kmax + 1, 3 if (name == 'adaptive_minmax' and ctx.tier == 'quick') else 1)]
                scheds += [[ctx.rng.randrange(2) for _ in range(2 * steps)] for _ in range(3 * budget)]
                for nt, ss in ((2, scheds), (3, [[ctx.rng.randrange(3) for _ in range(3 * steps)] for _ in range(2 * budget)])):
                    if nt == 3:
                        ser = serial_reference(kind, name, 3, two_d=True)
                    for sched in ss:
                        con = concurrent_run(kind, name, nt, sched, two_d=True)
                        outs = [outcome_code(con['results'][i], ser['results'][i]) for i in range(nt)]
                        ctx.case(('oracle2d', kind, name, nt, tuple(con['executed'])), kind=f'oracle2d:{name}:{kind}')
                        if any(outs):
                            key = finding_key(kind, name, True) or f'race:2d:{name}:{kind}'
                            ctx.fail(key, '2-D ' + describe(kind, name, outs, con),
                                     {'kind': kind, 'method': name, 'threads': nt, 'schedule': con['executed'], 'two_d': True})
                        if con['unmodelled']:
                            ctx.broke('correspondence:unmodelled-shared-write-2d', f'{name} on {kind}: {sorted(set(con["unmodelled"]))[:6]}')
            except T.SchedulerBroken as e:
                ctx.broke('scheduler', f'2d {name}: {e}')


# ------------------------------------------------------------------------------------------------
# 2-D first calls: program correspondence + schedule replay against coq/C04/Model2D.v

HEADER2 = """From Coq Require Import ZArith List Bool.
From PB Require Import lib.CaseUtil C04.Sched C04.Model2D.
Import ListNotations.
Open Scope Z_scope.
"""
CELL2 = {'x': 0, 'z': 1, 'shape': 2, 'size': 3, 'validx': 4, 'validz': 5}
M2, N2 = 12, 10
METHODS_2D_MODEL = {'rolling_ball': {'half_window': 2}, 'asls': {'lam': 1e2, 'max_iter': 2},
                    'psalsa': {'lam': 1e2, 'max_iter': 2, 'num_eigens': None},     # the only 2-D body that reads _size
                    'arpls': {'lam': 1e2, 'max_iter': 2}}
METHODS_2D.update(METHODS_2D_MODEL)

CHECK2 = """
Definition ok (c : state2 * list nat * list Z * list Z * list Z) : bool :=
  let '(st, sched, log, outs, ab) := c in
  let fin := run_sched2 false false sched st in
  zl_eqb (map (outcome2 %d %d) (snd fin)) outs && zl_eqb (sched_log2 false false sched st) log
  && zl_eqb (abstraction2 (fst fin)) ab.
""" % (M2, N2)


def abstraction2(f):
    d = f.__dict__
    x, z, sh, sz = d.get('x'), d.get('z'), d.get('_Algorithm2D__shape'), d.get('_size')
    return [-1 if x is None else len(x), -1 if z is None else len(z),
            -1 if sh[0] is None else int(sh[0]), -1 if sh[1] is None else int(sh[1]),
            -1 if sz is None else int(sz), 1 if d.get('_validated_x') else 0, 1 if d.get('_validated_z') else 0]


def parse_events2(events):
    """2-D thread program: the prologue (one segment, regenerated by the model from the shared state) and
    later reads of x / z / _shape / _size; anything else is outside the 2-D model (fail-closed)."""
    acc = [e for e in events if e[0] in 'RWM']
    if not acc or acc[0][0] != 'M' or acc[0][1] != 'call':
        raise Unparsed('2-D call does not start with a call marker')
    uniq = acc[0][2][1]
    rest = acc[1:]
    if any(e[0] == 'M' for e in rest):
        raise Unparsed('nested call / setup marker in a 2-D model method')
    # the prologue ends with the last store, or (no store: x and z already set) after R x; R z; R shape
    last_w = max([i for i, e in enumerate(rest) if e[0] == 'W'], default=-1)
    k = last_w + 1 if last_w >= 0 else 3
    segs = [f'Pro2 {"true" if uniq else "false"} {M2} {N2}']
    for e in rest[k:]:
        if e[0] != 'R' or e[2] not in ('x', 'z', 'shape', 'size'):
            raise Unparsed(f'2-D access outside the modelled protocol: {e}')
        segs.append('Use2 D' + e[2])
    return segs


def codes2(events, tid):
    return [100 * tid + CELL2[e[2]] + (10 if e[0] == 'W' else 0) for e in events if e[0] in 'RW']


def model2d_cases(ctx):
    lits, meta = [], []
    kinds = {'noxz': (False, False), 'xonly': (True, False), 'zonly': (False, True), 'xz': (True, True)}
    for kind, (ix, iz) in kinds.items():
        for name in METHODS_2D_MODEL:
            if name == 'arpls' and ctx.tier == 'quick':
                continue
            for nt in (2, 3):
                ser = serial_reference(kind, name, nt, two_d=True)
                try:
                    progs = [parse_events2(ev) for ev in ser['events']]
                except Unparsed as e:
                    ctx.broke('correspondence:program-parse-2d', f'{name} on {kind}: {e}')
                    continue
                ctx.traces += nt
                st = (f'(fresh2 {"true" if ix else "false"} {"true" if iz else "false"} {M2} {N2}, '
                      f'[{"; ".join("init_local2 [" + "; ".join(p_) + "]" for p_ in progs)}])')
                steps = sum(1 for e in ser['events'][0] if e[0] in 'RW')
                ser_sched, ser_log = [], []
                for i, ev in enumerate(ser['events']):
                    c = codes2(ev, i)
                    ser_sched += [i] * len(c)
                    ser_log += c
                f = make_obj2(kind)
                for i in range(nt):
                    getattr(f, name)(ydata2(i), **METHODS_2D[name])
                lits.append(f'({st}, [{"; ".join(str(t) + "%nat" for t in ser_sched)}], {zlist(ser_log)}, '
                            f'{zlist([0] * nt)}, {zlist(abstraction2(f))})')
                meta.append({'kind': kind, 'method': name, 'threads': nt, 'schedule': 'serial', 'two_d': True})
                ctx.case(('serial2d', kind, name, nt), kind=f'program2d:{name}:{kind}')
                if nt == 2:
                    scheds = list(interleavings(ctx.n(3, 5), ctx.n(3, 5))) if name == 'rolling_ball' else []
                    scheds += [[0] * k + [1] * (steps + 5) for k in range(0, steps + 1)]
                    scheds += [[ctx.rng.randrange(2) for _ in range(2 * steps)] for _ in range(ctx.n(3, 20))]
                    if kind != 'xz' and (name == 'psalsa' or (name == 'rolling_ball' and ctx.tier == 'thorough')):
                        # two pre-emptions: thread 0 runs a accesses, thread 1 is parked after b accesses (inside
                        # its prologue / the _shape setter), thread 0 continues through its body, then thread 1
                        pa = max([i for i, e in enumerate([e for e in ser['events'][0] if e[0] in 'RW']) if e[0] == 'W'], default=2) + 1
                        scheds += [[0] * a + [1] * b + [0] * (steps + 5) for a in range(1, pa + 1) for b in range(1, pa + 2)]
                else:
                    scheds = [[ctx.rng.randrange(3) for _ in range(3 * steps)] for _ in range(ctx.n(4, 30))]
                for sched in scheds:
                    meth_kw = METHODS_2D[name]
                    f = make_obj2(kind)
                    jobs = [call_job(f, name, meth_kw, ydata2(i)) for i in range(nt)]
                    try:
                        con = T.run_concurrent([f], jobs, sched)
                    except T.SchedulerBroken as e:
                        ctx.broke('scheduler', f'2d {name} on {kind}: {e}')
                        break
                    outs = [outcome_code(con['results'][i], ser['results'][i]) for i in range(nt)]
                    case = {'kind': kind, 'method': name, 'threads': nt, 'schedule': con['executed'], 'two_d': True,
                            'outcomes': outs}
                    sw = sum(1 for a, b in zip(con['executed'], con['executed'][1:]) if a != b)
                    ctx.case(('replay2d', kind, name, nt, tuple(con['executed'])), nontrivial=sw >= 2,
                             kind=f'replay2d:{name}:{kind}:{nt}t')
                    if any(outs):
                        ctx.fail(finding_key(kind, name, True) or f'race:2d:{name}:{kind}',
                                 '2-D ' + describe(kind, name, outs, con), case)
                    if con['unmodelled']:
                        ctx.broke('correspondence:unmodelled-shared-write-2d', f'{name} on {kind}: {sorted(set(con["unmodelled"]))[:6]}')
                    glog, ptr = [], [0] * nt
                    for t in con['executed']:
                        lg = con['logs'][t]
                        if ptr[t] < len(lg):
                            glog.append(100 * t + CELL2[lg[ptr[t]][2]] + (10 if lg[ptr[t]][0] == 'W' else 0))
                            ptr[t] += 1
                    lits.append(f'({st}, [{"; ".join(str(t) + "%nat" for t in con["executed"])}], {zlist(glog)}, '
                                f'{zlist([min(o, 2) for o in outs])}, {zlist(abstraction2(f))})')
                    meta.append(case)
    ob = 'correspondence:first-call-2d(access sequences, outcomes and final state: model = real threads)'
    ctx.obligations.append(ob)
    bad = False
    per = 250
    for s0 in range(0, len(lits), per):
        sh = lits[s0:s0 + per]
        text = HEADER2 + CHECK2 + ('\nDefinition cases : list (state2 * list nat * list Z * list Z * list Z) := [\n'
                                   + ';\n'.join('  ' + l for l in sh) + '\n].\nEval vm_compute in (bad ok cases).\n')
        vals = ctx.coq_eval(f'first2d{s0 // per}', text)
        if vals is None:
            bad = True
        elif not vals or not vals[0].startswith('(0'):
            bad = True
            import re
            mm = re.match(r'\((\d+)(?:%nat)?, \[(.*)\]\)', vals[0]) if vals else None
            idx = [int(t.replace('%nat', '')) for t in (mm.group(2).split(';') if mm else []) if t.strip()]
            ctx.broke(ob, f'2-D model and implementation disagree on {vals[0] if vals else "?"}: {[meta[s0 + i] for i in idx[:3]]}')
    if not bad:
        ctx.discharged.append(ob)
    return bad



# ------------------------------------------------------------------------------------------------
# 2-D spline cache + lazy SplineBasis2D.basis: correspondence with coq/C04/Model2DS.v

HEADERS = """From Coq Require Import ZArith List Bool.
From PB Require Import lib.CaseUtil C04.Sched C04.Model2DS.
Import ListNotations.
Open Scope Z_scope.
"""
CELLS = {'x': 0, 'z': 1, 'shape': 2, 'spline': 3, 'lazyb': 4}
CHECKS = """
Definition ok (c : stateS * list nat * list Z * list Z * list Z) : bool :=
  let '(st, sched, log, outs, ab) := c in
  let fin := run_schedS sched st in
  zl_eqb (map outcomeS (snd fin)) outs && zl_eqb (sched_logS sched st) log && zl_eqb (abstractionS (fst fin)) ab.
"""


def abstractionS(f):
    b = f.__dict__.get('_spline_basis')
    if b is None:
        return [-1, -1, -1]
    return [int(b.num_knots[0]), int(b.spline_degree[0]), 0 if b.__dict__.get('_basis') is None else 1]


def spline_region(full):
    """Index (in the R/W-only log) where the thread's _setup_spline starts, and the segments from there on."""
    n_rw, start, segs = 0, None, []
    i, m = 0, len(full)
    while i < m:
        e = full[i]
        if start is None:
            if e[0] == 'M' and e[1] == 'setup' and e[2][0] == '_setup_spline':
                start = n_rw
                d = _bind_setup('_setup_spline', e[2][1], e[2][2])
                j = i + 1
                if not (j < m and full[j][:3] == ('R', 'fit2', 'shape')):
                    raise Unparsed('2-D _setup_spline does not start with a read of _shape')
                segs.append('UseShapeS')
                while j < m and not (full[j][0] == 'E' and full[j][1] == 'setup'):
                    j += 1
                segs.append(f'Spl2 {zl(int(np.ravel(d["num_knots"])[0]))} {zl(int(np.ravel(d["spline_degree"])[0]))}')
                n_rw += sum(1 for x in full[i:j] if x[0] in 'RW')
                i = j + 1
                continue
            if e[0] in 'RW':
                n_rw += 1
            i += 1
            continue
        if e[0] in ('E', 'P'):
            i += 1
        elif e[:3] == ('R', 'fit2', 'shape'):
            segs.append('UseShapeS')
            i += 1
        elif e[:3] == ('R', 'basis', 'lazyb'):
            i += 1
            if i < m and full[i][:3] == ('W', 'basis', 'lazyb'):
                i += 1
            if not (i < m and full[i][:3] == ('R', 'basis', 'lazyb')):
                raise Unparsed('lazy basis: test not followed by the returning read')
            segs.append('Lazy2')
            i += 1
        else:
            raise Unparsed(f'2-D spline region: access outside the modelled protocol: {e}')
    if start is None:
        raise Unparsed('no _setup_spline in a 2-D spline method')
    return start, segs


def spline2d_cases(ctx):
    lits, meta = [], []
    for kind in ('xz', 'noxz', 'xz+s5', 'xz+s4', 'xz+l5'):
        for name in ('pspline_iasls', 'pspline_asls'):
            for nt in (2, 3):
                if ctx.tier == 'quick' and (kind == 'xz+s5' or (nt == 3 and name == 'pspline_asls')):
                    continue
                ser = serial_reference(kind, name, nt, two_d=True)
                if ser['unmodelled']:
                    ctx.broke('correspondence:unmodelled-shared-write-2d', f'{name} on {kind}: {sorted(set(ser["unmodelled"]))[:6]}')
                try:
                    regs = [spline_region(ev) for ev in ser['events']]
                except Unparsed as e:
                    ctx.broke('correspondence:program-parse-2d-spline', f'{name} on {kind}: {e}')
                    continue
                ctx.traces += nt
                ab0 = abstractionS(make_obj2(kind))
                sh0 = 'coldS' if ab0[0] < 0 else f'(warmS ({zl(ab0[0])}, {zl(ab0[1])}, {"true" if ab0[2] else "false"}))'
                st = f'({sh0}, [{"; ".join("init_localS [" + "; ".join(r[1]) + "]" for r in regs)}])'

                def filt(executed, logs):
                    sched, glog, ptr = [], [], [0] * nt
                    starts = None
                    return sched, glog

                def lit(executed, logs_full, outs, ab):
                    starts = []
                    for t in range(nt):
                        try:
                            starts.append(spline_region(logs_full[t])[0])
                        except Unparsed:
                            starts.append(10 ** 9)     # the thread died before reaching _setup_spline
                    rw = [[e for e in lg if e[0] in 'RW'] for lg in logs_full]
                    sched, glog, ptr = [], [], [0] * nt
                    for t in executed:
                        if ptr[t] < len(rw[t]):
                            if ptr[t] >= starts[t]:
                                e = rw[t][ptr[t]]
                                sched.append(t)
                                glog.append(100 * t + CELLS.get(e[2], 9) + (10 if e[0] == 'W' else 0))
                            ptr[t] += 1
                    return (f'({st}, [{"; ".join(str(t) + "%nat" for t in sched)}], {zlist(glog)}, '
                            f'{zlist(outs)}, {zlist(ab)})')

                f = make_obj2(kind)
                for i in range(nt):
                    getattr(f, name)(ydata2(i), **METHODS_2D[name])
                ser_exec = []
                for i, ev in enumerate(ser['events']):
                    ser_exec += [i] * sum(1 for e in ev if e[0] in 'RW')
                lits.append(lit(ser_exec, ser['events'], [0] * nt, abstractionS(f)))
                meta.append({'kind': kind, 'method': name, 'threads': nt, 'schedule': 'serial', 'two_d': True})
                ctx.case(('serial2ds', kind, name, nt), kind=f'program2d:{name}:{kind}')
                steps = sum(1 for e in ser['events'][0] if e[0] in 'RW')
                if nt == 2:
                    scheds = [[0] * k + [1] * (steps + 5) for k in range(0, steps + 1)]
                    scheds += [[ctx.rng.randrange(2) for _ in range(2 * steps)] for _ in range(ctx.n(3, 25))]
                else:
                    scheds = [[ctx.rng.randrange(3) for _ in range(3 * steps)] for _ in range(ctx.n(3, 25))]
                for sched in scheds:
                    f = make_obj2(kind)
                    jobs = [call_job(f, name, METHODS_2D[name], ydata2(i)) for i in range(nt)]
                    try:
                        con = T.run_concurrent([f], jobs, sched)
                    except T.SchedulerBroken as e:
                        ctx.broke('scheduler', f'2d {name} on {kind}: {e}')
                        break
                    outs = [outcome_code(con['results'][i], ser['results'][i]) for i in range(nt)]
                    case = {'kind': kind, 'method': name, 'threads': nt, 'schedule': con['executed'], 'two_d': True,
                            'outcomes': outs}
                    sw = sum(1 for a, b in zip(con['executed'], con['executed'][1:]) if a != b)
                    ctx.case(('replay2ds', kind, name, nt, tuple(con['executed'])), nontrivial=sw >= 1,
                             kind=f'replay2d:{name}:{kind}:{nt}t')
                    if any(outs):
                        ctx.fail(finding_key(kind, name, True) or f'race:2d:{name}:{kind.split("+")[0]}',
                                 '2-D ' + describe(kind, name, outs, con), case)
                    if con['unmodelled']:
                        ctx.broke('correspondence:unmodelled-shared-write-2d', f'{name} on {kind}: {sorted(set(con["unmodelled"]))[:6]}')
                    lits.append(lit(con['executed'], con['logs_full'], [min(o, 2) for o in outs], abstractionS(f)))
                    meta.append(case)
    ob = 'correspondence:spline-cache-2d+lazy-basis(access sequences, outcomes and final state: model = real threads)'
    ctx.obligations.append(ob)
    bad = False
    per = 250
    for s0 in range(0, len(lits), per):
        sh = lits[s0:s0 + per]
        text = HEADERS + CHECKS + ('\nDefinition cases : list (stateS * list nat * list Z * list Z * list Z) := [\n'
                                   + ';\n'.join('  ' + l for l in sh) + '\n].\nEval vm_compute in (bad ok cases).\n')
        vals = ctx.coq_eval(f'spline2d{s0 // per}', text)
        if vals is None:
            bad = True
        elif not vals or not vals[0].startswith('(0'):
            bad = True
            import re
            mm = re.match(r'\((\d+)(?:%nat)?, \[(.*)\]\)', vals[0]) if vals else None
            idx = [int(t.replace('%nat', '')) for t in (mm.group(2).split(';') if mm else []) if t.strip()]
            ctx.broke(ob, f'2-D spline model and implementation disagree on {vals[0] if vals else "?"}: {[meta[s0 + i] for i in idx[:3]]}')
    if not bad:
        ctx.discharged.append(ob)
    return bad



# ------------------------------------------------------------------------------------------------
# every READ of a lazily initialised attribute in a method body must be executed by a replayed first call

SCAN_SKIP_FUNCS = {'__init__', '_size', '_shape', 'inner', '_register', '_override_x', 'banded_solver', 'pentapy_solver'}
# read sites that no first call on an object created without x/z can reach (reviewed; function-level)
SCAN_ALLOW = {
    ('_algorithm_setup.py', '_get_function', 'x'): 'only for optimizers delegating to a method that the object does not have (never for Baseline/Baseline2D)',
    ('two_d/_algorithm_setup.py', '_get_function', 'x'): 'same', ('two_d/_algorithm_setup.py', '_get_function', 'z'): 'same',
    ('two_d/_algorithm_setup.py', '_return_results', '_shape'): 'only for 3-D inputs (ensure_2d reshaping)',
    ('two_d/_algorithm_setup.py', '_setup_classification', '_shape'): 'no 2-D classification method exists',
    ('two_d/optimizers.py', 'individual_axes', 'x'): 'axis-restricted variants', ('two_d/optimizers.py', 'individual_axes', 'z'): 'axis-restricted variants',
    ('optimizers.py', 'optimize_extended_range', '_size'): 'only with a sort order, i.e. x given at construction',
    ('classification.py', 'rubberband', '_size'): 'error messages and the array form of `segments`',
    ('smooth.py', 'peak_filling', '_size'): 'error messages and the array form of `sections`',
    ('smooth.py', 'snip', '_size'): 'only when a half window exceeds (N - 1) // 2 (warning branch)',
    ('polynomial.py', 'loess', '_size'): 'conserve_memory=False / use_threshold branches',
    ('misc.py', 'interp_pts', 'x'): 'needs x_data or data=None',
}
VARIANTS_1D = [('dietrich', {'poly_order': 2}), ('cwt_br', {'poly_order': 2, 'min_length': 2}), ('swima', {}), ('peak_filling', {'half_window': 3}),
               ('loess', {'fraction': 0.3, 'conserve_memory': False}), ('loess', {'fraction': 0.3, 'use_threshold': True, 'max_iter': 3})]
VARIANTS_2D = []


def static_lazy_reads(repo):
    import ast
    import os
    base = os.path.join(repo, 'pybaselines')
    sites = {}
    for sub in ('', 'two_d'):
        d = os.path.join(base, sub)
        for fn in sorted(os.listdir(d)):
            if not fn.endswith('.py'):
                continue
            path = os.path.join(d, fn)
            tree = ast.parse(open(path).read())

            def visit(node, fname):
                for ch in ast.iter_child_nodes(node):
                    if isinstance(ch, (ast.FunctionDef, ast.AsyncFunctionDef)):
                        if ch.name not in SCAN_SKIP_FUNCS:
                            visit(ch, ch.name)
                    else:
                        if (fname and isinstance(ch, ast.Attribute) and isinstance(ch.ctx, ast.Load)
                                and isinstance(ch.value, ast.Name) and ch.value.id == 'self' and ch.attr in T.LAZY_ATTRS):
                            sites[(os.path.realpath(path), ch.lineno, ch.attr)] = ((sub + '/' if sub else '') + fn, fname)
                        visit(ch, fname)
            visit(tree, None)
    return sites


def sweep_calls():
    """(two_d, method, kwargs): the whole catalogue plus the parameter variants that change which lazily
    initialised attributes a body reads (return_coef=True, num_eigens=None, defaults instead of explicit windows)."""
    import inspect
    from pybaselines import Baseline, Baseline2D
    from .methods import KW_1D, KW_2D
    calls = []
    for two_d, kws, cls, var in ((False, KW_1D, Baseline, VARIANTS_1D), (True, KW_2D, Baseline2D, VARIANTS_2D)):
        for m, k in kws.items():
            if k is None or m == 'collab_pls':
                continue
            calls.append((two_d, m, dict(k)))
            params = inspect.signature(getattr(cls, m)).parameters
            if 'return_coef' in params:
                calls.append((two_d, m, dict(k, return_coef=True)))
            if 'num_eigens' in params:
                calls.append((two_d, m, dict(k, num_eigens=None)))
        calls += [(two_d, m, k) for m, k in var]
    return calls


def first_call_sweep(ctx):
    import os
    sites = static_lazy_reads(os.environ.get('VERIF_REPO', '/repo'))
    from pybaselines import Baseline, Baseline2D
    mk = {'nox': lambda: Baseline(), 'noxz': lambda: Baseline2D(), 'xonly': lambda: make_obj2('xonly'), 'zonly': lambda: make_obj2('zonly')}
    nrun = 0
    for two_d, m, kw in sweep_calls():
        ys = [ydata2(i) if two_d else ydata(i, 60) for i in range(2)]
        kinds = ['noxz'] if two_d else ['nox']
        ser0 = None
        for kind in (kinds + (['xonly', 'zonly'] if two_d else [])):
            f = mk[kind]()
            res, evs = [], []
            for i in range(2):
                hb = LN.heap_digest(f)
                r, ev, _ = T.run_solo(call_job(f, m, kw, ys[i]), [f])
                hm = LN.mutated_in_place(hb, LN.heap_digest(f))
                if hm:
                    ctx.broke('shared-heap-immutable(call boundaries, whole catalogue)', f'{m}{kw} on {kind}: {hm[:3]} changed in place')
                res.append(r)
                evs.append([e for e in ev if e[0] in 'RW'])
            if res[0][0] != 'ok':
                ctx.note(f'sweep: {m}{kw} raises serially ({res[0][1][0]}), skipped')
                break
            reads_size = any(e[2] == 'size' for e in evs[1])       # second call: body reads only
            if kind not in kinds and not reads_size:
                continue
            first = evs[0]
            pa = max([i for i, e in enumerate(first) if e[0] == 'W' and e[1].startswith('fit')
                      and e[2] in ('x', 'z', 'size', 'shape')], default=2) + 1
            full = (two_d and reads_size) or (ctx.tier == 'thorough' and not two_d)
            thor2 = ctx.tier == 'thorough' and two_d and not full
            bs = list(range(0, pa + 2)) if full else (list(range(1, pa + 2, 2)) if thor2 else ([4] if two_d else [2]))
            for a in (range(0, pa + 1) if (full or thor2) else sorted({1, 2, pa - 4, pa - 3, pa - 1, pa} & set(range(1, pa + 1)))):
                for b in bs:
                    f = mk[kind]()
                    try:
                        con = T.run_concurrent([f], [call_job(f, m, kw, ys[i]) for i in range(2)], [0] * a + [1] * b + [0] * 4000)
                    except T.SchedulerBroken as e:
                        ctx.broke('scheduler', f'sweep {m}: {e}')
                        return
                    nrun += 1
                    outs = [outcome_code(con['results'][i], res[i]) for i in range(2)]
                    ctx.case(('sweep', two_d, m, tuple(sorted(map(str, kw.items()))), kind, a, b), nontrivial=a > 0 and b > 0,
                             kind=f'sweep:{"2d" if two_d else "1d"}:{kind}')
                    if any(outs):
                        case = {'kind': kind, 'method': m, 'kwargs': {k_: (v if isinstance(v, (int, float, str, bool, type(None), dict)) else repr(v)) for k_, v in kw.items()},
                                'threads': 2, 'schedule': con['executed'], 'two_d': two_d, 'sweep': True}
                        key = finding_key(kind, m, two_d) or f'race:{m}'
                        ctx.fail(key, ('2-D ' if two_d else '') + describe(kind, f'{m}{kw}', outs, con), case)
    ob = 'scan:every-read-of-a-lazily-initialised-attribute-is-executed-by-a-replayed-first-call'
    ctx.obligations.append(ob)
    unc = []
    for (path, line, attr), (rel, fn) in sorted(sites.items()):
        if (path, line, attr) not in T.COVER and (os.path.realpath(path), line, attr) not in T.COVER and (rel, fn, attr) not in SCAN_ALLOW:
            unc.append(f'{rel}:{line} {fn} self.{attr}')
    ctx.extra['lazy_read_scan'] = {'read_sites': len(sites), 'executed_by_replayed_first_calls': len(sites) - len(unc)
                                   - sum(1 for (p_, l_, a_), (r_, f_) in sites.items() if (p_, l_, a_) not in T.COVER and (r_, f_, a_) in SCAN_ALLOW),
                                   'allow_listed': {f'{k[0]}:{k[1]}.{k[2]}': v for k, v in SCAN_ALLOW.items()},
                                   'uncovered': unc, 'sweep_runs': nrun}
    if unc:
        ctx.broke(ob, f'read sites of lazily initialised attributes not executed by any replayed first call: {unc[:8]}')
    else:
        ctx.discharged.append(ob)



# ------------------------------------------------------------------------------------------------
# the shared heap is immutable (value abstraction of the models) + source-line-granular pre-emption

LINE_METHODS = [   # (two_d, method key, object states): every user of a cached helper inside an iterative body; cache
    # warm with the SAME key, warm with a DIFFERENT key (other knots / larger / smaller Vandermonde), and cold
    (False, 'pspline_asls', ('spl:8', 'spl:6', 'x')), (False, 'mixture_model', ('spl:8', 'spl:6')), (False, 'pspline_iasls', ('spl:8', 'spl:6')),
    (False, 'irsqr', ('spl:6', 'x')), (False, 'modpoly', ('warm:2', 'warm:5', 'warm:1', 'x')), (False, 'imodpoly', ('warm:2', 'warm:5')),
    (False, 'poly', ('warm:5', 'warm:1')), (False, 'loess', ('warm:1', 'warm:3')), (False, 'quant_reg', ('warm:2', 'warm:1')),
    (False, 'goldindec', ('warm:5',)), (False, 'iasls', ('warm:2', 'warm:5')), (False, 'asls', ('x', 'whit:1')),
    (True, 'pspline_asls', ('xz+s5', 'xz+s4')), (True, 'pspline_iasls', ('xz+l5', 'xz+s4')), (True, 'modpoly', ('xz', 'xz+p3')),
    # 2-D Whittaker hosts (eigendecomposition path, default num_eigens): cold, first call without x/z, and after a
    # previous identical Whittaker call
    (True, 'asls', ('xz', 'noxz', 'xz+w')), (True, 'arpls', ('xz+w',)), (True, 'airpls', ('xz', 'xz+w')),
]
METHODS_2D['airpls'] = {'lam': 1e2, 'max_iter': 2}
MODEL_METHODS['irsqr'] = {'num_knots': 8, 'lam': 10, 'max_iter': 3}


def _line_setup(two_d, name, kind):
    meth, kw = (name, METHODS_2D[name]) if two_d else method_of(name)
    mk = (lambda: make_obj2(kind)) if two_d else (lambda: make_obj(kind))
    ys = [ydata2(i) if two_d else ydata(i) for i in range(2)]
    return meth, kw, mk, ys


def line_run(two_d, name, kind, k):
    meth, kw, mk, ys = _line_setup(two_d, name, kind)
    f = mk()
    r = LN.LineRun(call_job(f, meth, kw, ys[0]), call_job(f, meth, kw, ys[1]), pause_at=k).run()
    g = mk()
    ref = []
    for i in range(2):
        try:
            with warnings.catch_warnings():
                warnings.simplefilter('ignore')
                ref.append(('ok', getattr(g, meth)(ys[i], **kw)))
        except Exception as e:      # noqa
            ref.append(('exc', (type(e).__name__, str(e)[:200])))
    outs = [outcome_code(r.res_a, ref[0]), outcome_code(r.res_b, ref[1])]
    return r, outs


def heap_cases(ctx):
    import os
    repo = os.environ.get('VERIF_REPO', '/repo')
    # (1) static: every attribute stored on a cached helper object is reviewed
    ob = 'scan:attributes-of-cached-helper-objects-are-reviewed(constructor-constant or modelled cell)'
    ctx.obligations.append(ob)
    found = LN.helper_attr_scan(repo)
    newa = {c: sorted(a - set(LN.REVIEWED_HELPER_ATTRS[c])) for c, a in found.items() if a - set(LN.REVIEWED_HELPER_ATTRS[c])}
    newc = sorted(c for c in LN.cached_classes_scan(repo) if c not in LN.REVIEWED_HELPER_ATTRS and c not in ('tuple', 'list', 'dict', 'int', 'float'))
    ctx.extra['cached_helper_scan'] = {c: sorted(a) for c, a in found.items()}
    if newa or newc or set(found) != set(LN.REVIEWED_HELPER_ATTRS):
        ctx.broke(ob, f'new shared state on cached helper objects (attributes {newa}, helper classes {newc}): every such attribute is '
                      'reachable from all threads sharing the fitter and is neither a reviewed constructor constant nor a modelled cell')
    else:
        ctx.discharged.append(ob)
    # (2) dynamic: no array reachable from the shared fitter changes in place during a call (digest at every line)
    ob2 = 'shared-heap-immutable(no array reachable from the shared fitter or its cached helpers is mutated in place, no attribute of an already shared helper object other than a modelled cell is re-bound; checked at every executed line)'
    ctx.obligations.append(ob2)
    directed = {}
    bad = []
    for two_d, name, kinds in LINE_METHODS:
        for kind in kinds:
            meth, kw, mk, ys = _line_setup(two_d, name, kind)
            f = mk()
            r = LN.LineRun(call_job(f, meth, kw, ys[0]), monitor=f).run()
            directed[(two_d, name, kind)] = (r.count, [m[0] for m in r.mut] + [m[0] for m in r.rebinds], list(r.helper_lines))
            if r.rebinds:
                bad.append(f'{"2-D " if two_d else ""}{name} on {kind}: {r.rebinds[0][2][:2]} re-bound on an already shared helper object at {r.rebinds[0][1]} ({len(r.rebinds)} times)')
            ctx.case(('heap', two_d, name, kind), kind='heap-digest')
            if r.mut:
                bad.append(f'{"2-D " if two_d else ""}{name} on {kind}: {r.mut[0][2][:2]} changed in place at {r.mut[0][1]} ({len(r.mut)} times)')
    if bad:
        ctx.broke(ob2, '; '.join(bad[:6]))
    else:
        ctx.discharged.append(ob2)
    # (3) line-granular pre-emption: A paused at its k-th executed line, B runs its whole call, A resumes
    nrun = 0
    for (two_d, name, kind), (count, muts, hlines) in directed.items():
        ks = set()
        for mline in muts[:40]:
            ks.update(range(mline, mline + 4))          # directed by the in-place writes found above
        # lines executed inside methods of the cached-helper classes first (constructors, recalc / reset methods,
        # lazy properties): the windows in which a helper object is half-updated
        hl = hlines if ctx.tier == 'thorough' else hlines[:: max(1, len(hlines) // 45)]
        ks.update(hl)
        ks.update(h + 1 for h in hl[-1:])
        if ctx.tier == 'thorough' or muts:
            stride = (1 if muts else 3) if ctx.tier == 'thorough' else max(1, count // 60)
        else:
            stride = max(1, count // 16)
        ks.update(range(1 + ctx.rng.randrange(stride), count + 1, stride))
        found_fail = 0
        for k in sorted(ks):
            if k > count or found_fail >= 2:
                continue
            r, outs = line_run(two_d, name, kind, k)
            nrun += 1
            ctx.case(('line', two_d, name, kind, k), kind=f'line-preemption:{"2d" if two_d else "1d"}:{name}')
            if r.timed_out:
                ctx.broke('scheduler', f'line pre-emption {name} on {kind} at line {k} timed out')
                break
            if any(outs):
                found_fail += 1
                res = [r.res_a, r.res_b]
                msgs = []
                for i, o in enumerate(outs):
                    if o == 1:
                        msgs.append(f'thread {i} returns a result different from the serial one')
                    elif o:
                        msgs.append(f'thread {i} raises {res[i][1][0]}: {res[i][1][1][:90]}' if res[i] and res[i][0] == 'exc' else f'thread {i} did not finish')
                ctx.fail(finding_key(kind, name, two_d) or f'race:{"2d" if two_d else "1d"}:{name}:{kind.split(":")[0].split("+")[0]}',
                         f'{"2-D " if two_d else ""}{name} on a shared object ({kind}), thread 0 pre-empted at its executed line {k} of {count} while '
                         f'thread 1 runs its whole call: ' + '; '.join(msgs),
                         {'granularity': 'line', 'kind': kind, 'method': name, 'pause_at': k, 'two_d': two_d, 'threads': 2, 'outcomes': outs})
    ctx.extra['line_preemption_runs'] = nrun



# ------------------------------------------------------------------------------------------------
# non-default CONFIGURATION of the shared fitter (output_dtype, check_finite, banded_solver, unsorted x):
# a transient store to a configuration attribute by one thread must not change any other thread's result

CFG_METHODS = {   # optimizers / wrappers (they call other methods of the same object) and one user per family
    'collab_pls': {'method': 'asls', 'method_kwargs': {'lam': 1e3, 'max_iter': 3}},
    'custom_bc': {'method': 'modpoly', 'method_kwargs': {'poly_order': 2, 'max_iter': 3}},
    'optimize_extended_range': {'method': 'modpoly', 'min_value': 2, 'max_value': 3, 'method_kwargs': {'max_iter': 3}},
    'asls': {'lam': 1e3, 'max_iter': 3}, 'modpoly': {'poly_order': 2, 'max_iter': 3},
    'pspline_asls': {'num_knots': 8, 'lam': 10, 'max_iter': 3}, 'mor': {'half_window': 4},
}


def make_cfg_obj(kind, two_d=False):
    from pybaselines import Baseline, Baseline2D
    x = xgrid()
    perm = np.argsort(np.sin(np.arange(N1) * 1.7))          # a fixed non-involutive shuffle
    opts = {'f32': dict(output_dtype=np.float32), 'int': dict(output_dtype=int), 'nofinite': dict(check_finite=False),
            'bs3': {}, 'unsorted': {}, 'rej': dict(output_dtype=np.float32),
            'mix': dict(output_dtype=np.float32, check_finite=False)}[kind]
    if two_d:
        f = Baseline2D(np.linspace(0, 5, 12), np.linspace(-1, 3, 10), **opts)
    else:
        f = Baseline(x[perm] if kind in ('unsorted', 'mix') else x, **opts)
    if kind in ('bs3', 'mix'):
        f.banded_solver = 3
    if kind == 'rej' and not two_d:
        # a history of REJECTED calls: raised up front, and raised deep inside an optimizer after its own set-up
        for call in (lambda: f.asls(ydata(97), lam=-1), lambda: f.modpoly(ydata(97)[:-3]),
                     lambda: f.collab_pls(cfg_data('collab_pls', 97), method='asls', method_kwargs={'lam': -1}),
                     lambda: f.custom_bc(ydata(97), method='no_such_method')):
            try:
                with warnings.catch_warnings():
                    warnings.simplefilter('ignore')
                    call()
            except Exception:      # noqa: the rejection is the point
                pass
    return f


def cfg_data(name, i, two_d=False):
    y = ydata2(i) if two_d else ydata(i)
    if i == 1:      # the second thread passes a non-default memory layout (negative strides / Fortran order), same values
        y = np.asfortranarray(y) if two_d else np.ascontiguousarray(y[::-1])[::-1]
    return np.array([y, y * 1.5 + 1]) if name == 'collab_pls' else y


def config_cases(ctx):
    quick = ctx.tier == 'quick'
    groups = []
    for kind in (('f32', 'int', 'mix', 'rej') if quick else ('f32', 'int', 'nofinite', 'bs3', 'unsorted', 'mix', 'rej')):
        for name in CFG_METHODS:
            if quick and kind != 'f32' and name in ('mor', 'pspline_asls', 'asls', 'optimize_extended_range'):
                continue
            groups.append((False, kind, name))
    groups += [(True, 'f32', 'collab_pls'), (True, 'f32', 'asls')]
    nrun = 0
    for two_d, kind, name in groups:
        kw = dict(CFG_METHODS[name]) if not two_d else ({'method': 'asls', 'method_kwargs': {'lam': 1e2, 'max_iter': 2}} if name == 'collab_pls' else {'lam': 1e2, 'max_iter': 2})
        ys = [cfg_data(name, i, two_d) for i in range(2)]
        f = make_cfg_obj(kind, two_d)
        ser, steps = [], 0
        for i in range(2):
            r, ev, un = T.run_solo(call_job(f, name, kw, ys[i]), [f], track_config=True)
            ser.append(r)
            if i == 0:
                steps = sum(1 for e in ev if e[0] in 'RW')
            if un:
                ctx.broke('correspondence:unmodelled-shared-write', f'{name} on a {kind} object: stores to {sorted(set(un))[:4]} during a call')
        if ser[0][0] != 'ok':
            ctx.note(f'config family: {name} on {kind} raises serially ({ser[0][1]}), skipped')
            continue
        stride = max(1, steps // (16 if quick else 400))
        for k in range(0, steps + 1, stride):
            f = make_cfg_obj(kind, two_d)
            try:
                con = T.run_concurrent([f], [call_job(f, name, kw, ys[i]) for i in range(2)], [0] * k + [1] * 100000, track_config=True)
            except T.SchedulerBroken as e:
                ctx.broke('scheduler', f'config family {name}: {e}')
                break
            nrun += 1
            outs = [outcome_code(con['results'][i], ser[i]) for i in range(2)]
            ctx.case(('config', two_d, kind, name, k), nontrivial=k > 0, kind=f'config:{kind}:{name}')
            if any(outs):
                dt = [str(getattr(r[1][0], 'dtype', '?')) if r and r[0] == 'ok' else '-' for r in con['results']]
                ctx.fail(f'race:{"2d" if two_d else "1d"}:{name}:config-{kind}',
                         f'{"2-D " if two_d else ""}{name} on a shared object with non-default configuration ({kind}): thread 0 pre-empted after {k} of {steps} '
                         f'accesses (configuration attributes included), thread 1 runs its whole call: outcomes {outs}, baseline dtypes {dt} '
                         f'(serial: {[str(getattr(r[1][0], "dtype", "?")) for r in ser]})',
                         {'config': kind, 'method': name, 'k': k, 'two_d': two_d, 'threads': 2, 'outcomes': outs})
                break
    ctx.extra['config_family_runs'] = nrun



def prefix_fact(ctx):
    """The abstraction `slice (V r) p = V (min r p)`: the first p+1 columns of polyvander(x, r) ARE
    polyvander(x, p), bit for bit (sampled contract of numpy.polynomial.polynomial.polyvander)."""
    ob = 'contract-sample:polyvander-column-prefix-bit-exact'
    ctx.obligations.append(ob)
    x = np.polynomial.polyutils.mapdomain(xgrid(), np.array([0.1, 9.9]), np.array([-1., 1.]))
    okk = all(np.array_equal(np.polynomial.polynomial.polyvander(x, r)[:, :p + 1], np.polynomial.polynomial.polyvander(x, p))
              for r in range(0, 9) for p in range(0, r + 1))
    if okk:
        ctx.discharged.append(ob)
    else:
        ctx.broke(ob, 'polyvander(x, r)[:, :p+1] != polyvander(x, p)')


def run(ctx):
    import time
    t0 = time.time()
    ctx.rule = ('case = (object state: x given / duplicated x / no x / polynomial cache warm at a lower, equal or higher order, '
                'with or without a computed pinv / spline cache warm with the same or another key) x (method) x (2 or 3 threads) x '
                '(schedule: all interleavings of the first accesses, pre-emption of thread 0 after k accesses for every k, seeded '
                'random interleavings; first-call sweep over the whole method catalogue + parameter variants with two pre-emptions: thread 0 runs a accesses, thread 1 is parked after b accesses, thread 0 continues); distinct = distinct executed schedule per (state, method); non-trivial = at least two context switches')
    ctx.trusted += [
        'ATOMICITY GRANULARITY assumed by the model: one attribute load or store of the fitter / _PolyHelper object is atomic '
        '(true under the GIL; per-object-locked dict stores in free-threaded CPython); races inside NumPy/SciPy/numba C code, the memory '
        'model of free-threaded CPython and non-atomic multi-word stores are outside the proof',
        'Python evaluation order of attribute accesses is recorded from real calls (harness/c04trace.py patches __getattribute__/__setattr__ '
        'of _Algorithm, _Algorithm2D, _PolyHelper(2D), SplineBasis(2D) incl. the lazy SplineBasis2D._basis cell, for the duration of a run; no edit of /repo) and compared exactly',
        'construction of a new _PolyHelper / SplineBasis touches only thread-private memory until the publishing store (checked: writes to a '
        'SplineBasis outside its constructor, and writes to fitter attributes outside the modelled cells, break the correspondence)',
        'value abstraction: Vandermonde = key of its order, pinv = key of the matrix it was computed from, x = (length, has duplicates); '
        'np.linalg.pinv / polyvander / SplineBasis are deterministic functions of their arguments; polyvander column-prefix fact sampled bit-exactly',
        'the deterministic scheduler (real threading threads parked on semaphores before every instrumented access; timeouts become a broken obligation)',
    ]
    ctx.gate()
    ok = ctx.build_props()
    prefix_fact(ctx)
    t1 = time.time()
    bad1 = model_cases(ctx)
    t2 = time.time()
    bad2 = refuted_cases(ctx)
    bad3 = model2d_cases(ctx)
    bad4 = spline2d_cases(ctx)
    first_call_sweep(ctx)
    heap_cases(ctx)
    config_cases(ctx)
    t3 = time.time()
    budget = 1 if (ok and not ctx.broken and ctx.tier == 'quick') else 4
    oracle(ctx, budget)
    ctx.extra['phase_seconds'] = {'build': round(t1 - t0), 'safe_region': round(t2 - t1), 'refuted_regions': round(t3 - t2),
                                  'oracle': round(time.time() - t3)}
    ctx.note('NOT covered: the 2-D polynomial cache in Coq (_PolyHelper2D: instrumented, pre-emption after every access replayed against the serial result only); the 2-D first-call prologue and the 2-D spline cache incl. the lazy basis ARE modelled and proved (as two models over disjoint cells); '
             'free-threaded builds / races inside C extensions; methods outside the listed ones are covered by the theorem only through '
             'the segment grammar (any sequence of prologue / _setup_polynomial / body reads / _setup_spline / _size,_shape,x reads); '
             f'oracle budget x{budget}')


def replay(rep):
    case = rep.get('case') or {}
    print('replay case:', {k: (v if k != 'schedule' else f'{len(v)} entries') for k, v in case.items()})
    if 'method' not in case:
        print('broken obligations:', rep.get('broken_obligations'))
        return 1
    two_d = bool(case.get('two_d'))
    nt = int(case['threads'])
    if 'config' in case:
        name, kind, k = case['method'], case['config'], int(case['k'])
        kw = dict(CFG_METHODS[name]) if not two_d else ({'method': 'asls', 'method_kwargs': {'lam': 1e2, 'max_iter': 2}} if name == 'collab_pls' else {'lam': 1e2, 'max_iter': 2})
        ys = [cfg_data(name, i, two_d) for i in range(2)]
        g = make_cfg_obj(kind, two_d)
        ser = [T.run_solo(call_job(g, name, kw, ys[i]), [g], track_config=True)[0] for i in range(2)]
        f = make_cfg_obj(kind, two_d)
        con = T.run_concurrent([f], [call_job(f, name, kw, ys[i]) for i in range(2)], [0] * k + [1] * 100000, track_config=True)
        outs = [outcome_code(con['results'][i], ser[i]) for i in range(2)]
        for i in range(2):
            r = con['results'][i]
            print(f'thread {i}: outcome {outs[i]}', (r[1] if r[0] == 'exc' else f'dtype {r[1][0].dtype} (serial {ser[i][1][0].dtype})') if r else '')
        return 1 if any(outs) else 0
    if case.get('granularity') == 'line':
        r, outs = line_run(two_d, case['method'], case['kind'], int(case['pause_at']))
        for i, rr in enumerate((r.res_a, r.res_b)):
            print(f'thread {i}: outcome {outs[i]}', rr[1] if rr and rr[0] == 'exc' else '')
        print('(thread 0 paused at its executed source line', case['pause_at'], 'inside pybaselines while thread 1 ran its whole call; '
              '0 = identical to serial, 1 = different result, other = exception)')
        return 1 if any(outs) else 0
    if case.get('sweep'):
        kw = case.get('kwargs') or {}
        tag = f"__sweep__{case['method']}"
        (METHODS_2D if two_d else MODEL_METHODS)[tag] = (case['method'], kw) if not two_d else kw
        if two_d:
            METHODS_2D[case['method']] = kw
            case = dict(case)
        else:
            case = dict(case, method=tag)
    ser = serial_reference(case['kind'], case['method'], nt, two_d=two_d)
    con = concurrent_run(case['kind'], case['method'], nt, case['schedule'], two_d=two_d)
    outs = [outcome_code(con['results'][i], ser['results'][i]) for i in range(nt)]
    for i in range(nt):
        r = con['results'][i]
        print(f'thread {i}: outcome {outs[i]}', r[1] if r and r[0] == 'exc' else '')
    print('(0 = identical to serial, 1 = different result, 3 = length-mismatch ValueError, 8 = matmul ValueError, 50 = other exception)')
    return 1 if any(outs) else 0
