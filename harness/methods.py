"""Catalogue of all public fitter methods with small-data-friendly arguments, data generators,
and the loop-skeleton schema used by the C01/C09 trace validation.  Shared by several checks."""
import numpy as np

# keyword overrides so that every method runs quickly and sensibly on ~40-120 points
KW_1D = {
    'adaptive_minmax': {}, 'airpls': {'lam': 1e3}, 'amormol': {'half_window': 4},
    'arpls': {'lam': 1e3}, 'asls': {'lam': 1e3, 'p': 0.05}, 'aspls': {'lam': 1e3},
    'beads': {'freq_cutoff': 0.05, 'max_iter': 5}, 'brpls': {'lam': 1e3},
    'collab_pls': {'method_kwargs': {'lam': 1e3}}, 'corner_cutting': {'max_iter': 10},
    'custom_bc': {'method_kwargs': {'lam': 1e3}}, 'cwt_br': {'poly_order': 2, 'scales': [2, 3, 4]},
    'derpsalsa': {'lam': 1e3}, 'dietrich': {'poly_order': 2, 'smooth_half_window': 2},
    'drpls': {'lam': 1e3}, 'fabc': {'lam': 1e3, 'scale': 3}, 'fastchrom': {'half_window': 4},
    'goldindec': {'max_iter': 20, 'max_iter_2': 10}, 'golotvin': {'half_window': 4, 'sections': 4},
    'iarpls': {'lam': 1e3}, 'iasls': {'lam': 1e3, 'p': 0.05}, 'imodpoly': {}, 'imor': {'half_window': 4},
    'interp_pts': None, 'ipsa': {'half_window': 4, 'max_iter': 30}, 'irsqr': {'num_knots': 8, 'lam': 10},
    'jbcd': {'half_window': 4}, 'loess': {'fraction': 0.3}, 'lsrpls': {'lam': 1e3},
    'mixture_model': {'num_knots': 8, 'lam': 10}, 'modpoly': {}, 'mor': {'half_window': 4},
    'mormol': {'half_window': 4, 'max_iter': 30}, 'mpls': {'half_window': 4, 'lam': 1e3},
    'mpspline': {'half_window': 4, 'num_knots': 8}, 'mwmv': {'half_window': 4},
    'noise_median': {'half_window': 4}, 'optimize_extended_range': {'min_value': 2, 'max_value': 4},
    'peak_filling': {'half_window': 3, 'sections': 6}, 'penalized_poly': {}, 'poly': {},
    'psalsa': {'lam': 1e3}, 'pspline_airpls': {'num_knots': 8, 'lam': 10}, 'pspline_arpls': {'num_knots': 8, 'lam': 10},
    'pspline_asls': {'num_knots': 8, 'lam': 10, 'p': 0.05}, 'pspline_aspls': {'num_knots': 8, 'lam': 10},
    'pspline_brpls': {'num_knots': 8, 'lam': 10}, 'pspline_derpsalsa': {'num_knots': 8, 'lam': 10},
    'pspline_drpls': {'num_knots': 8, 'lam': 10}, 'pspline_iarpls': {'num_knots': 8, 'lam': 10},
    'pspline_iasls': {'num_knots': 8, 'lam': 10, 'p': 0.05}, 'pspline_lsrpls': {'num_knots': 8, 'lam': 10},
    'pspline_mpls': {'half_window': 4, 'num_knots': 8, 'lam': 10}, 'pspline_psalsa': {'num_knots': 8, 'lam': 10},
    'quant_reg': {'max_iter': 30}, 'ria': {'half_window': 4, 'max_iter': 30}, 'rolling_ball': {'half_window': 4},
    'rubberband': {}, 'snip': {'max_half_window': 5}, 'std_distribution': {'half_window': 4},
    'swima': {'min_half_window': 2, 'max_half_window': 6}, 'tophat': {'half_window': 4},
}

KW_2D = {
    'adaptive_minmax': {}, 'airpls': {'lam': 1e2}, 'arpls': {'lam': 1e2}, 'asls': {'lam': 1e2, 'p': 0.05},
    'aspls': {'lam': 1e2}, 'brpls': {'lam': 1e2}, 'collab_pls': {'method_kwargs': {'lam': 1e2}},
    'drpls': {'lam': 1e2}, 'iarpls': {'lam': 1e2}, 'iasls': {'lam': 1e2, 'p': 0.05}, 'imodpoly': {},
    'imor': {'half_window': 2}, 'individual_axes': {'method_kwargs': {'lam': 1e2}},
    'irsqr': {'num_knots': 5, 'lam': 10}, 'lsrpls': {'lam': 1e2}, 'mixture_model': {'num_knots': 5, 'lam': 10},
    'modpoly': {}, 'mor': {'half_window': 2}, 'noise_median': {'half_window': 2}, 'penalized_poly': {},
    'poly': {}, 'psalsa': {'lam': 1e2}, 'pspline_airpls': {'num_knots': 5, 'lam': 10},
    'pspline_arpls': {'num_knots': 5, 'lam': 10}, 'pspline_asls': {'num_knots': 5, 'lam': 10, 'p': 0.05},
    'pspline_brpls': {'num_knots': 5, 'lam': 10}, 'pspline_iarpls': {'num_knots': 5, 'lam': 10},
    'pspline_iasls': {'num_knots': 5, 'lam': 10, 'p': 0.05}, 'pspline_lsrpls': {'num_knots': 5, 'lam': 10},
    'pspline_psalsa': {'num_knots': 5, 'lam': 10}, 'quant_reg': {'max_iter': 30},
    'rolling_ball': {'half_window': 2}, 'tophat': {'half_window': 2},
}

# Loop-skeleton schema (see coq/lib/Loop.v): budget as a function of max_iter, whether the pass index
# given to the reweighting starts at 0 or 1 (irrelevant to the record), what the returned baseline is
# ('base' = the baseline of the stopping pass, 'state' = the carried state as imor does), and which
# params key carries the state ('weights') if any.
W0 = dict(budget=1, ret='base', state_key='weights')      # range(max_iter + 1), tol_history[:i + 1]
W1 = dict(budget=1, ret='base', state_key='weights')      # range(1, max_iter + 2), tol_history[:i]
P = dict(budget=0, ret='base', state_key=None)            # range(max_iter), state = previous baseline
B0 = dict(budget=1, ret='base', state_key=None)           # range(max_iter + 1), state = previous baseline
S0 = dict(budget=1, ret='state', state_key=None)          # imor: returns the carried state
MS0 = dict(budget=1, ret='state', state_key='weights')    # mixture_model: baseline and weights are both carried state

SCHEMA_1D = {
    'asls': W0, 'iasls': W0, 'arpls': W0, 'aspls': W0, 'psalsa': W0, 'derpsalsa': W0,
    'airpls': W1, 'drpls': W1, 'iarpls': W1, 'lsrpls': W1,
    'pspline_asls': W0, 'pspline_iasls': W0, 'pspline_arpls': W0, 'pspline_aspls': W0,
    'pspline_psalsa': W0, 'pspline_derpsalsa': W0, 'pspline_airpls': W1, 'pspline_drpls': W1,
    'pspline_iarpls': W1, 'pspline_lsrpls': W1, 'mixture_model': MS0, 'irsqr': W0,
    'modpoly': P, 'imodpoly': P, 'penalized_poly': P, 'quant_reg': P,
    'imor': S0, 'amormol': B0, 'mormol': B0, 'loess': B0, 'ipsa': B0,
}
SCHEMA_2D = {
    'asls': W0, 'iasls': W0, 'arpls': W0, 'aspls': W0, 'psalsa': W0,
    'airpls': W1, 'drpls': W1, 'iarpls': W1, 'lsrpls': W1,
    'pspline_asls': W0, 'pspline_iasls': W0, 'pspline_arpls': W0, 'pspline_psalsa': W0,
    'pspline_airpls': W1, 'pspline_iarpls': W1, 'pspline_lsrpls': W1,
    'mixture_model': MS0, 'irsqr': W0,
    'modpoly': P, 'imodpoly': P, 'penalized_poly': P, 'quant_reg': P, 'imor': S0,
}
# methods whose convergence record is two-dimensional / nested (only the size bound is checked)
NESTED = {'brpls', 'pspline_brpls', 'goldindec', 'jbcd'}
PER_POINT_KEYS = ('weights', 'mask', 'alpha', 'signal')


def method_names(two_d=False):
    return sorted(KW_2D if two_d else KW_1D)


def make_x(rng, n, kind='uniform'):
    if kind == 'uniform':
        return np.linspace(rng.choice([-5.0, 0.0, 10.0]), rng.choice([20.0, 100.0, 4000.0]), n)
    x = np.sort(np.array([rng.uniform(0, 100) for _ in range(n)]))
    x += np.arange(n) * 1e-6   # strictly increasing
    return x


def make_y(rng, x, kind='noise'):
    n = len(x)
    t = (x - x[0]) / (x[-1] - x[0])
    base = 5 + 10 * t + 3 * np.sin(3 * t)
    peaks = sum(a * np.exp(-0.5 * ((t - c) / w) ** 2)
                for a, c, w in [(30, 0.25, 0.02), (50, 0.6, 0.03), (20, 0.8, 0.015)])
    noise = rng.normal(0, 0.5, n)
    y = base + peaks + noise
    if kind == 'offset':
        y = y + 1e4
    elif kind == 'scale':
        y = y * 1e-6
    elif kind == 'negative':
        y = -y
    elif kind == 'integer':
        y = np.round(y * 10)
    return y


def make_z2d(rng, m, n):
    x = np.linspace(-3, 8, m)
    z = np.linspace(10, 50, n)
    X, Z = np.meshgrid((x - x[0]) / (x[-1] - x[0]), (z - z[0]) / (z[-1] - z[0]), indexing='ij')
    base = 2 + 3 * X + 2 * Z + X * Z
    peaks = 20 * np.exp(-0.5 * (((X - 0.5) / 0.08) ** 2 + ((Z - 0.4) / 0.1) ** 2))
    y = base + peaks + rng.normal(0, 0.2, (m, n))
    return x, z, y


def call_kwargs(name, two_d=False, **extra):
    kw = dict((KW_2D if two_d else KW_1D)[name] or {})
    for k, v in list(kw.items()):
        if isinstance(v, dict):
            kw[k] = dict(v)
    kw.update(extra)
    return kw


def run_1d(name, x, y, fitter=None, **extra):
    from pybaselines import Baseline
    fitter = fitter if fitter is not None else Baseline(x)
    if name == 'interp_pts':
        pts = np.array([[x[0], y[0]], [x[len(x) // 2], y[len(x) // 2]], [x[-1], y[-1]]])
        return fitter.interp_pts(y, baseline_points=pts, **extra)
    if name == 'collab_pls':
        return fitter.collab_pls(np.vstack([y, y * 1.1 + 1]), **call_kwargs(name, **extra))
    return getattr(fitter, name)(y, **call_kwargs(name, **extra))


def run_2d(name, x, z, y, fitter=None, **extra):
    from pybaselines import Baseline2D
    fitter = fitter if fitter is not None else Baseline2D(x, z)
    if name == 'collab_pls':
        return fitter.collab_pls(np.array([y, y * 1.1 + 1]), **call_kwargs(name, True, **extra))
    return getattr(fitter, name)(y, **call_kwargs(name, True, **extra))


# one-at-a-time parameter variations (legal or borderline values; a raise is acceptable for C01,
# a returned value must be well-formed).  Used by the direct oracles of several checks.
PARAM_VALUES = {
    'half_window': [1, 2, 15, 60], 'smooth_half_window': [0, 1, 3], 'diff_order': [1, 2, 3, 4],
    'poly_order': [0, 1, 4], 'num_knots': [2, 3, 20], 'spline_degree': [0, 1, 2, 5],
    'lam': [1e-2, 1e8], 'p': [0.001, 0.5, 0.999], 'max_iter': [0, 1, 2], 'tol': [0.0, float('inf')],
    'interp_half_window': [0, 1, 10], 'sections': [1, 2, 3, 10], 'min_length': [1, 5], 'num_std': [0.5, 5.0],
    'quantile': [0.01, 0.9], 'eta': [0.0, 1.0], 'filter_order': [4, 6, 8], 'decreasing': [True],
    'max_half_window': [1, 3, 30], 'min_half_window': [1], 'fill_half_window': [0, 3], 'num_smooths': [0, 1],
    'k': [0.1, 10.0], 'segments': [2, 3], 'side': ['left', 'right'], 'fraction': [0.1, 1.0],
    'total_points': [2, 5], 'delta': [0.0, 5.0, 1e6], 'conserve_memory': [False], 'use_threshold': [True],
    'symmetric_weights': [True], 'symmetric': [True], 'return_coef': [True], 'use_original': [True],
    'mask_initial_peaks': [True, False], 'normalize_weights': [False], 'weights_as_mask': [True],
    'average_dataset': [False], 'asymmetric_coef': [0.1, 2.0], 'return_dof': [True],
    'num_eigens': [None, (3, 3), (5, 4)], 'max_cross': [0, 1], 'robust_opening': [False],
    'filter_type': [2], 'fit_parabola': [False], 'original_criteria': [True], 'lam_smooth': [1e-2, 10.0],
    'lam_1': [1e-6, 1.0], 'cost_function': ['symmetric_huber', 'asymmetric_indec', 'a_tq', 's_truncated_quadratic'],
    'threshold': [0.5], 'peak_ratio': [0.1, 0.9], 'scale': [2, 5], 'sampling': [1, 3],
    'estimation_poly_order': [1, 3], 'constrained_fraction': [0.05, 0.3], 'width_scale': [0.05, 0.5],
    'beta': [1.0], 'gamma': [0.5], 'alpha': [0.5], 'min_fwhm': [2], 'sigma': [0.5], 'eps': [1e-3],
    'num_bins': [5], 'max_iter_2': [0, 2], 'tol_2': [0.0, float('inf')], 'interp_method': ['cubic'],
    'method': ['arpls', 'imodpoly', 'pspline_asls', 'mor'], 'axes': [0, 1, (1, 0)],
}


def param_variants(name, two_d=False):
    """[{param: value}] one-at-a-time variations applicable to the method's signature."""
    import inspect
    from pybaselines import Baseline, Baseline2D
    sig = inspect.signature(getattr(Baseline2D if two_d else Baseline, name))
    out = []
    for par in sig.parameters:
        if par in ('self', 'data'):
            continue
        for v in PARAM_VALUES.get(par, ()):
            if par == 'alpha' and name in ('aspls', 'pspline_aspls'):
                continue   # alpha is a per-point array there
            if par == 'scale' and name == 'loess':
                v = float(v)
            if par == 'method':
                if name == 'adaptive_minmax' and v not in ('imodpoly',):
                    continue
                if name == 'collab_pls' and v in ('imodpoly', 'mor'):
                    continue
                if two_d and name == 'individual_axes' and v == 'pspline_asls':
                    pass
            if par == 'lam' and name == 'custom_bc':
                continue
            out.append({par: v})
    return out
