"""C01 -- output-dtype rule of the method wrappers: correspondence of coq/C01/Dtype.v with the CURRENT
`_Algorithm._register` / `_Algorithm2D._register` + `_return_results`, through probe methods registered
with the decorators of the source, plus a handful of real methods (returned dtype only)."""
import itertools
import re
import warnings

import numpy as np

OB = 'correspondence:wrapper-output-dtype-rule'

HEADER = """From Coq Require Import List Bool.
From PB Require Import lib.CaseUtil C01.Dtype.
Import ListNotations.
"""

# Coq constructor -> NumPy dtype
DTYPES = {
    'F64': 'float64', 'F32': 'float32', 'F16': 'float16', 'F128': 'longdouble', 'I64': 'int64', 'I32': 'int32',
    'I16': 'int16', 'I8': 'int8', 'U64': 'uint64', 'U32': 'uint32', 'U16': 'uint16', 'U8': 'uint8', 'Bool': 'bool',
    'C128': 'complex128', 'C64': 'complex64', 'Obj': 'object',
}
PY_INPUTS = ['PyFloats', 'PyInts', 'PyBools', 'PyComplex', 'NoData']
OUTS = [None, 'F32', 'F64', 'I32', 'C128']      # output_dtype given at construction
ENTRIES_1D = ['WithAxes AxBoth', 'NoAxesFirst', 'NoAxesLater', 'FuncNoX', 'FuncWithX']
ENTRIES_2D = ['WithAxes AxBoth', 'WithAxes AxFirst', 'WithAxes AxSecond', 'NoAxesFirst', 'NoAxesLater']   # no functional 2-D interface
REAL_INPUTS = ['F64', 'F32', 'F16', 'I64', 'I32', 'U8', 'Bool', 'PyInts']


def coq_dt(dtype):
    dtype = np.dtype(dtype)
    for k, v in DTYPES.items():
        if dtype == np.dtype(v):
            return k
    return 'Other'


def cb(b):
    return 'true' if b else 'false'


def make_probes():
    """Probe methods registered with the decorators of the current source, one per flag combination the real
    methods use.  Each records the dtype / shape of the data it receives and returns a baseline of dtype `bd`
    and params {'weights': array of dtype `pd`} in the shapes the wrapper expects."""
    from pybaselines._algorithm_setup import _Algorithm
    from pybaselines.two_d._algorithm_setup import _Algorithm2D
    log = []

    def body(self, data, bd, pd, flat):
        log.append((data.dtype, data.shape))
        core = 2 if isinstance(self, _Algorithm2D) else 1
        # 1-D wrapper with data=None hands np.asarray(None, dtype=float) (0-d) to the method
        shape = data.shape if data.ndim else (self._size,)
        base = (np.arange(int(np.prod(shape)), dtype=float) % 7 + 1).reshape(shape)
        wts = np.ones(shape[-core:])
        if flat:
            base, wts = base.reshape(-1), wts.reshape(-1)
        return base.astype(bd), {'weights': wts.astype(pd)}

    class Probe1(_Algorithm):
        @_Algorithm._register(sort_keys=('weights',))
        def plain(self, data, bd=float, pd=float):
            return body(self, data, bd, pd, False)

        @_Algorithm._register(sort_keys=('weights',), require_unique_x=True)
        def unique(self, data, bd=float, pd=float):
            return body(self, data, bd, pd, False)

        @_Algorithm._register(skip_sorting=True)
        def skip(self, data, bd=float, pd=float):
            return body(self, data, bd, pd, False)

        @_Algorithm._register(ensure_1d=False, skip_sorting=True)
        def stack(self, data, bd=float, pd=float):
            return body(self, data, bd, pd, False)

    class Probe2(_Algorithm2D):
        @_Algorithm2D._register(sort_keys=('weights',))
        def plain(self, data, bd=float, pd=float):
            return body(self, data, bd, pd, False)

        @_Algorithm2D._register(sort_keys=('weights',), reshape_baseline=True, reshape_keys=('weights',))
        def flat(self, data, bd=float, pd=float):
            return body(self, data, bd, pd, True)

        @_Algorithm2D._register(skip_sorting=True)
        def skip(self, data, bd=float, pd=float):
            return body(self, data, bd, pd, False)

        @_Algorithm2D._register(ensure_2d=False, skip_sorting=True)
        def stack(self, data, bd=float, pd=float):
            return body(self, data, bd, pd, False)

    # functional interface: module-level functions wrapped with the source's _class_wrapper call Probe1(x_data=x).<name>
    from pybaselines._algorithm_setup import _class_wrapper
    wrap = _class_wrapper(Probe1)
    funcs = {}
    for nm in ('plain', 'unique', 'skip', 'stack'):
        def stub(data, bd=float, pd=float, x_data=None):
            raise AssertionError('replaced by the class method')
        stub.__name__ = nm
        funcs[nm] = wrap(stub)
    return Probe1, Probe2, funcs, log


def make_data(rng, inp, two_d, layout, stack):
    """data argument for the input kind; layout in {0: flat, 1, 2, 3: unit axis somewhere}"""
    m, n = 5, 4
    shape = (m, n) if two_d else (m,)
    vals = rng.integers(1, 9, size=shape).astype(float)
    if inp == 'NoData':
        return None
    if inp.startswith('Py'):
        conv = {'PyFloats': float, 'PyInts': int, 'PyBools': lambda v: bool(int(v) % 2), 'PyComplex': complex}[inp]
        lst = [[conv(v) for v in row] for row in vals] if two_d else [conv(v) for v in vals]
        if inp == 'PyFloats' and not two_d:
            lst[1] = int(lst[1])        # floats mixed with ints still infer float64
        return [lst, lst] if stack else lst
    dtype = DTYPES[inp]
    arr = (vals % 2 == 0) if dtype == 'bool' else vals.astype(dtype)
    if stack:
        return np.array([arr, arr])
    if layout == 1:
        arr = arr[..., None]            # (N,1) / (M,N,1)
    elif layout == 2:
        arr = arr[None, ...]            # (1,N) / (1,M,N)
    elif layout == 3 and two_d:
        arr = arr[:, None, :]           # (M,1,N)
    return arr


def flags_lit(two_d, skip, unsorted, flat_layout, stack, reshape_out, chk, entry):
    return (f'{{| two_d := {cb(two_d)}; skip_sorting := {cb(skip)}; unsorted := {cb(unsorted)}; flat_layout := {cb(flat_layout)}; '
            f'stack := {cb(stack)}; reshape_out := {cb(reshape_out)}; check_finite := {cb(chk)}; entry := {entry} |}}')


def dtype_correspondence(ctx):
    ctx.obligations.append(OB)
    ctx.rule += ('; output dtype: probe methods registered with the CURRENT _Algorithm._register / _Algorithm2D._register (sort_keys, '
                 'require_unique_x, skip_sorting, ensure_1d/ensure_2d=False stacks, reshape_baseline/reshape_keys) and module-level '
                 'probe functions wrapped with the current _class_wrapper; full product ENTRY PATH (object with axes; 2-D also only x / '
                 'only z; first call of a fresh object without axes; second call on that object; functional without / with x_data) x 21 '
                 'input kinds (16 ndarray dtypes, lists of floats/ints/bools/complex, None) x output_dtype in {None, float32, float64, '
                 'int32, complex128} x 1-D/2-D for the plain registration, the other 3 registrations with a drawn entry path; drawn '
                 'sortedness, (N,1)/(1,N)/(M,N,1)/(1,M,N)/(M,1,N) layouts, check_finite and method-body return dtypes; plus real methods '
                 '(1-D asls, poly, mor, adaptive_minmax through the class AND the module-level functions; 2-D asls, poly, mor, '
                 'individual_axes) x entry paths x 8 input kinds x 3 output_dtype; a fresh object per case; observed (dtype received by '
                 'the method, dtype of the returned baseline, dtype of params[weights], raised) compared in Coq with C01.Dtype.inner')
    ctx.trusted.append('output dtype: the model C01/Dtype.v abstracts every NumPy call of the wrappers to its effect on the dtype '
                       '(asarray keeps/infers/casts, indexing and reshape keep); which NumPy calls the wrappers and the helpers '
                       '_check_sized_array / _yx_arrays / _yxz_arrays / _class_wrapper make is tied by the probe correspondence, not '
                       'translated; string / datetime inputs and dtypes produced inside individual method bodies are outside the model')
    try:
        Probe1, Probe2, funcs, log = make_probes()
    except Exception as exc:  # noqa
        ctx.broke(OB, f'the probe methods could not be registered with the decorators of the source: {type(exc).__name__}: {exc}')
        return
    rng = np.random.default_rng([ctx.seed, 303])
    x_sorted, z_sorted = np.array([1., 2., 3., 5., 8.]), np.array([0., 1., 3., 4.])
    px, pz = np.array([2, 0, 3, 4, 1]), np.array([1, 2, 3, 0])          # neither is its own inverse
    inputs = list(DTYPES) + PY_INPUTS
    lits, calls = [], []

    def axes_for(entry, two_d, unsorted):
        """(x, z) constructor / x_data arguments of the entry path"""
        has_x = entry in ('WithAxes AxBoth', 'WithAxes AxFirst', 'FuncWithX')
        has_z = two_d and entry in ('WithAxes AxBoth', 'WithAxes AxSecond')
        xk = (x_sorted[px] if unsorted else x_sorted) if has_x else None
        zk = (z_sorted[pz] if unsorted else z_sorted) if has_z else None
        return xk, zk

    def run_entry(entry, two_d, mk_obj, call_obj, call_func, warm):
        """Runs one call on the entry path; returns (sort_order is not None, result).  mk_obj() -> fresh object,
        call_obj(obj) -> method result, call_func() -> functional result, warm(obj): the first call of a later-call case"""
        if entry.startswith('Func'):
            return None, call_func()
        obj = mk_obj()
        if entry == 'NoAxesLater':
            warm(obj)
            del log[:]
        return obj._sort_order is not None, call_obj(obj)

    with warnings.catch_warnings():
        warnings.simplefilter('ignore')
        # ---- probes
        jobs = []
        for two_d in (False, True):
            for entry, inp, out in itertools.product(ENTRIES_2D if two_d else ENTRIES_1D, inputs, OUTS):
                if entry.startswith('Func') and out is not None:
                    continue        # the functional interface has no output_dtype
                jobs.append((two_d, 'plain', entry, inp, out))
            for variant, inp, out in itertools.product(('second', 'skip', 'stack'), inputs, OUTS):
                ents = ENTRIES_2D if two_d else ENTRIES_1D
                entry = ents[int(rng.integers(0, len(ents)))]
                if entry.startswith('Func') and out is not None:
                    entry = 'NoAxesFirst'
                jobs.append((two_d, variant, entry, inp, out))
        for two_d, variant, entry, inp, out in jobs:
            name = variant if variant != 'second' else ('flat' if two_d else 'unique')
            stack = variant == 'stack'
            unsorted = bool(rng.integers(0, 3)) and entry in ('WithAxes AxBoth', 'WithAxes AxFirst', 'WithAxes AxSecond', 'FuncWithX')
            layout = 0 if (stack or inp in PY_INPUTS) else int(rng.integers(0, 4 if two_d else 3))
            chk = True if entry.startswith('Func') else bool(rng.integers(0, 2))
            bd = ['F64', 'F64', 'F32', 'I16'][int(rng.integers(0, 4))]
            pd = ['F64', 'F32', 'Bool', 'I64'][int(rng.integers(0, 4))]
            xk, zk = axes_for(entry, two_d, unsorted)
            kw = dict(check_finite=chk, output_dtype=None if out is None else np.dtype(DTYPES[out]))
            data = make_data(rng, inp, two_d, layout, stack)
            warm_data = make_data(rng, 'F64', two_d, 0, stack)
            bdt, pdt = np.dtype(DTYPES[bd]), np.dtype(DTYPES[pd])
            call = {'kind': 'dtype-probe', 'two_d': two_d, 'probe': name, 'entry': entry, 'input': inp, 'output_dtype': out,
                    'unsorted': unsorted, 'layout': layout, 'check_finite': chk, 'body_returns': [bd, pd], 'seed': ctx.seed}
            del log[:]
            try:
                really_unsorted, (b, p) = run_entry(
                    entry, two_d,
                    lambda: Probe2(xk, zk, **kw) if two_d else Probe1(xk, **kw),
                    lambda obj: getattr(obj, name)(data, bd=bdt, pd=pdt),
                    lambda: funcs[name](data, bd=bdt, pd=pdt, x_data=xk) if xk is not None else funcs[name](data, bd=bdt, pd=pdt),
                    lambda obj: getattr(obj, name)(warm_data))
                if really_unsorted is None:
                    really_unsorted = unsorted
                obs = f'Some {{| r_received := {coq_dt(log[0][0]) if log else "Other"}; r_ret := {coq_dt(b.dtype)}; r_params := {coq_dt(p["weights"].dtype)} |}}'
                call['observed'] = [str(log[0][0]) if log else None, str(b.dtype), str(p['weights'].dtype)]
            except Exception as exc:  # noqa
                really_unsorted = unsorted
                obs = 'None'
                call['observed'] = f'{type(exc).__name__}: {exc}'
            ctx.case(('dtype-probe', two_d, name, entry, inp, out), nontrivial=inp != 'F64' or out is not None,
                     kind=f'dtype:probe:{"2d" if two_d else "1d"}:{entry.split()[0]}')
            flags = flags_lit(two_d, variant in ('skip', 'stack'), really_unsorted, layout == 0, stack, name == 'flat', chk, f'({entry})')
            cinp = inp if inp in PY_INPUTS else f'Arr {inp}'
            lits.append(f'({flags}, {"None" if out is None else "Some " + out}, {cinp}, {bd}, {pd}, true, {obs})')
            calls.append(call)
        # ---- real methods: returned dtype only (the probe is representative), class and functional interface
        import importlib
        from pybaselines import Baseline, Baseline2D
        real = [(False, 'asls', 'whittaker', {'lam': 1e2, 'max_iter': 2}), (False, 'poly', 'polynomial', {'poly_order': 1}),
                (False, 'mor', 'morphological', {'half_window': 1}), (False, 'adaptive_minmax', 'optimizers', {'poly_order': 1}),
                (True, 'asls', None, {'lam': 1e2, 'max_iter': 2, 'num_eigens': None}), (True, 'poly', None, {'poly_order': 1}),
                (True, 'mor', None, {'half_window': 1}),
                (True, 'individual_axes', None, {'method': 'poly', 'method_kwargs': {'poly_order': 1}})]
        for two_d, name, module, mkw in real:
            for entry, inp, out in itertools.product(ENTRIES_2D if two_d else ENTRIES_1D, REAL_INPUTS, [None, 'F32', 'I32']):
                if entry.startswith('Func') and out is not None:
                    continue
                unsorted = bool(rng.integers(0, 2)) and not entry.startswith('NoAxes')
                xk, zk = axes_for(entry, two_d, unsorted)
                kw = dict(output_dtype=None if out is None else np.dtype(DTYPES[out]))
                data = make_data(rng, inp, two_d, 0, False)
                warm_data = make_data(rng, 'F64', two_d, 0, False)
                call = {'kind': 'dtype-real', 'two_d': two_d, 'method': name, 'entry': entry, 'input': inp, 'output_dtype': out,
                        'unsorted': unsorted, 'seed': ctx.seed}
                try:
                    func = getattr(importlib.import_module('pybaselines.' + module), name) if module else None
                    really_unsorted, (b, _) = run_entry(
                        entry, two_d,
                        lambda: Baseline2D(xk, zk, **kw) if two_d else Baseline(xk, **kw),
                        lambda obj: getattr(obj, name)(data, **mkw),
                        lambda: func(data, x_data=xk, **mkw) if xk is not None else func(data, **mkw),
                        lambda obj: getattr(obj, name)(warm_data, **mkw))
                    if really_unsorted is None:
                        really_unsorted = unsorted
                except Exception as exc:  # noqa  -- a raise is allowed; only a returned baseline has a dtype
                    ctx.case(('dtype-real-raise', two_d, name, entry, inp, out), nontrivial=False, kind='dtype:real:raised:' + type(exc).__name__)
                    continue
                ctx.case(('dtype-real', two_d, name, entry, inp, out), nontrivial=inp != 'F64' or out is not None,
                         kind=f'dtype:real:{"2d" if two_d else "1d"}:{entry.split()[0]}')
                flags = flags_lit(two_d, name in ('adaptive_minmax', 'individual_axes'), really_unsorted, True, False, False, True, f'({entry})')
                cinp = inp if inp in PY_INPUTS else f'Arr {inp}'
                call['observed'] = str(b.dtype)
                lits.append(f'({flags}, {"None" if out is None else "Some " + out}, {cinp}, F64, F64, false, '
                            f'Some {{| r_received := F64; r_ret := {coq_dt(b.dtype)}; r_params := F64 |}})')
                calls.append(call)
    ctype = 'flags * option dt * input * dt * dt * bool * option result'
    bad_total, first = 0, None
    per = 900
    for s in range(0, len(lits), per):
        sh = lits[s:s + per]
        text = HEADER + f"""
Definition cases : list ({ctype}) := [
{chr(10).join('  ' + l + (';' if i + 1 < len(sh) else '') for i, l in enumerate(sh))}
].
Definition res_eqb (full : bool) (a b : option result) : bool :=
  match a, b with
  | None, None => true
  | Some r, Some s => dt_eqb (r_ret r) (r_ret s) &&
                      (negb full || (dt_eqb (r_received r) (r_received s) && dt_eqb (r_params r) (r_params s)))
  | _, _ => false
  end.
Definition ok (c : {ctype}) : bool :=
  let '(f, out, i, bd, pd, full, obs) := c in res_eqb full (inner f out i bd pd) obs.
Eval vm_compute in (bad ok cases).
"""
        vals = ctx.coq_eval(f'dtype{s // per}', text)
        if vals is None:
            return
        mm = re.match(r'\((\d+)(?:%nat)?, \[(.*)\]\)', vals[0]) if vals else None
        if not mm:
            ctx.broke(OB, f'unparsable Coq output {vals}')
            return
        if int(mm.group(1)):
            bad_total += int(mm.group(1))
            idxs = [int(t.replace('%nat', '')) for t in mm.group(2).split(';') if t.strip()]
            first = first or calls[s + idxs[0]]
    if bad_total:
        ctx.broke(OB, f'{bad_total} of {len(lits)} wrapper calls disagree with the model C01.Dtype.inner (received dtype / returned baseline '
                      f'dtype / params dtype / raised); first: {first}')
    else:
        ctx.discharged.append(OB)
        ctx.note(f'{len(lits)} wrapper calls (probe methods / functions registered with the source decorators over entry path x input kind x '
                 'output_dtype x registration x 1-D/2-D; 8 real methods through class and functional interface) agree with '
                 'C01.Dtype.inner on received / returned / params dtype')


def functional(name):
    """the module-level function of a 1-D method"""
    import importlib
    for mod in ('whittaker', 'polynomial', 'morphological', 'spline', 'smooth', 'classification', 'optimizers', 'misc'):
        module = importlib.import_module('pybaselines.' + mod)
        if hasattr(module, name):
            return getattr(module, name)
    raise LookupError(name)


def dtype_oracle(ctx):
    """Direct oracle on the entry paths where the axes are GENERATED: fresh Baseline() / Baseline2D() objects without
    x_data (first call) and the module-level functions without x_data, every catalogue method, float32 / int64 /
    float16 data: the well-formedness check of harness/c01.py (shape, dtype = the data's dtype, ...)."""
    import importlib
    import random
    from pybaselines import Baseline, Baseline2D
    from . import c01
    from . import methods as M
    rng = np.random.default_rng([ctx.seed, 404])
    prng = random.Random(ctx.seed + 404)
    dts = ['float32', 'int64', 'float16']
    count = 0
    with warnings.catch_warnings():
        warnings.simplefilter('ignore')
        for k, name in enumerate(M.method_names()):
            n = 40
            x = M.make_x(prng, n)
            dt = dts[(k + ctx.seed) % 3]
            y = M.make_y(rng, x, 'integer' if dt == 'int64' else 'noise').astype(dt)
            paths = ['class'] if name == 'interp_pts' else ['class', 'functional']
            if ctx.tier == 'quick' and not ctx.broken:
                paths = [paths[(k + ctx.seed) % len(paths)]]
            for path in paths:
                call = {'kind': 'oracle', 'method': name, 'two_d': False, 'n': n, 'dtype': dt, 'x_data': None, 'first_call': True,
                        'interface': path, 'seed': ctx.seed}
                try:
                    if path == 'class':
                        b, p = M.run_1d(name, x, y, fitter=Baseline())
                    else:
                        func = functional(name)
                        data = np.vstack([y, y * 1.1 + 1]) if name == 'collab_pls' else y
                        b, p = func(data, **M.call_kwargs(name))
                except Exception as exc:  # noqa  -- an ordinary exception is allowed by the property
                    ctx.case(('oracle-nox-raise', name, path), nontrivial=False, kind='oracle:raised:' + type(exc).__name__)
                    continue
                count += 1
                ctx.case(('oracle-nox', name, path, dt), nontrivial=True, kind='oracle:no-x:1d')
                yref = np.vstack([y, y * 1.1 + 1]) if name == 'collab_pls' else y      # exactly what was passed
                c01.check_output(ctx, name, False, np.asarray(yref), None, b, p, call)
        for k, name in enumerate(M.method_names(True)):
            m, n = 11, 12
            x, z, y = M.make_z2d(rng, m, n)
            dt = dts[(k + ctx.seed) % 3]
            y = (np.round(10 * y) if dt == 'int64' else y).astype(dt)
            call = {'kind': 'oracle', 'method': name, 'two_d': True, 'shape': [m, n], 'dtype': dt, 'x_data': None, 'z_data': None,
                    'first_call': True, 'seed': ctx.seed}
            try:
                b, p = M.run_2d(name, x, z, y, fitter=Baseline2D())
            except Exception as exc:  # noqa
                ctx.case(('oracle-nox-raise2', name), nontrivial=False, kind='oracle:raised:' + type(exc).__name__)
                continue
            count += 1
            ctx.case(('oracle-nox2', name, dt), nontrivial=True, kind='oracle:no-x:2d')
            yref = np.array([y, y * 1.1 + 1]) if name == 'collab_pls' else y
            c01.check_output(ctx, name, True, np.asarray(yref), None, b, p, call)
    ctx.note(f'no-x oracle: {count} first calls on fresh Baseline() / Baseline2D() objects without x_data and module-level functions '
             'without x_data (float32 / int64 / float16 data) checked for shape / dtype / per-point keys / finiteness')
    return count
