"""C01 -- (1) correspondence of the 2-D pad -> filter -> strip shape model (coq/C01/Pad2D.v) with
utils.pad_edges2d and Baseline2D.noise_median; (2) boundary oracle: zero / one / per-axis unequal values
of every window-like parameter and every padding mode of every method that has them, on finite noisy
data: a returning call must be well formed (shape, dtype, per-point keys, finite)."""
import inspect
import random
import warnings

import numpy as np

from . import methods as M
from .common import coqbool, zl, zlist

HEADER = """From Coq Require Import ZArith List Bool.
From PB Require Import lib.CaseUtil C01.Pad2D.
Import ListNotations.
Open Scope Z_scope.
"""


# ------------------------------------------------------------------ (1) correspondence
def _as_arg(v):
    """model list -> the Python argument (a one-element list stands for a scalar)"""
    return v[0] if len(v) == 1 else list(v)


def _outcome(fn):
    try:
        with warnings.catch_warnings():
            warnings.simplefilter('ignore')
            out = fn()
        return ('ok', out)
    except NotImplementedError:
        return ('PadNotImplemented', None)
    except ValueError:
        return ('PadValueError', None)
    except Exception as exc:  # noqa
        return ('other', exc)


def pad_correspondence(ctx):
    from pybaselines import Baseline2D, utils
    rng = random.Random(f'C01-pad-{ctx.seed}')
    nrng = np.random.default_rng(ctx.seed + 31)
    modes = ['edge', 'reflect', 'constant', 'symmetric', 'extrapolate', 'extrapolate', 'Extrapolate']
    lits = []
    n_pad = ctx.n(260, 1500)
    n_nm = ctx.n(90, 500)

    def rand_vals(lo, hi):
        u = rng.random()
        if u < 0.25:
            return [rng.randint(lo, hi)]
        if u < 0.7:
            a, b = rng.randint(lo, hi), rng.randint(lo, hi)
            return [a, b]
        if u < 0.93:
            return [rng.randint(lo, hi) for _ in range(4)]
        return [rng.randint(max(lo, 1), hi) for _ in range(3)]          # wrong length

    for k in range(n_pad + n_nm):
        noise_median = k >= n_pad
        Mr, Nc = rng.randint(3, 8), rng.randint(3, 8)
        data = nrng.normal(5.0, 1.0, (Mr, Nc))
        mode = rng.choice(modes)
        extrapolate = mode.lower() == 'extrapolate'
        ew = None
        if extrapolate and rng.random() < 0.5:
            ew = rand_vals(0 if rng.random() < 0.15 else 1, 4)
        if noise_median:
            hr, hc = rng.randint(1, 4), rng.randint(1, 4)
            if rng.random() < 0.25:
                hc = hr
            scalar = hr == hc and rng.random() < 0.5
            pad = [hr, hc]
            pk = {'mode': mode}
            if ew is not None:
                pk['extrapolate_window'] = _as_arg(ew)
            case = {'kind': 'pad2d', 'call': 'noise_median', 'shape': [Mr, Nc], 'half_window': hr if scalar else [hr, hc],
                    'pad_kwargs': pk, 'seed': ctx.seed}
            res = _outcome(lambda: Baseline2D().noise_median(data, half_window=(hr if scalar else (hr, hc)), pad_kwargs=pk)[0])
        else:
            pad = rand_vals(-1 if rng.random() < 0.1 else 0, 4)
            kw = {'extrapolate_window': _as_arg(ew)} if ew is not None else {}
            case = {'kind': 'pad2d', 'call': 'pad_edges2d', 'shape': [Mr, Nc], 'pad_length': _as_arg(pad), 'mode': mode,
                    'extrapolate_window': None if ew is None else _as_arg(ew), 'seed': ctx.seed}
            res = _outcome(lambda: utils.pad_edges2d(data, _as_arg(pad), mode, **kw))
        unequal = len(pad) >= 2 and len(set(pad)) > 1
        ctx.case(('pad2d', noise_median, Mr, Nc, tuple(pad), mode, None if ew is None else tuple(ew)),
                 nontrivial=unequal and res[0] == 'ok', kind=f'pad2d:{"noise_median" if noise_median else "pad_edges2d"}:{mode.lower()}')
        if res[0] == 'other':
            ctx.fail(f'pad2d:{case["call"]}:raises', f'{case["call"]} raised {type(res[1]).__name__}: {res[1]} ({case})', case)
            continue
        if res[0] == 'ok':
            out = np.asarray(res[1])
            exp = f'PadOk {zl(out.shape[0])} {zl(out.shape[1])}' if out.ndim == 2 else 'PadValueError'
            # direct checks on the values: the data sit in the centre of the padded array; finite
            if not noise_median and out.ndim == 2:
                vals = ([pad[0]] * 4 if len(pad) == 1 else [pad[0], pad[0], pad[1], pad[1]] if len(pad) == 2 else pad)
                t, l = vals[0], vals[2]
                centre = out[t:t + Mr, l:l + Nc]
                if centre.shape != data.shape or not np.array_equal(centre, data) or not np.isfinite(out).all():
                    ctx.fail('pad2d:pad_edges2d:centre', f'pad_edges2d: the data are not found unchanged in the centre of the padded array, '
                             f'or the padding is not finite ({case})', case)
            if noise_median and (out.shape != data.shape or not np.isfinite(out).all()):
                ctx.fail('wellformed:noise_median:2d:shape' if out.shape != data.shape else 'wellformed:noise_median:2d:nonfinite:pad',
                         f'Baseline2D.noise_median: baseline shape {out.shape}, data shape {data.shape} (half_window={case["half_window"]}, '
                         f'pad_kwargs={case["pad_kwargs"]})', case)
        else:
            exp = res[0]
        ew_l = 'None' if ew is None else f'(Some {zlist(ew)})'
        lits.append((f'({1 if noise_median else 0}, {Mr}, {Nc}, {zlist(pad)}, {coqbool(extrapolate)}, {ew_l}, {exp})', case))
    ob = 'correspondence:pad_edges2d-and-noise_median-shape-model'
    ctx.obligations.append(ob)
    text = HEADER + f"""
Definition res_eqb (a b : pad_res) : bool :=
  match a, b with
  | PadOk r c, PadOk r' c' => (r =? r') && (c =? c')
  | PadValueError, PadValueError => true
  | PadNotImplemented, PadNotImplemented => true
  | _, _ => false
  end.
Definition cases : list (Z * Z * Z * list Z * bool * option (list Z) * pad_res) := [
{chr(10).join('  ' + l[0] + (';' if i + 1 < len(lits) else '') for i, l in enumerate(lits))}
].
Definition ok (c : Z * Z * Z * list Z * bool * option (list Z) * pad_res) : bool :=
  let '(kind, M, N, pad, ext, ew, exp) := c in
  if kind =? 0 then res_eqb (pad_edges2d_shape M N pad ext ew) exp
  else match pad with
       | [hr; hc] => res_eqb (noise_median2d_shape M N hr hc ext ew) exp
       | _ => false
       end.
Eval vm_compute in (bad ok cases).
"""
    vals = ctx.coq_eval('pad2d', text)
    if vals is None:
        return
    import re
    m = re.match(r'\((\d+)(?:%nat)?, \[(.*)\]\)', vals[0]) if vals else None
    if m and int(m.group(1)) == 0:
        ctx.discharged.append(ob)
        return
    ctx.broke(ob, f'pad_edges2d / noise_median shapes or exceptions differ from the model C01.Pad2D: {vals}')
    for tok in (m.group(2).split(';') if m else [])[:4]:
        if tok.strip():
            case = lits[int(tok.replace('%nat', ''))][1]
            ctx.fail(f'pad2d:{case["call"]}:shape-model',
                     f'{case["call"]} on data of shape {case["shape"]}: returned shape / raised exception differs from the documented '
                     f'padding (rows by the first value, columns by the second) ({case})', case)


# ------------------------------------------------------------------ (2) boundary oracle
PAD_MODES = [{'mode': 'edge'}, {'mode': 'reflect'}, {'mode': 'constant'}, {'mode': 'extrapolate'},
             {'mode': 'extrapolate', 'extrapolate_window': 1}, {'mode': 'extrapolate', 'extrapolate_window': 3}]
PAIRS_2D = [(1, 1), (2, 5), (6, 2), (1, 3), (0, 2), (2, 0)]


def window_like(par):
    return ('half_window' in par or par.startswith('smooth') or par in ('num_smooths', 'min_length', 'sections', 'min_fwhm'))


def boundary_variants(name, two_d):
    """[kwargs] : zero / one / per-axis unequal values of every window-like parameter, and every padding mode
    alone and crossed with the small values of each window-like parameter."""
    from pybaselines import Baseline, Baseline2D
    pars = [p for p in inspect.signature(getattr(Baseline2D if two_d else Baseline, name)).parameters
            if p not in ('self', 'data')]
    wl = [p for p in pars if window_like(p)]
    out = []
    for p in wl:
        vals = [0, 1, 2]
        if two_d and ('half_window' in p):
            vals = vals + PAIRS_2D
        out += [{p: v} for v in vals]
    if 'pad_kwargs' in pars:
        for mode in PAD_MODES:
            out.append({'pad_kwargs': dict(mode)})
            for p in wl:
                if 'half_window' not in p:
                    continue
                for v in ([1, 2] + (PAIRS_2D[:4] if two_d else [])):
                    out.append({p: v, 'pad_kwargs': dict(mode)})
    return out


def boundary_data(seed):
    rng = np.random.default_rng(seed + 41)
    prng = random.Random(seed + 41)
    x = M.make_x(prng, 41)
    y = M.make_y(rng, x)
    x2, z2, y2 = M.make_z2d(rng, 12, 15)
    return (x, y), (x2, z2, y2)


def run_boundary_case(ctx, name, two_d, kwargs, seed, tagged=True):
    """One call on a FRESH fitter; a raise is allowed, a returned value must be well formed."""
    from . import c01
    d1, d2 = boundary_data(seed)
    call = {'kind': 'boundary', 'method': name, 'two_d': two_d, 'kwargs': kwargs, 'seed': seed}
    try:
        with warnings.catch_warnings(record=True) as wlist:
            warnings.simplefilter('always')
            if two_d:
                b, p = M.run_2d(name, *d2, **kwargs)
            else:
                b, p = M.run_1d(name, *d1, **kwargs)
        flagged = any(type(w.message).__name__ == 'ParameterWarning' for w in wlist)
    except Exception as exc:  # noqa -- an ordinary exception is allowed by the property
        return 'raised:' + type(exc).__name__
    yref = d2[2] if two_d else d1[1]
    if name == 'collab_pls':
        yref = np.array([yref, yref * 1.1 + 1])
    tag = ':' + ','.join(f'{k}={v}' for k, v in kwargs.items()) if tagged else ''
    c01.check_output(ctx, name, two_d, yref, None, b, p, call, max_iter=None, noisy=not flagged, tag=tag)
    return 'returned'


def boundary_oracle(ctx):
    n = 0
    for two_d in (False, True):
        for name in M.method_names(two_d):
            if name == 'interp_pts':
                continue
            for kw in boundary_variants(name, two_d):
                res = run_boundary_case(ctx, name, two_d, kw, ctx.seed)
                ctx.case(('boundary', name, two_d, repr(kw)), nontrivial=res == 'returned',
                         kind='oracle:boundary' + ('' if res == 'returned' else ':' + res))
                n += res == 'returned'
    # recorded witness (repaired in the repository): mormol with smooth_half_window = 0 returned an all-NaN baseline
    res = run_boundary_case(ctx, 'mormol', False, {'half_window': 10, 'smooth_half_window': 0}, ctx.seed)
    ctx.case(('boundary-witness', 'mormol'), nontrivial=res == 'returned', kind='oracle:boundary:witness')
    return n


def replay_boundary(case):
    class _R:
        fails = []

        def fail(self, key, what, c):
            self.fails.append((key, what))
    r = _R()
    res = run_boundary_case(r, case['method'], case['two_d'], case['kwargs'], case.get('seed', 0))
    if r.fails:
        print('replay boundary:', r.fails[0][0], '--', r.fails[0][1])
        return 1
    print('replay boundary:', f'property holds on this input ({res})')
    return 0


def replay_pad2d(case):
    from pybaselines import Baseline2D, utils
    rng = np.random.default_rng(0)
    data = rng.normal(5.0, 1.0, tuple(case['shape']))
    if case['call'] == 'noise_median':
        hw = case['half_window']
        out = _outcome(lambda: Baseline2D().noise_median(data, half_window=tuple(hw) if isinstance(hw, list) else hw,
                                                         pad_kwargs=case['pad_kwargs'])[0])
        bad = out[0] == 'ok' and np.asarray(out[1]).shape != data.shape
        print('replay noise_median:', f'baseline shape {np.asarray(out[1]).shape} for data {data.shape}' if out[0] == 'ok' else out[0])
        return 1 if bad else 0
    kw = {} if case.get('extrapolate_window') is None else {'extrapolate_window': case['extrapolate_window']}
    out = _outcome(lambda: utils.pad_edges2d(data, case['pad_length'], case['mode'], **kw))
    pl = case['pad_length']
    vals = [pl] * 4 if not isinstance(pl, list) else ([pl[0], pl[0], pl[1], pl[1]] if len(pl) == 2 else pl)
    if out[0] != 'ok' or len(vals) != 4 or min(vals) < 0:
        print('replay pad_edges2d:', out[0], '(an exception is an allowed outcome)')
        return 0
    got = np.asarray(out[1])
    want = (data.shape[0] + vals[0] + vals[1], data.shape[1] + vals[2] + vals[3])
    if case['mode'].lower() == 'extrapolate':
        want = (data.shape[0] + 2 * vals[0], data.shape[1] + 2 * vals[2])
    centre = got[vals[0]:vals[0] + data.shape[0], vals[2]:vals[2] + data.shape[1]]
    bad = got.shape != want or centre.shape != data.shape or not np.array_equal(centre, data)
    print('replay pad_edges2d:', f'padded shape {got.shape}, documented {want}; data in the centre: {centre.shape == data.shape and np.array_equal(centre, data)}')
    return 1 if bad else 0
