"""C11 -- difference penalty and banded layouts.  See DESIGN.md section 4 / C11."""
import itertools

import numpy as np

from .common import coqbool, zl, zlist, zlist2

PROP = 'C11'

HEADER = """From Coq Require Import ZArith List Bool.
From PB Require Import lib.SumZ lib.PySlice lib.Arr lib.CaseUtil C11.DtD C11.Table gen.GenBands C11.Banded C11.Uses C11.PSplineSys.
Import ListNotations.
Open Scope Z_scope.
"""


HEADER_R = HEADER.replace('C11.PSplineSys.', 'C11.PSplineSys C11.Effects gen.GenBandEffects.')


def _imp():
    from pybaselines import _banded_utils as bu
    return bu


def as_int_rows(a):
    a = np.asarray(a, dtype=float)
    if a.ndim == 1:
        a = a[None, :]
    if not np.all(a == np.round(a)):
        raise ValueError('non-integer band value')
    return [[int(v) for v in row] for row in a]


# ---------------------------------------------------------------- implementation runners
def impl_dpd(N, d, lower, pad):
    bu = _imp()
    try:
        return as_int_rows(bu.diff_penalty_diagonals(N, d, lower, pad))
    except ValueError:
        return 'ValueError'
    except Exception as exc:  # noqa
        return type(exc).__name__


def dense_from_bands(rows, N, d, lower):
    """Independent densifier: LAPACK band storage -> dense symmetric matrix entries it denotes,
    and a flag whether the out-of-matrix corners are all zero."""
    A = np.zeros((N, N))
    corners_zero = True
    for rho, row in enumerate(rows):
        r = rho if lower else rho - d
        for j, v in enumerate(row):
            i = j + r
            if 0 <= i < N:
                A[i, j] = v
                if lower:
                    A[j, i] = v
            elif v != 0:
                corners_zero = False
    return A, corners_zero


def oracle_dpd(N, d, lower, pad, rows):
    """Direct check of the property on the implementation output."""
    D = np.diff(np.eye(N), d, axis=0)
    P = D.T @ D
    nb = d + 1 if lower else 2 * d + 1
    p = max(pad, 0)
    if len(rows) != nb + (p if lower else 2 * p):
        return f'row count {len(rows)}'
    core = rows[:nb] if lower else rows[p:p + nb]
    padrows = rows[nb:] if lower else rows[:p] + rows[p + nb:]
    if any(v != 0 for row in padrows for v in row):
        return 'non-zero padding rows'
    A, cz = dense_from_bands(core, N, d, lower)
    if not cz:
        return 'non-zero corner entries'
    if not np.array_equal(A, P):
        i, j = np.argwhere(A != P)[0]
        return f'entry ({i},{j}) = {A[i, j]} but (D\'D) = {P[i, j]}'
    return None


def cfg_kwargs(c):
    lam, d, al, rev, ap, pad = c
    return dict(lam=lam, diff_order=d, allow_lower=al, reverse_diags=rev, allow_pentapy=ap, padding=pad)


def observe(s):
    return (int(s.diff_order), bool(s.lower), bool(s.reversed), bool(s.using_pentapy),
            int(s.num_bands), int(s.main_diagonal_index),
            as_int_rows(s.original_diagonals), as_int_rows(s.penalty),
            as_int_rows(s.main_diagonal)[0],
            bool(np.shares_memory(s.penalty, s.original_diagonals)))


def is_cfg(op):
    return isinstance(op, (tuple, list)) and len(op) == 6 and not isinstance(op[0], str)


def is_use(op):
    return isinstance(op, (tuple, list)) and isinstance(op[0], str)


def apply_op(s, op):
    """One operation of the state machine on the implementation.  Uses are exactly the ways the
    library writes self.penalty: add_diagonal (in place), add_penalty (re-bind + _update_bands),
    an in-place overwrite of the returned penalty array (what solve(..., overwrite_ab=True) lets
    LAPACK do), and re-binding the attribute (mpspline)."""
    if op == 'rev':
        try:
            s.reverse_penalty()
        except ValueError:
            pass
    elif is_cfg(op):
        s.reset_diagonals(**cfg_kwargs(op))
    elif op[0] == 'diag':
        try:
            s.add_diagonal(np.array(op[1], dtype=float))
        except ValueError:
            pass
    elif op[0] == 'pen':
        try:
            s.add_penalty(np.array(op[1], dtype=float))
        except ValueError:
            pass
    elif op[0] == 'clob':
        v = np.array(op[1], dtype=float)
        if v.shape == s.penalty.shape:      # the model's Clobber: another shape is not an overwrite of this buffer
            s.penalty[...] = v
    elif op[0] == 'set':
        s.penalty = np.array(op[1], dtype=float)
    else:
        raise AssertionError(op)


def impl_history(hp, N, c0, ops, watch=None):
    bu = _imp()
    old = bu._HAS_PENTAPY
    bu._HAS_PENTAPY = hp
    try:
        s = bu.PenalizedSystem(N, **cfg_kwargs(c0))
        for k, op in enumerate(ops):
            if watch is not None and is_use(op):
                before = s.original_diagonals.copy()
            apply_op(s, op)
            if watch is not None:
                if is_use(op) and not np.array_equal(before, s.original_diagonals):
                    watch.append(('use-changed-original_diagonals', k))
                    break
        return observe(s)
    finally:
        bu._HAS_PENTAPY = old


def impl_fresh(hp, N, c):
    return impl_history(hp, N, c, [])


def split_history(c0, ops):
    """(final settings, operations after the last reset)."""
    idx = max((i for i, o in enumerate(ops) if is_cfg(o)), default=-1)
    return (ops[idx] if idx >= 0 else c0), list(ops[idx + 1:])


# ---------------------------------------------------------------- Coq literals
def coq_cfg(c):
    lam, d, al, rev, ap, pad = c
    r = 'None' if rev is None else f'(Some {coqbool(rev)})'
    return (f'{{| c_lam := {zl(lam)}; c_d := {d}%nat; c_allow_lower := {coqbool(al)}; c_rev := {r}; '
            f'c_allow_penta := {coqbool(ap)}; c_pad := {zl(pad)} |}}')


def coq_obs(o):
    d, lo, rv, pt, nb, mi, orig, pen, maind, alias = o
    return (f'({zl(d)}, {coqbool(lo)}, {coqbool(rv)}, {coqbool(pt)}, {zl(nb)}, {zl(mi)}, '
            f'{zlist2(orig)}, {zlist2(pen)}, {zlist(maind)}, {coqbool(alias)})')


def coq_op(o):
    if o == 'rev':
        return 'UReverse'
    if is_cfg(o):
        return f'UReset {coq_cfg(o)}'
    kind, v = o
    if kind == 'diag':
        return f'AddDiag {zlist(v)}'
    return {'pen': 'AddPen', 'clob': 'Clobber', 'set': 'SetPen'}[kind] + ' ' + zlist2(v)


def rand_cfg(rng, N, dmax=6):
    d = rng.choice([0, 1, 1, 2, 2, 2, 3, 3, 4, 5, 6])
    d = min(d, dmax, N - 1)
    return (rng.choice([1, 1, 2, 3, 4, 8]), d, rng.random() < 0.5, rng.choice([None, True, False]),
            rng.random() < 0.5, rng.choice([-3, -1, 0, 0, 1, 2, 3]))


def lay(hp, c):
    """(diff_order, lower, reversed) selected by settings c -- independent of the implementation."""
    penta = c[4] and hp and c[1] == 2
    lower = c[2] and not penta
    rev = c[3] if c[3] is not None else penta
    return (c[1], lower, rev)


def pen_rows(hp, c):
    d, lower, _ = lay(hp, c)
    p = max(c[5], 0)
    return (d + 1 + p) if lower else (2 * d + 1 + 2 * p)


def rand_rows(rng, R, C):
    return [[rng.randint(-9, 9) for _ in range(C)] for _ in range(R)]


def rand_use(rng, N, rows, lower):
    """A use of the system given the current penalty shape (rows, N); returns (op, new rows)."""
    u = rng.random()
    if u < 0.45:
        v = rng.random()
        L = N if v < 0.8 else (1 if v < 0.93 else N + 1)     # N+1: NumPy raises, state unchanged
        return ('diag', [rng.randint(-9, 9) for _ in range(L)]), rows
    if u < 0.7:
        v = rng.random()
        if v < 0.4:
            R = rows
        elif v < 0.85:
            R = max(1, rows + rng.choice([-4, -2, -1, 1, 2, 4]))
        else:
            R = rows
        C = N if v < 0.93 else N + 1                          # column mismatch: ValueError
        new = rows
        if C == N and (lower or (R - rows) % 2 == 0):
            new = max(R, rows)
        return ('pen', rand_rows(rng, R, C)), new
    if u < 0.9:
        return ('clob', rand_rows(rng, rows, N)), rows
    return ('set', rand_rows(rng, rows, N)), rows


def gen_history(rng, Nmax, uses=True):
    N = rng.choice([2, 3, 4, 5, 6, 7, 8, 9, 10, 12, 15]) if rng.random() < 0.8 else rng.randint(2, Nmax)
    hp = rng.random() < 0.6
    c0 = rand_cfg(rng, N)
    ops = []
    same_d = rng.random() < 0.7   # stay on one order most of the time so conversions are used
    cur = c0
    rows = pen_rows(hp, c0)
    p_use = rng.choice([0.0, 0.3, 0.5]) if uses else 0.0
    for _ in range(rng.randint(1, 10)):
        u = rng.random()
        if u < p_use:
            op, rows = rand_use(rng, N, rows, lay(hp, cur)[1])
            ops.append(op)
        elif u < p_use + 0.15:
            ops.append('rev')
        else:
            c = rand_cfg(rng, N)
            if same_d:
                c = (c[0], c0[1]) + c[2:]
            if rng.random() < 0.35:
                # the corner where a missing copy matters: lam exactly 1 and no padding rows
                c = (1,) + c[1:5] + (rng.choice([-2, 0, 0]),)
            ops.append(c)
            cur = c
            rows = pen_rows(hp, c)
    return hp, N, c0, ops


def layout_changes(hp, c0, ops):
    """number of times the (lower, reversed) layout changes along the history (non-triviality)."""
    cur = lay(hp, c0)
    n = 0
    for op in ops:
        if op == 'rev':
            if not cur[1]:
                cur = (cur[0], cur[1], not cur[2])
                n += 1
        elif is_cfg(op):
            new = lay(hp, op)
            if new != cur and new[0] == cur[0]:
                n += 1
            cur = new
    return n


def use_then_reset(ops):
    """number of resets that come after at least one use since the previous reset (non-triviality)."""
    n = 0
    used = False
    for op in ops:
        if is_use(op):
            used = True
        elif is_cfg(op):
            n += used
            used = False
    return n


# ---------------------------------------------------------------- search (direct oracle)
def search(ctx, budget):
    """Looks for a concrete failing input on the implementation."""
    bu = _imp()
    found = 0
    # 1. bands vs dense D'D
    sizes = list(range(1, 31)) + [40, 64, 100, 199, 400]
    if budget > 1:
        sizes = list(range(1, 80)) + [100, 128, 199, 256, 400, 600]
    for d in range(0, 7):
        for N in sizes:
            if N <= d:
                continue
            for lower in (True, False):
                for pad in ((0,) if budget == 1 and N > 12 else (-1, 0, 2)):
                    rows = impl_dpd(N, d, lower, pad)
                    ctx.case(('o-dpd', N, d, lower, pad), nontrivial=d > 0, kind='oracle:dpd')
                    if isinstance(rows, str):
                        ctx.fail(f'dpd:raises:{d}', f'diff_penalty_diagonals({N},{d},{lower},{pad}) raised {rows}',
                                 {'kind': 'dpd', 'N': N, 'd': d, 'lower': lower, 'pad': pad})
                        found += 1
                        continue
                    err = oracle_dpd(N, d, lower, pad, rows)
                    if err:
                        ctx.fail(f'dpd:d={d}:lower={lower}', f'diff_penalty_diagonals({N},{d},lower_only={lower},padding={pad}): {err}',
                                 {'kind': 'dpd', 'N': N, 'd': d, 'lower': lower, 'pad': pad})
                        found += 1
    # 2. public operators
    from pybaselines import utils
    for d in range(0, 7):
        for N in list(range(0, 14)) + [50]:
            try:
                D = utils.difference_matrix(N, d).toarray()
            except Exception as exc:  # noqa
                ctx.fail('difference_matrix:raises', f'utils.difference_matrix({N},{d}) raised {type(exc).__name__}',
                         {'kind': 'diffmat', 'N': N, 'd': d})
                continue
            ref = np.diff(np.eye(N), d, axis=0)
            ctx.case(('o-dm', N, d), nontrivial=d > 0 and N > d, kind='oracle:difference_matrix')
            if D.shape != ref.shape or not np.array_equal(D, ref):
                ctx.fail('difference_matrix:value', f'utils.difference_matrix({N},{d}) != np.diff(np.eye(N), d, axis=0)',
                         {'kind': 'diffmat', 'N': N, 'd': d})
            if N > d:
                P = bu.diff_penalty_matrix(N, d).toarray()
                if not np.array_equal(P, ref.T @ ref):
                    ctx.fail('diff_penalty_matrix:value', f'diff_penalty_matrix({N},{d}) != D\'D',
                             {'kind': 'penmat', 'N': N, 'd': d})
    # 3. histories (reconfigurations AND uses) vs fresh
    nh = 400 * budget
    for k in range(nh):
        hp, N, c0, ops = gen_history(ctx.rng, 40)
        ctx.case(('o-hist', hp, N, c0, repr(ops)), nontrivial=layout_changes(hp, c0, ops) + use_then_reset(ops) > 0,
                 kind='oracle:history' + (':with-uses' if any(is_use(o) for o in ops) else ''))
        err = history_error(hp, N, c0, ops)
        if err:
            key = err_key(err)
            small = shrink_history(hp, N, c0, ops, key)
            err = history_error(*small) or err
            ctx.fail(key, 'PenalizedSystem after a history of reconfigurations and uses: ' + err +
                     f' (has_pentapy={small[0]}, N={small[1]}, c0={small[2]}, ops={small[3]})',
                     {'kind': 'history', 'hp': small[0], 'N': small[1], 'c0': small[2], 'ops': small[3]})
            found += 1
    # 5. every constructor returns a NEW object on every call: no memory shared between two results, and a
    #    caller that modifies its result in place does not change what later calls return
    found += fresh_results(ctx, budget)
    # 4. PSpline (the P-spline subclass re-uses its penalty through reset_penalty_diagonals;
    #    padding = spline_degree - diff_order is <= 0 for diff_order >= spline_degree)
    found += pspline_histories(ctx, 25 * budget)
    # 6. requests that are REJECTED (exception caught by the caller): the object must be unchanged, the next
    #    accepted request must give the directly built system, the penalty must be lam * D'D
    found += rejected_histories(ctx, 250 * budget)
    found += pspline_rejected_histories(ctx, 60 * budget)
    return found


def _buffers(obj):
    """the ndarrays that hold an object's values / structure"""
    if isinstance(obj, np.ndarray):
        return [obj]
    return [getattr(obj, a) for a in ('data', 'indices', 'indptr', 'offsets', 'row', 'col')
            if isinstance(getattr(obj, a, None), np.ndarray)]


def _dense(obj):
    return np.array(obj.toarray() if hasattr(obj, 'toarray') else obj, dtype=float)


def _mutate(obj):
    for b in _buffers(obj)[:1]:
        if b.size:
            b *= 3
            b += 1


def fresh_results(ctx, budget):
    from pybaselines import utils
    bu = _imp()
    found = 0
    cons = []
    sizes = [(5, 1), (7, 2), (9, 3), (9, 4), (6, 5), (12, 6), (4, 2), (3, 0), (8, 0)]
    if budget > 1:
        sizes += [(N, d) for N in (10, 30) for d in range(0, 7)]
    for (N, d) in sizes:
        D = np.diff(np.eye(N), d, axis=0)
        for fmt in (None, 'csr', 'csc', 'dia'):
            cons.append((f'utils.difference_matrix({N}, {d}, {fmt!r})', 'difference_matrix',
                         (lambda N=N, d=d, fmt=fmt: utils.difference_matrix(N, d, fmt)), D))
            cons.append((f'_banded_utils.difference_matrix({N}, {d}, {fmt!r})', 'difference_matrix',
                         (lambda N=N, d=d, fmt=fmt: bu.difference_matrix(N, d, fmt)), D))
        for fmt in ('csr', 'csc'):
            cons.append((f'diff_penalty_matrix({N}, {d}, {fmt!r})', 'diff_penalty_matrix',
                         (lambda N=N, d=d, fmt=fmt: bu.diff_penalty_matrix(N, d, fmt)), D.T @ D))
        for lower in (True, False):
            for pad in (0, 2):
                cons.append((f'diff_penalty_diagonals({N}, {d}, {lower}, {pad})', 'diff_penalty_diagonals',
                             (lambda N=N, d=d, lower=lower, pad=pad: bu.diff_penalty_diagonals(N, d, lower, pad)), None))
            for attr in ('penalty', 'original_diagonals'):
                for lam in (1, 2):
                    cons.append((f'PenalizedSystem({N}, lam={lam}, diff_order={d}, allow_lower={lower}).{attr}', f'PenalizedSystem.{attr}',
                                 (lambda N=N, d=d, lower=lower, attr=attr, lam=lam:
                                  getattr(bu.PenalizedSystem(N, lam=lam, diff_order=d, allow_lower=lower, allow_pentapy=False), attr)),
                                 None))
    for label, kind, f, ref in cons:
        case = {'kind': 'fresh', 'call': label}
        ctx.case(('o-fresh', label), nontrivial=True, kind=f'oracle:fresh:{kind}')
        try:
            r1, r2 = f(), f()
            snap = _dense(r1)
            if ref is not None and (snap.shape != ref.shape or not np.array_equal(snap, ref)):
                ctx.fail(f'fresh:{kind}:value', f'{label} is not the exact matrix', case)
                found += 1
                continue
            shared = r1 is r2 or any(np.shares_memory(a, b) for a in _buffers(r1) for b in _buffers(r2))
            _mutate(r1)
            r3 = f()
            stale = not np.array_equal(_dense(r3), snap) or not np.array_equal(_dense(r2), snap)
        except Exception as exc:  # noqa
            ctx.fail(f'fresh:{kind}:raises', f'{label} raised {type(exc).__name__}: {exc}', case)
            found += 1
            continue
        if stale:
            ctx.fail(f'fresh:{kind}:stale-after-mutation',
                     f'{label}: after the caller modified the first result in place, another call / an earlier second result no longer '
                     'equals a fresh computation', case)
            found += 1
        elif shared:
            ctx.fail(f'fresh:{kind}:shared-object', f'{label}: two calls return objects that share memory', case)
            found += 1
    # the sparse route of the penalty (d >= 4 or N < 2d+1) after a caller modified a difference matrix
    for (N, d) in [(9, 4), (12, 5), (4, 2), (6, 3)]:
        for fmt in ('csc', 'csr', None):
            label = f'difference_matrix({N}, {d}, {fmt!r}).data *= 3 ; diff_penalty_diagonals({N}, {d})'
            ctx.case(('o-fresh-route', N, d, fmt), nontrivial=True, kind='oracle:fresh:sparse-route')
            try:
                _mutate(bu.difference_matrix(N, d, fmt))
                err = None
                for lower in (True, False):
                    rows = impl_dpd(N, d, lower, 0)
                    err = err or (rows if isinstance(rows, str) else oracle_dpd(N, d, lower, 0, rows))
                P = bu.diff_penalty_matrix(N, d).toarray()
                Dm = np.diff(np.eye(N), d, axis=0)
                if not np.array_equal(P, Dm.T @ Dm):
                    err = err or 'diff_penalty_matrix is not D\'D'
            except Exception as exc:  # noqa
                err = f'raised {type(exc).__name__}: {exc}'
            if err:
                ctx.fail('fresh:sparse-route:stale-after-mutation',
                         f'{label}: the penalty built afterwards is wrong ({err})', {'kind': 'fresh', 'call': label})
                found += 1
    return found


def history_error(hp, N, c0, ops):
    """None when the property holds on this history, else a description.  The reference is the system
    built directly with the final settings, followed by the operations after the last reset."""
    last, tail = split_history(c0, ops)
    watch = []
    try:
        got = impl_history(hp, N, c0, ops, watch=watch)
        want = impl_history(hp, N, last, tail)
    except Exception as exc:  # noqa
        return f'raised {type(exc).__name__}: {exc}'
    if watch:
        return f'a use changed original_diagonals (operation #{watch[0][1]}: {ops[watch[0][1]][0]})'
    if got != want:
        names = ('diff_order', 'lower', 'reversed', 'using_pentapy', 'num_bands', 'main_diagonal_index',
                 'original_diagonals', 'penalty', 'main_diagonal', 'shares_memory')
        diff = [n for n, x, y in zip(names, got, want) if x != y]
        return 'differs from the system built directly with the final settings in ' + ', '.join(diff)
    return None


def err_key(err):
    if err is None:
        return None
    if err.startswith('differs'):
        return 'history:differs-from-fresh'
    if err.startswith('raised'):
        return 'history:raises'
    return 'history:use-corrupts-stored-diagonals'


def history_bad(hp, N, c0, ops):
    return history_error(hp, N, c0, ops) is not None


def shrink_history(hp, N, c0, ops, key=None):
    """Drops operations while the SAME kind of failure remains (dropping an operation can make a later
    use ill-shaped, which would be a different, artificial failure)."""
    ops = list(ops)
    if key is None:
        key = err_key(history_error(hp, N, c0, ops))
    changed = True
    while changed:
        changed = False
        for i in range(len(ops)):
            trial = ops[:i] + ops[i + 1:]
            if trial and err_key(history_error(hp, N, c0, trial)) == key:
                ops = trial
                changed = True
                break
    return hp, N, c0, ops


def pspline_observe(ps):
    return (int(ps.diff_order), bool(ps.lower), bool(ps.reversed), int(ps.num_bands), int(ps.main_diagonal_index),
            as_int_rows(ps.original_diagonals), as_int_rows(ps.penalty), as_int_rows(ps.main_diagonal)[0],
            bool(np.shares_memory(ps.penalty, ps.original_diagonals)))


def pspline_run(n_x, num_knots, degree, c0, ops, seed):
    """ops: ('reset', lam, d, allow_lower, reverse) | ('diag', w) | ('pen', rows) | ('solve',)."""
    from pybaselines import _spline_utils as su
    r = np.random.default_rng(seed)
    x = np.linspace(0.0, 1.0, n_x)
    y = r.normal(size=n_x)
    w = r.uniform(0.1, 1.0, n_x)
    basis = su.SplineBasis(x, num_knots, degree)
    ps = su.PSpline(basis, lam=c0[0], diff_order=c0[1], allow_lower=c0[2], reverse_diags=c0[3])
    for op in ops:
        if op[0] == 'reset':
            ps.reset_penalty_diagonals(lam=op[1], diff_order=op[2], allow_lower=op[3], reverse_diags=op[4])
        elif op[0] == 'diag':
            ps.add_diagonal(np.array(op[1], dtype=float))
        elif op[0] == 'pen':
            try:
                ps.add_penalty(np.array(op[1], dtype=float))
            except ValueError:
                pass
        else:
            # penalty used as the left-hand side of an overwriting solve (LAPACK stores the factorisation
            # in it); after that the array is scratch until the next reset, so later solves may fail
            try:
                ps.solve_pspline(y, w)
                ps.solve(ps.add_diagonal(1.0), np.ones(ps.basis._num_bases), overwrite_ab=True)
            except np.linalg.LinAlgError:
                pass
    return pspline_observe(ps)


def pspline_histories(ctx, n):
    rng = ctx.rng
    found = 0
    for _ in range(n):
        degree = rng.choice([1, 2, 3])
        num_knots = rng.choice([4, 6, 9])
        nb = num_knots + degree - 1
        n_x = rng.choice([20, 33])

        def cfg():
            return (rng.choice([1, 1, 2, 5]), rng.randint(1, min(4, nb - 1)), rng.random() < 0.5, rng.random() < 0.3)
        c0 = cfg()
        ops = []
        for _k in range(rng.randint(2, 6)):
            u = rng.random()
            if u < 0.3:
                ops.append(('diag', [rng.randint(1, 9) for _ in range(nb)]))
            elif u < 0.45:
                ops.append(('pen', [[rng.randint(0, 3) for _ in range(nb)]]))
            elif u < 0.6:
                ops.append(('solve',))
            else:
                ops.append(('reset',) + cfg())
        ops.append(('reset',) + cfg())
        last = ops[-1][1:]
        seed = rng.randint(0, 10 ** 6)
        case = {'kind': 'pspline-history', 'n_x': n_x, 'num_knots': num_knots, 'degree': degree, 'c0': c0,
                'ops': ops, 'seed': seed}
        ctx.case(('o-pspline', n_x, num_knots, degree, c0, repr(ops)), nontrivial=any(o[0] != 'reset' for o in ops),
                 kind='oracle:pspline-history')
        try:
            got = pspline_run(n_x, num_knots, degree, c0, ops, seed)
            want = pspline_run(n_x, num_knots, degree, last, [], seed)
        except Exception as exc:  # noqa
            ctx.fail('pspline-history:raises', f'PSpline history raised {type(exc).__name__}: {exc}', case)
            found += 1
            continue
        if got != want:
            ctx.fail('pspline-history:differs-from-fresh',
                     'PSpline after add_diagonal/add_penalty/solve and reset_penalty_diagonals differs from the PSpline '
                     f'built directly with the final settings (degree={degree}, num_knots={num_knots}, c0={c0}, ops={ops})', case)
            found += 1
    return found


# ---------------------------------------------------------------- requests that may be REJECTED
# A request is ('req', lam, diff_order, allow_lower, reverse_diags, allow_pentapy, padding) with lam an int or a
# list of ints (non-scalar lam).  It is VALID iff lam is a scalar > 0 and diff_order >= 0 (independent of the
# implementation); invalid requests must raise ValueError and leave the object as it was.
def is_req(op):
    return isinstance(op, (tuple, list)) and len(op) == 7 and op[0] == 'req'


def req_valid(r):
    return not isinstance(r[1], (list, tuple)) and r[1] > 0 and r[2] >= 0


def req_kwargs(r):
    return dict(lam=r[1], diff_order=r[2], allow_lower=r[3], reverse_diags=r[4], allow_pentapy=r[5], padding=r[6])


def snapshot(s):
    """EVERY attribute of the object: identity and a copy of the value (arrays by content)."""
    snap = {}
    for k, v in vars(s).items():
        if isinstance(v, np.ndarray):
            snap[k] = (id(v), v.shape, v.dtype.str, v.copy())
        elif hasattr(v, 'toarray') and hasattr(v, 'shape'):      # scipy.sparse: by content
            snap[k] = (id(v), v.shape, str(v.dtype), np.asarray(v.toarray()))
        else:
            snap[k] = (id(v) if not isinstance(v, (int, float, bool, str, type(None), np.generic)) else None, None, None, v)
    return snap


def snapshot_diff(a, b):
    """names of the attributes that differ between two snapshots (value, shape, or re-bound array)"""
    out = []
    for k in sorted(set(a) | set(b)):
        if k not in a or k not in b:
            out.append(k)
            continue
        x, y = a[k], b[k]
        if isinstance(x[3], np.ndarray) or isinstance(y[3], np.ndarray):
            if not (isinstance(x[3], np.ndarray) and isinstance(y[3], np.ndarray)) or x[1] != y[1] or x[2] != y[2] \
                    or not np.array_equal(x[3], y[3], equal_nan=True):
                out.append(k)
            elif x[0] != y[0]:
                out.append(k + '(re-bound)')
        else:
            try:
                same = (x[3] is y[3]) or bool(x[3] == y[3]) or (x[3] != x[3] and y[3] != y[3])
            except Exception:  # noqa
                same = x[0] == y[0]
            if not same:
                out.append(k)
    return out


def apply_req(s, r):
    """reset_diagonals(**r) with the exception caught; returns 'ok' or the exception's type name"""
    try:
        s.reset_diagonals(**req_kwargs(r))
        return 'ok'
    except Exception as exc:  # noqa
        return type(exc).__name__


def apply_rop(s, op, events=None, k=None):
    """one operation of a history with requests; records (kind, position, detail) in events"""
    if is_req(op):
        before = snapshot(s) if events is not None else None
        res = apply_req(s, op)
        if events is not None:
            if req_valid(op) and res != 'ok':
                events.append(('valid-request-raises', k, res))
            elif not req_valid(op):
                if res == 'ok':
                    events.append(('invalid-request-accepted', k, ''))
                else:
                    if res != 'ValueError':
                        events.append(('wrong-exception', k, res))
                    d = snapshot_diff(before, snapshot(s))
                    if d:
                        events.append(('rejected-request-changes-state', k, ', '.join(d)))
    elif events is not None and (op == 'rev' or op[0] in ('pen', 'diag')):
        # a use that raises (ill-shaped argument, reverse_penalty on lower bands) must leave the object as it was
        before = snapshot(s)
        try:
            if op == 'rev':
                s.reverse_penalty()
            elif op[0] == 'pen':
                s.add_penalty(np.array(op[1], dtype=float))
            else:
                s.add_diagonal(np.array(op[1], dtype=float))
        except ValueError:
            d = snapshot_diff(before, snapshot(s))
            if d:
                events.append(('raising-use-changes-state', k, ', '.join(d)))
    else:
        apply_op(s, op)


EVENT_TEXT = {
    'rejected-request-changes-state': 'rejected request #{k} {op} left the object changed in: {detail}',
    'invalid-request-accepted': 'invalid request #{k} {op} was accepted',
    'wrong-exception': 'invalid request #{k} {op} raised {detail} instead of ValueError',
    'valid-request-raises': 'valid request #{k} {op} raised {detail}',
    'raising-use-changes-state': 'operation #{k} {op} raised ValueError but left the object changed in: {detail}',
}


def event_key(kind):
    return ('use:' if kind == 'raising-use-changes-state' else 'reset:') + kind


def impl_rhistory(hp, N, r0, ops, events=None):
    """PenalizedSystem(N, **r0) followed by ops (requests with the exception caught, reversals, uses, accepted
    resets); 'rejected' when the constructor raises"""
    bu = _imp()
    old = bu._HAS_PENTAPY
    bu._HAS_PENTAPY = hp
    try:
        try:
            s = bu.PenalizedSystem(N, **req_kwargs(r0))
        except ValueError:
            return 'rejected'
        for k, op in enumerate(ops):
            apply_rop(s, op, events, k)
        return observe(s)
    finally:
        bu._HAS_PENTAPY = old


def final_request(r0, ops):
    """(last VALID request, operations after it)"""
    idx = max((i for i, o in enumerate(ops) if (is_req(o) and req_valid(o)) or is_cfg(o)), default=-1)
    if idx < 0:
        return r0, [o for o in ops if not is_req(o)]
    last = ops[idx]
    if is_cfg(last):
        last = ('req',) + tuple(last)
    return last, [o for o in ops[idx + 1:] if not is_req(o)]


def dense_error(hp, N, r, obs):
    """penalty of the observed system (right after the accepted request r) versus lam * D'D, densified through the
    layout the object's own flags claim"""
    d, lower, rev = obs[0], obs[1], obs[2]
    pen = obs[7]
    p = max(r[6], 0)
    nbr = d + 1 if lower else 2 * d + 1
    if len(pen) != nbr + (p if lower else 2 * p):
        return f'penalty has {len(pen)} rows'
    core = pen[:nbr] if lower else pen[p:p + nbr]
    padrows = pen[nbr:] if lower else pen[:p] + pen[p + nbr:]
    if any(v != 0 for row in padrows for v in row):
        return 'non-zero padding rows'
    if rev:
        core = core[::-1]
    A, cz = dense_from_bands(core, N, d, lower)
    D = np.diff(np.eye(N), d, axis=0)
    if not cz or not np.array_equal(A, r[1] * (D.T @ D)):
        return 'penalty is not lam * D.T @ D in the layout the flags claim'
    return None


def rhistory_error(hp, N, r0, ops):
    """(key, description) of the first failure of the property on this history, or None"""
    events = []
    try:
        got = impl_rhistory(hp, N, r0, ops, events)
    except Exception as exc:  # noqa
        return 'history:raises', f'raised {type(exc).__name__}: {exc}'
    if events:
        kind, k, detail = events[0]
        return event_key(kind), EVENT_TEXT[kind].format(k=k, op=str(ops[k])[:200], detail=detail)
    if got == 'rejected':
        return ('history:raises', 'valid constructor request raised ValueError') if req_valid(r0) else None
    if not req_valid(r0):
        return 'reset:invalid-request-accepted', f'the constructor accepted the invalid request {r0}'
    last, tail = final_request(r0, ops)
    try:
        want = impl_rhistory(hp, N, last, tail)
    except Exception as exc:  # noqa
        return 'history:raises', f'the directly built system raised {type(exc).__name__}: {exc}'
    if got != want:
        names = ('diff_order', 'lower', 'reversed', 'using_pentapy', 'num_bands', 'main_diagonal_index',
                 'original_diagonals', 'penalty', 'main_diagonal', 'shares_memory')
        diff = [n for n, x, y in zip(names, got, want) if x != y]
        return 'history:differs-from-fresh', ('differs from the system built directly with the last accepted request '
                                              f'{last} in ' + ', '.join(diff))
    if not tail:
        err = dense_error(hp, N, last, got)
        if err:
            return 'history:penalty-not-lam-DtD', err
    return None


def shrink_rhistory(hp, N, r0, ops, key):
    ops = list(ops)
    changed = True
    while changed:
        changed = False
        for i in range(len(ops)):
            trial = ops[:i] + ops[i + 1:]
            e = rhistory_error(hp, N, r0, trial)
            if e and e[0] == key:
                ops = trial
                changed = True
                break
    return hp, N, r0, ops


INVALID_KINDS = ('lam0', 'lamneg', 'lamlist', 'dneg', 'dneg+lam0', 'lamlist+dneg')


def rand_req(rng, N, cur, hp, valid, kind=None):
    """a request; when rejected requests are wanted they ask for a DIFFERENT diff_order / band layout / row order
    than the current settings `cur` most of the time (that is where a half-done reset shows)"""
    lam, d, al, rev, ap, pad = rand_cfg(rng, N)
    u = rng.random()
    if u < 0.6:
        d = cur[1]                                   # same order: the conversion branch
        cl = lay(hp, cur)
        flip = rng.choice(['lower', 'rev', 'penta', 'both', 'any'])
        if flip in ('lower', 'both'):
            al, ap = (not cl[1]), False
        if flip in ('rev', 'both'):
            rev = not cl[2]
        if flip == 'penta' and d == 2:
            ap, rev = (not cur[4]), None
    elif u < 0.85:
        d = rng.choice([x for x in range(0, min(7, N)) if x != cur[1]] or [cur[1]])
    if not valid:
        kind = kind or rng.choice(INVALID_KINDS)
        if 'lam0' in kind:
            lam = 0
        if 'lamneg' in kind:
            lam = -rng.choice([1, 2, 5])
        if 'lamlist' in kind:
            lam = [rng.choice([1, 2, 3])] * rng.choice([2, 3])
        if 'dneg' in kind:
            d = -rng.choice([1, 1, 2, 3])
    return ('req', lam, d, al, rev, ap, pad)


def gen_rhistory(rng, Nmax, uses=True):
    N = rng.choice([2, 3, 4, 5, 6, 7, 8, 9, 10, 12, 15]) if rng.random() < 0.8 else rng.randint(2, Nmax)
    hp = rng.random() < 0.6
    c0 = rand_cfg(rng, N)
    r0 = ('req',) + c0
    if rng.random() < 0.04:                          # a rejected constructor
        r0 = rand_req(rng, N, c0, hp, False)
    cur = c0
    rows = pen_rows(hp, c0)
    ops = []
    p_rej = rng.choice([0.3, 0.5, 0.7])
    p_use = rng.choice([0.0, 0.15, 0.3]) if uses else 0.0
    for _ in range(rng.randint(1, 9)):
        u = rng.random()
        if u < p_use:
            op, rows = rand_use(rng, N, rows, lay(hp, cur)[1])
            ops.append(op)
        elif u < p_use + 0.08:
            ops.append('rev')
        else:
            valid = rng.random() >= p_rej
            r = rand_req(rng, N, cur, hp, valid)
            ops.append(r)
            if valid:
                cur = tuple(r[1:])
                rows = pen_rows(hp, cur)
    if rng.random() < 0.6:                           # close with an accepted request
        r = rand_req(rng, N, cur, hp, True)
        ops.append(r)
    return hp, N, r0, ops


def n_rejected(r0, ops):
    return sum(1 for o in ops if is_req(o) and not req_valid(o))


def rejected_layout_changes(hp, r0, ops):
    """number of rejected requests that asked for another (diff_order, lower, reversed) than the current one"""
    if not req_valid(r0):
        return 0
    cur = lay(hp, r0[1:])
    n = 0
    for o in ops:
        if is_req(o):
            if not req_valid(o):
                if not isinstance(o[2], int) or o[2] < 0 or lay(hp, o[1:]) != cur:
                    n += 1
            else:
                cur = lay(hp, o[1:])
        elif is_cfg(o):
            cur = lay(hp, o)
        elif o == 'rev' and not cur[1]:
            cur = (cur[0], cur[1], not cur[2])
    return n


def coq_req(r):
    _, lam, d, al, rev, ap, pad = r
    if isinstance(lam, (list, tuple)):
        lam_v, lam_len = (lam[0] if lam else 1), len(lam)
    else:
        lam_v, lam_len = lam, 1
    rv = 'None' if rev is None else f'(Some {coqbool(rev)})'
    return (f'{{| q_lam := {zl(lam_v)}; q_lam_len := {lam_len}; q_d := {zl(d)}; q_allow_lower := {coqbool(al)}; '
            f'q_rev := {rv}; q_allow_penta := {coqbool(ap)}; q_pad := {zl(pad)} |}}')


def coq_rop(o):
    if is_req(o):
        return f'RReq {coq_req(o)}'
    return f'ROp ({coq_op(o)})'


# the histories reported to the lead at /repo 0f85b1f (lam validated after the layout attributes were overwritten)
WITNESS_RHISTORIES = [
    (False, 8, ('req', 1, 2, True, None, False, 0), [('req', 0, 2, False, None, False, 0)]),
    (False, 8, ('req', 1, 2, True, None, False, 0), [('req', -1, 3, True, None, False, 0)]),
    (True, 9, ('req', 2, 2, True, None, True, 0), [('req', 0, 2, True, None, False, 0), ('req', 3, 2, True, None, False, 0)]),
    (False, 12, ('req', 1, 1, True, None, False, 0), [('req', 0, 1, False, None, False, 0), ('req', 5, 1, False, None, False, 0)]),
    (False, 8, ('req', 1, 2, False, None, False, 1), [('req', [1, 1], 2, False, True, False, 0), ('req', 2, 2, False, None, False, 0)]),
]


def rejected_histories(ctx, n):
    """oracle: histories with rejected requests on real PenalizedSystem objects"""
    found = 0
    cases = list(WITNESS_RHISTORIES) + [gen_rhistory(ctx.rng, 40) for _ in range(n)]
    # every kind of invalid request at every position of a short history, against every current layout
    for kind in INVALID_KINDS:
        for al0 in (True, False):
            for pos in range(3):
                rng = ctx.rng
                N = rng.choice([5, 7, 8, 11])
                c0 = (rng.choice([1, 2, 3]), rng.choice([1, 2, 3]), al0, rng.choice([None, True, False]), rng.random() < 0.5, rng.choice([0, 1]))
                hp = rng.random() < 0.5
                ops, cur = [], c0
                for k in range(3):
                    r = rand_req(rng, N, cur, hp, k != pos, kind)
                    ops.append(r)
                    if k != pos:
                        cur = tuple(r[1:])
                ops.append(rand_req(rng, N, cur, hp, True))
                cases.append((hp, N, ('req',) + c0, ops))
    for (hp, N, r0, ops) in cases:
        ctx.case(('o-rhist', hp, N, r0, repr(ops)), nontrivial=rejected_layout_changes(hp, r0, ops) > 0,
                 kind='oracle:history-with-rejected-requests')
        e = rhistory_error(hp, N, r0, ops)
        if e:
            key = e[0]
            small = shrink_rhistory(hp, N, r0, ops, key)
            e2 = rhistory_error(*small)
            what = (e2 or e)[1]
            ctx.fail(key, 'PenalizedSystem history with rejected requests: ' + what +
                     f' (has_pentapy={small[0]}, N={small[1]}, constructor={small[2]}, ops={small[3]})',
                     {'kind': 'rhistory', 'hp': small[0], 'N': small[1], 'r0': small[2], 'ops': small[3]})
            found += 1
    return found


# ---- PSpline with rejected reset_penalty_diagonals requests
# request: ('preq', lam, diff_order, allow_lower, reverse_diags)
def is_preq(o):
    return isinstance(o, (tuple, list)) and len(o) == 5 and o[0] == 'preq'


def preq_valid(p):
    return not isinstance(p[1], (list, tuple)) and p[1] > 0 and p[2] >= 0


def impl_pspline_rhistory(hp, n_x, num_knots, degree, p0, ops, seed, events=None):
    """PSpline(basis, *p0) followed by ops ('preq' requests with the exception caught, plus everything of
    impl_pspline_history)"""
    from pybaselines import _spline_utils as su
    bu = _imp()
    old = bu._HAS_PENTAPY
    bu._HAS_PENTAPY = hp
    try:
        r = np.random.default_rng(seed)
        x = np.linspace(0.0, 1.0, n_x)
        y = r.normal(size=n_x)
        w = r.uniform(0.1, 1.0, n_x)
        basis = su.SplineBasis(x, num_knots, degree)
        try:
            ps = su.PSpline(basis, lam=p0[0], diff_order=p0[1], allow_lower=p0[2], reverse_diags=p0[3])
        except ValueError:
            return 'ValueError'
        for k, op in enumerate(ops):
            if is_preq(op):
                before = snapshot(ps) if events is not None else None
                try:
                    ps.reset_penalty_diagonals(lam=op[1], diff_order=op[2], allow_lower=op[3], reverse_diags=op[4])
                    res = 'ok'
                except Exception as exc:  # noqa
                    res = type(exc).__name__
                if events is not None:
                    if preq_valid(op) and res != 'ok':
                        events.append(('valid-request-raises', k, res))
                    elif not preq_valid(op):
                        if res == 'ok':
                            events.append(('invalid-request-accepted', k, ''))
                        else:
                            if res != 'ValueError':
                                events.append(('wrong-exception', k, res))
                            d = snapshot_diff(before, snapshot(ps))
                            if d:
                                events.append(('rejected-request-changes-state', k, ', '.join(d)))
            elif op != 'rev' and op[0] == 'solve':
                try:
                    with np.errstate(all='ignore'):
                        ps.solve_pspline(y, w)
                except (np.linalg.LinAlgError, ValueError):
                    pass
            else:
                apply_rop(ps, op, events, k)
        return observe(ps)
    finally:
        bu._HAS_PENTAPY = old


def gen_pspline_rhistory(rng):
    degree = rng.choice([1, 2, 3, 3, 4])
    num_knots = rng.choice([3, 4, 5, 6, 8])
    nb = num_knots + degree - 1
    n_x = rng.choice([15, 24])
    hp = rng.random() < 0.5

    def pcfg(cur=None, valid=True):
        d = rng.randint(1, min(5, nb - 1))
        al, rev = rng.random() < 0.5, rng.choice([None, False, False, True])
        if cur is not None and rng.random() < 0.6:
            d = cur[1]
            flip = rng.choice(['lower', 'rev', 'both'])
            if flip in ('lower', 'both'):
                al = not cur[2]
            if flip in ('rev', 'both'):
                rev = not bool(cur[3])
        lam = rng.choice([1, 1, 2, 5])
        if not valid:
            kind = rng.choice(INVALID_KINDS)
            if 'lam0' in kind:
                lam = 0
            if 'lamneg' in kind:
                lam = -rng.choice([1, 3])
            if 'lamlist' in kind:
                lam = [rng.choice([1, 2])] * 2
            if 'dneg' in kind:
                d = -rng.choice([1, 2])
        return (lam, d, al, rev)
    p0 = pcfg()
    cur = p0
    ops = []

    def rows_of(p):
        pad = max(degree - p[1], 0)
        return (p[1] + 1 + pad) if p[2] else (2 * p[1] + 1 + 2 * pad)
    rows = rows_of(p0)
    p_rej = rng.choice([0.4, 0.6])
    for _ in range(rng.randint(1, 7)):
        u = rng.random()
        if u < 0.65:
            valid = rng.random() >= p_rej
            p = pcfg(cur, valid)
            ops.append(('preq',) + p)
            if valid:
                cur = p
                rows = rows_of(p)
        elif u < 0.75:
            ops.append(('solve',))
        elif u < 0.8:
            ops.append('rev')
        else:
            op, rows = rand_use(rng, nb, rows, cur[2])
            ops.append(op)
    if rng.random() < 0.6:
        ops.append(('preq',) + pcfg(cur, True))
    return hp, n_x, num_knots, degree, p0, ops, rng.randint(0, 10 ** 6)


def pspline_rhistory_error(hp, n_x, num_knots, degree, p0, ops, seed):
    events = []
    try:
        got = impl_pspline_rhistory(hp, n_x, num_knots, degree, p0, ops, seed, events)
    except Exception as exc:  # noqa
        return 'pspline-history:raises', f'raised {type(exc).__name__}: {exc}'
    if events:
        kind, k, detail = events[0]
        return event_key(kind), 'reset_penalty_diagonals / PSpline: ' + EVENT_TEXT[kind].format(k=k, op=str(ops[k])[:200], detail=detail)
    idx = max((i for i, o in enumerate(ops) if is_preq(o) and preq_valid(o)), default=-1)
    last = tuple(ops[idx][1:]) if idx >= 0 else p0
    tail = [o for o in ops[idx + 1:] if not is_preq(o)]
    if last[1] < 1:
        return None          # reset_penalty_diagonals accepts diff_order 0, the constructor does not: nothing to compare
    want = impl_pspline_rhistory(hp, n_x, num_knots, degree, last, tail, seed)
    if got != want:
        return 'pspline-history:differs-from-fresh', ('PSpline differs from the PSpline built directly with the last '
                                                      f'accepted request {last}')
    return None


WITNESS_PSPLINE_RHISTORIES = [
    (False, 20, 6, 3, (1, 2, True, False), [('preq', 0, 3, False, True)], 0),
    (False, 20, 6, 3, (1, 2, True, False), [('preq', 0, 2, False, False), ('preq', 7, 2, False, False)], 0),
    (False, 60, 8, 3, (1, 1, True, False), [('preq', 0, 1, True, True), ('preq', 7, 1, True, False)], 0),
]


def pspline_rejected_histories(ctx, n):
    found = 0
    cases = list(WITNESS_PSPLINE_RHISTORIES) + [gen_pspline_rhistory(ctx.rng) for _ in range(n)]
    for c in cases:
        hp, n_x, num_knots, degree, p0, ops, seed = c
        ctx.case(('o-pspline-rhist',) + tuple(c[:5]) + (repr(ops),), nontrivial=any(is_preq(o) and not preq_valid(o) for o in ops),
                 kind='oracle:pspline-history-with-rejected-requests')
        e = pspline_rhistory_error(*c)
        if e:
            ops_s = list(ops)
            changed = True
            while changed:
                changed = False
                for i in range(len(ops_s)):
                    trial = ops_s[:i] + ops_s[i + 1:]
                    e2 = pspline_rhistory_error(hp, n_x, num_knots, degree, p0, trial, seed)
                    if e2 and e2[0] == e[0]:
                        ops_s, e, changed = trial, e2, True
                        break
            ctx.fail(e[0], 'PSpline history with rejected requests: ' + e[1] +
                     f' (degree={degree}, num_knots={num_knots}, constructor={p0}, ops={ops_s})',
                     {'kind': 'pspline-rhistory', 'hp': hp, 'n_x': n_x, 'num_knots': num_knots, 'degree': degree,
                      'p0': p0, 'ops': ops_s, 'seed': seed})
            found += 1
    return found


def coq_preq(p):
    lam, d, al, rev = p
    if isinstance(lam, (list, tuple)):
        lam_v, lam_len = (lam[0] if lam else 1), len(lam)
    else:
        lam_v, lam_len = lam, 1
    rv = 'None' if rev is None else f'(Some {coqbool(rev)})'
    return (f'{{| pq_lam := {zl(lam_v)}; pq_lam_len := {lam_len}; pq_d := {zl(d)}; pq_allow_lower := {coqbool(al)}; '
            f'pq_rev := {rv} |}}')


def coq_prop(o):
    if is_preq(o):
        return f'PRReq {coq_preq(o[1:])}'
    if o != 'rev' and o[0] == 'solve':
        return 'PROp PSolve'
    return f'PROp (POp ({coq_op(o)}))'


OBS_DEFS = """Definition obs_t : Type := Z * bool * bool * bool * Z * Z * list (list Z) * list (list Z) * list Z * bool.
Definition obs_eqb (a b : obs_t) : bool :=
  let '(d1, l1, r1, p1, n1, m1, o1, q1, g1, a1) := a in
  let '(d2, l2, r2, p2, n2, m2, o2, q2, g2, a2) := b in
  (d1 =? d2) && Bool.eqb l1 l2 && Bool.eqb r1 r2 && Bool.eqb p1 p2 && (n1 =? n2) && (m1 =? m2)
  && zll_eqb o1 o2 && zll_eqb q1 q2 && zl_eqb g1 g2 && Bool.eqb a1 a2.
"""


def _clean(vals):
    return bool(vals) and (vals[0].startswith('(0%nat, [])') or vals[0].startswith('(0, [])'))


def rejected_correspondence(ctx):
    """model = the effect sequence extracted from the CURRENT source run by C11.Effects.exec inside Coq;
    implementation = real objects with the exceptions caught; compared on the full observable state"""
    rng = ctx.rng
    # A. PenalizedSystem
    nR = ctx.n(200, 2000)
    lits = []
    pool = [(h, True) for h in WITNESS_RHISTORIES] + [(gen_rhistory(rng, 24, uses=(k % 3 != 0)), False) for k in range(nR)]
    for k, ((hp, N, r0, ops), _w) in enumerate(pool):
        try:
            got = impl_rhistory(hp, N, r0, ops)
        except Exception as exc:  # noqa
            ctx.fail('history:raises', f'history with rejected requests raised {type(exc).__name__}: {exc}',
                     {'kind': 'rhistory', 'hp': hp, 'N': N, 'r0': r0, 'ops': ops})
            continue
        ctx.case(('rhist', hp, N, r0, repr(ops)), nontrivial=rejected_layout_changes(hp, r0, ops) > 0,
                 kind=f'history-with-rejected:rejected={min(n_rejected(r0, ops), 4)}' + (':constructor-rejected' if got == 'rejected' else ''))
        exp = 'None' if got == 'rejected' else f'(Some {coq_obs(got)})'
        ops_l = '[' + '; '.join(coq_rop(o) for o in ops) + ']'
        lits.append(f'({coqbool(hp)}, {N}%nat, {coq_req(r0)}, {ops_l}, {exp})')
        if k == len(WITNESS_RHISTORIES) + 1:
            ctx.sample({'kind': 'rhistory', 'has_pentapy': hp, 'N': N, 'constructor': r0, 'ops': ops})
    ctx.traces += len(lits)
    ob = 'correspondence:PenalizedSystem-histories-with-rejected-requests(extracted effect order)'
    ctx.obligations.append(ob)
    bad_any = False
    per = 110
    for k in range(0, len(lits), per):
        sh = lits[k:k + per]
        text = HEADER_R + OBS_DEFS + f"""
Definition cases : list (bool * nat * req * list rop * option obs_t) := [
{chr(10).join('  ' + l + (';' if i + 1 < len(sh) else '') for i, l in enumerate(sh))}
].
Definition ok (c : bool * nat * req * list rop * option obs_t) : bool :=
  let '(hp, N, q0, ops, exp) := c in
  match einit hp N reset_diagonals_effects q0, exp with
  | Some u0, Some e => obs_eqb (uobserve (rrun hp N reset_diagonals_effects u0 ops)) e
  | None, None => true
  | _, _ => false
  end.
Eval vm_compute in (bad ok cases).
"""
        vals = ctx.coq_eval(f'rhist{k // per}', text)
        if vals is None:
            bad_any = True
        elif not _clean(vals):
            bad_any = True
            ctx.broke(f'correspondence:rejected-history-shard{k // per}',
                      'the effect sequence extracted from reset_diagonals, run by the model, and the PenalizedSystem disagree '
                      f'after a history with rejected requests: {vals}')
    if not bad_any:
        ctx.discharged.append(ob)

    # B. PSpline
    nP = ctx.n(90, 900)
    lits = []
    for k in range(nP + len(WITNESS_PSPLINE_RHISTORIES)):
        c = WITNESS_PSPLINE_RHISTORIES[k] if k < len(WITNESS_PSPLINE_RHISTORIES) else gen_pspline_rhistory(rng)
        hp, n_x, num_knots, degree, p0, ops, seed = c
        nb = num_knots + degree - 1
        case = {'kind': 'pspline-rhistory', 'hp': hp, 'n_x': n_x, 'num_knots': num_knots, 'degree': degree, 'p0': p0,
                'ops': ops, 'seed': seed}
        try:
            got = impl_pspline_rhistory(*c)
        except Exception as exc:  # noqa
            ctx.fail('pspline-history:raises', f'PSpline history with rejected requests raised {type(exc).__name__}: {exc}', case)
            continue
        ctx.case(('pspline-r', hp, n_x, num_knots, degree, p0, repr(ops)),
                 nontrivial=any(is_preq(o) and not preq_valid(o) for o in ops), kind='pspline-history-with-rejected')
        exp = 'None' if got == 'ValueError' else f'(Some {coq_obs(got)})'
        ops_l = '[' + '; '.join(coq_prop(o) for o in ops) + ']'
        lits.append(f'({coqbool(hp)}, {nb}%nat, {degree}, {coq_pcfg(p0)}, {ops_l}, {exp})')
    ctx.traces += len(lits)
    ob = 'correspondence:PSpline-histories-with-rejected-requests(extracted effect order)'
    ctx.obligations.append(ob)
    bad_any = False
    per = 150
    for k in range(0, len(lits), per):
        sh = lits[k:k + per]
        text = HEADER_R + OBS_DEFS + f"""
Definition cases : list (bool * nat * Z * pcfg * list prop_ * option obs_t) := [
{chr(10).join('  ' + l + (';' if i + 1 < len(sh) else '') for i, l in enumerate(sh))}
].
Definition ok (c : bool * nat * Z * pcfg * list prop_ * option obs_t) : bool :=
  let '(hp, nb, deg, p0, ops, exp) := c in
  match pinit hp nb deg p0, exp with
  | Some u0, Some e => obs_eqb (uobserve (prrun hp nb deg reset_diagonals_effects u0 ops)) e
  | None, None => true
  | _, _ => false
  end.
Eval vm_compute in (bad ok cases).
"""
        vals = ctx.coq_eval(f'prhist{k // per}', text)
        if vals is None:
            bad_any = True
        elif not _clean(vals):
            bad_any = True
            ctx.broke(f'correspondence:pspline-rejected-history-shard{k // per}',
                      f'model and PSpline disagree after a history with rejected reset_penalty_diagonals requests: {vals}')
    if not bad_any:
        ctx.discharged.append(ob)


# ---------------------------------------------------------------- 2-D systems (Kronecker penalties)
# kinds: 'P2D' PenalizedSystem2D((R, C)), 'W2D' WhittakerSystem2D((R, C), num_eigens=None),
#        'S2D' PSpline2D(SplineBasis2D(...)) with R x C basis functions (reset through reset_penalty).
# ops:   ('req2', lam, diff_order) with lam / diff_order an int or a list of ints (exception caught),
#        ('diag2', w) add_diagonal(w) in place (what solve() does with the weights), 'rdiag' reset_diagonal().
HEADER_2D = HEADER.replace('C11.PSplineSys.', 'C11.PSplineSys C11.Sys2D gen.GenBandEffects2D.')
S2D_SHAPES = {(4, 5): ((3, 4), (2, 2)), (5, 4): ((4, 3), (2, 2)), (3, 4): ((3, 3), (1, 2)), (4, 4): ((2, 3), (3, 2)),
              (5, 6): ((3, 5), (3, 2)), (6, 5): ((5, 4), (2, 2)), (3, 3): ((2, 3), (2, 1))}   # (R, C) -> (num_knots, degree)


def pair2(v):
    if isinstance(v, (list, tuple)):
        return tuple(v) if len(v) == 2 else ((v[0], v[0]) if len(v) == 1 else None)
    return (v, v)


def req2_valid(R, C, r):
    lam, d = pair2(r[1]), pair2(r[2])
    return lam is not None and d is not None and min(lam) > 0 and min(d) > 0 and d[0] < R and d[1] < C


def build2(kind, R, C, r):
    from pybaselines.two_d import _whittaker_utils as wu
    if kind == 'P2D':
        return wu.PenalizedSystem2D((R, C), r[1], r[2])
    if kind == 'W2D':
        return wu.WhittakerSystem2D((R, C), r[1], r[2], num_eigens=None)
    from pybaselines.two_d import _spline_utils as su2
    knots, deg = S2D_SHAPES[(R, C)]
    basis = su2.SplineBasis2D(np.linspace(-1, 1, 14), np.linspace(-1, 1, 17), num_knots=knots, spline_degree=deg)
    ps = su2.PSpline2D(basis, r[1], r[2])
    assert tuple(int(v) for v in ps._num_bases) == (R, C), ps._num_bases
    return ps


def observe2(s):
    pen = np.asarray(s.penalty.toarray(), dtype=float)
    return (int(s.diff_order[0]), int(s.diff_order[1]), as_int_rows(np.asarray(s.lam, dtype=float))[0],
            as_int_rows(pen), as_int_rows(np.asarray(s.main_diagonal, dtype=float))[0])


def ref2(R, C, lam, d):
    Dr = np.diff(np.eye(R), d[0], axis=0)
    Dc = np.diff(np.eye(C), d[1], axis=0)
    return lam[0] * np.kron(Dr.T @ Dr, np.eye(C)) + lam[1] * np.kron(np.eye(R), Dc.T @ Dc)


def apply_rop2(kind, s, op, events=None, k=None, R=None, C=None):
    if op == 'rdiag':
        s.reset_diagonal()
    elif op[0] == 'diag2':
        try:
            s.add_diagonal(np.array(op[1], dtype=float) if len(op[1]) != 1 else float(op[1][0]))
        except ValueError:
            pass
    else:
        before = snapshot(s) if events is not None else None
        try:
            if kind == 'S2D':
                s.reset_penalty(op[1], op[2])
            else:
                s.reset_diagonals(op[1], op[2])
            res = 'ok'
        except Exception as exc:  # noqa
            res = type(exc).__name__
        if events is not None:
            valid = req2_valid(R, C, op)
            if valid and res != 'ok':
                events.append(('valid-request-raises', k, res))
            elif not valid and res == 'ok':
                events.append(('invalid-request-accepted', k, ''))
            elif not valid:
                if res != 'ValueError':
                    events.append(('wrong-exception', k, res))
                d = snapshot_diff(before, snapshot(s))
                if d:
                    events.append(('rejected-request-changes-state', k, ', '.join(d)))
            else:
                lam, dd = pair2(op[1]), pair2(op[2])
                got = np.asarray(s.penalty.toarray(), dtype=float)
                if got.shape != (R * C, R * C) or not np.array_equal(got, ref2(R, C, lam, dd)):
                    events.append(('penalty-not-kron-DtD', k, f'lam={lam}, diff_order={dd}'))
                elif kind != 'S2D':
                    # a solve right after the request, against the dense Kronecker reference (integer weights >= 1:
                    # the system is symmetric positive definite with smallest eigenvalue >= 1)
                    w = 1.0 + (np.arange(R * C) % 3)
                    y = np.cos(np.arange(R * C))
                    try:
                        x = np.asarray(s.solve(y, w)).ravel()
                        s.reset_diagonal()
                        want = np.linalg.solve(ref2(R, C, lam, dd) + np.diag(w), w * y)
                        if x.shape != want.shape or not np.allclose(x, want, rtol=1e-7, atol=1e-9):
                            events.append(('solve-differs', k, f'max abs difference {np.abs(x - want).max():.3g}'))
                    except Exception as exc:  # noqa
                        events.append(('solve-raises', k, f'{type(exc).__name__}: {exc}'))


def impl_rhistory2(kind, R, C, r0, ops, events=None):
    try:
        s = build2(kind, R, C, r0)
    except ValueError:
        return 'rejected'
    for k, op in enumerate(ops):
        apply_rop2(kind, s, op, events, k, R, C)
    return observe2(s)


EVENT_TEXT2 = dict(EVENT_TEXT)
EVENT_TEXT2.update({
    'penalty-not-kron-DtD': 'after the accepted request #{k} {op} the penalty is not lam_r*kron(Dr.T@Dr, I) + lam_c*kron(I, Dc.T@Dc) ({detail})',
    'solve-differs': 'after the accepted request #{k} {op} solve() differs from the dense Kronecker reference ({detail})',
    'solve-raises': 'after the accepted request #{k} {op} solve() raised {detail}',
})


def rhistory2_error(kind, R, C, r0, ops):
    events = []
    try:
        got = impl_rhistory2(kind, R, C, r0, ops, events)
    except Exception as exc:  # noqa
        return 'history2d:raises', f'raised {type(exc).__name__}: {exc}'
    if events:
        ev, k, detail = events[0]
        return ('reset2d:' if 'request' in ev or 'exception' in ev else 'history2d:') + ev, \
            EVENT_TEXT2[ev].format(k=k, op=str(ops[k])[:120], detail=detail)
    valid0 = req2_valid(R, C, r0)
    if got == 'rejected':
        return ('history2d:raises', 'valid constructor request raised ValueError') if valid0 else None
    if not valid0:
        return 'reset2d:invalid-request-accepted', f'the constructor accepted the invalid request {r0}'
    idx = max((i for i, o in enumerate(ops) if o != 'rdiag' and o[0] == 'req2' and req2_valid(R, C, o)), default=-1)
    last = ops[idx] if idx >= 0 else r0
    tail = [o for o in ops[idx + 1:] if o == 'rdiag' or o[0] != 'req2']
    want = impl_rhistory2(kind, R, C, last, tail)
    if got != want:
        names = ('diff_order[0]', 'diff_order[1]', 'lam', 'penalty', 'main_diagonal')
        return 'history2d:differs-from-fresh', (f'differs from the system built directly with the last accepted request {last} in '
                                                + ', '.join(n for n, x, y in zip(names, got, want) if x != y))
    return None


ORDERS_2D = [1, 2, [1, 2], [2, 1], [2, 3], [3, 2], [1, 3], [3, 3]]
INVALID_2D = [(0, 'same'), (-2, 'same'), ([1, 2, 3], 'same'), ([], 'same'), ('same', 0), ('same', -1), ('same', [1, 2, 3]),
              ('same', [0, 1]), ('same', 'rows-too-large'), ('same', 'cols-too-large'), ('same', 'both-too-large'),
              (0, 'other'), ([3, 0], 'other'), ('same', [2, 0])]


def fixed_rhistories2():
    """ENUMERATED grid: every ordered pair of difference orders (one-axis changes, both axes, none) with a lam
    change and a lam-only reset behind it, and every kind of rejected request between two accepted ones"""
    out = []
    # the histories reported to the lead at /repo 4a1c1fc (diff_order / lam stored before diff_penalty_matrix could raise)
    for kind in ('P2D', 'W2D', 'S2D'):
        for badreq in (('req2', -1, 3), ('req2', 0, [2, 3]), ('req2', 2, [2, 6])):
            out.append((kind, 5, 6, ('req2', 1, 2), [badreq]))
            out.append((kind, 5, 6, ('req2', 1, 2), [badreq, ('req2', 3, [2, 3])]))
    for kind, (R, C) in (('P2D', (4, 5)), ('W2D', (5, 4)), ('S2D', (4, 5))):
        for a in ORDERS_2D:
            for b in ORDERS_2D:
                out.append((kind, R, C, ('req2', 1, a), [('req2', [2, 3], b), ('req2', 5, b)]))
        for i, (lam, d) in enumerate(INVALID_2D):
            a, b = ORDERS_2D[i % len(ORDERS_2D)], ORDERS_2D[(i + 3) % len(ORDERS_2D)]
            big = {'rows-too-large': [R, 1], 'cols-too-large': [1, C], 'both-too-large': R + C}
            dd = big.get(d, a if d == 'same' else (b if d == 'other' else d)) if isinstance(d, str) else d
            ll = 3 if lam == 'same' else lam
            out.append((kind, R, C, ('req2', 1, a), [('req2', ll, dd), ('diag2', [2]), ('req2', ll, dd), ('req2', [2, 1], b)]))
            out.append((kind, R, C, ('req2', 1, a), [('req2', [1, 4], b), ('req2', ll, dd)]))
    return out


def gen_rhistory2(rng):
    kind = rng.choice(['P2D', 'P2D', 'W2D', 'S2D'])
    R, C = rng.choice(sorted(S2D_SHAPES))

    def order(cur=None):
        hi = (min(3, R - 1), min(3, C - 1))
        if cur is not None and rng.random() < 0.6:           # change exactly one axis
            c = list(pair2(cur))
            ax = rng.randint(0, 1)
            c[ax] = rng.choice([x for x in range(1, hi[ax] + 1) if x != c[ax]] or [c[ax]])
            return c
        d = [rng.randint(1, hi[0]), rng.randint(1, hi[1])]
        return d[0] if d[0] == d[1] and rng.random() < 0.5 else d

    def lamv():
        return rng.choice([1, 2, 5, [1, 3], [4, 1], [2, 2]])

    def bad(cur):
        lam, d = lamv(), order(cur)
        k = rng.choice(['lam0', 'lamneg', 'lamlen', 'd0', 'dlen', 'dbig0', 'dbig1', 'lam0+d'])
        if k.startswith('lam0'):
            lam = rng.choice([0, [2, 0], [0, 1]])
        if k == 'lamneg':
            lam = -rng.choice([1, 4])
        if k == 'lamlen':
            lam = [1, 2, 3]
        if k == 'd0':
            d = rng.choice([0, [0, 1], [2, -1]])
        if k == 'dlen':
            d = [1, 1, 1]
        if k == 'dbig0':
            d = [R + rng.choice([0, 1]), pair2(d)[1]]
        if k == 'dbig1':
            d = [pair2(d)[0], C + rng.choice([0, 2])]
        return ('req2', lam, d)
    cur = order()
    r0 = ('req2', lamv(), cur)
    ops = []
    p_rej = rng.choice([0.0, 0.3, 0.5])
    for _ in range(rng.randint(1, 6)):
        u = rng.random()
        if u < 0.15:
            n = R * C
            ops.append(('diag2', [rng.randint(1, 9) for _ in range(n if rng.random() < 0.7 else (1 if rng.random() < 0.6 else n + 1))]))
        elif u < 0.2:
            ops.append('rdiag')
        elif rng.random() < p_rej:
            ops.append(bad(cur))
        else:
            same = rng.random() < 0.25                         # lam-only reset
            cur = cur if same else order(cur)
            ops.append(('req2', lamv(), cur))
    return kind, R, C, r0, ops


def one_axis_changes(R, C, r0, ops):
    if not req2_valid(R, C, r0):
        return 0
    cur, n = pair2(r0[2]), 0
    for o in ops:
        if o != 'rdiag' and o[0] == 'req2' and req2_valid(R, C, o):
            new = pair2(o[2])
            n += (new[0] != cur[0]) != (new[1] != cur[1])
            cur = new
    return n


def coq_zl(v):
    return zlist(list(v) if isinstance(v, (list, tuple)) else [v])


def coq_rop2(o):
    if o == 'rdiag':
        return 'R2ResetDiag'
    if o[0] == 'diag2':
        return f'R2AddDiag {zlist(o[1])}'
    return f'R2Req {{| r_lam := {coq_zl(o[1])}; r_d := {coq_zl(o[2])} |}}'


def systems2d(ctx, n_random):
    """correspondence (model on the extracted order inside Coq vs real objects) AND direct oracle on the same
    enumerated + random histories of the 2-D systems"""
    rng = ctx.rng
    cases = fixed_rhistories2() + [gen_rhistory2(rng) for _ in range(n_random)]
    lits = []
    found = 0
    for i, (kind, R, C, r0, ops) in enumerate(cases):
        case = {'kind': 'rhistory2d', 'system': kind, 'R': R, 'C': C, 'r0': r0, 'ops': ops}
        ctx.case(('rhist2', kind, R, C, r0, repr(ops)), nontrivial=one_axis_changes(R, C, r0, ops) > 0 or
                 any(o != 'rdiag' and o[0] == 'req2' and not req2_valid(R, C, o) for o in ops),
                 kind=f'history2d:{kind}' + (':one-axis-change' if one_axis_changes(R, C, r0, ops) else ''))
        e = rhistory2_error(kind, R, C, r0, ops)
        if e:
            small = list(ops)
            changed = True
            while changed:
                changed = False
                for j in range(len(small)):
                    trial = small[:j] + small[j + 1:]
                    e2 = rhistory2_error(kind, R, C, r0, trial)
                    if e2 and e2[0] == e[0]:
                        small, e, changed = trial, e2, True
                        break
            case['ops'] = small
            names = {'P2D': 'PenalizedSystem2D', 'W2D': 'WhittakerSystem2D(num_eigens=None)', 'S2D': 'PSpline2D'}
            ctx.fail(e[0], f'{names[kind]} with {R} x {C} basis functions, built with {r0}, then {small}: ' + e[1], case)
            found += 1
            continue
        try:
            got = impl_rhistory2(kind, R, C, r0, ops)
        except Exception as exc:  # noqa
            ctx.fail('history2d:raises', f'2-D history raised {type(exc).__name__}: {exc}', case)
            continue
        if i == 5:
            ctx.sample(case)
        if got == 'rejected':
            exp = 'None'
        else:
            dr, dc, lam, pen, md = got
            exp = f'(Some ({zl(dr)}, {zl(dc)}, {zl(lam[0])}, {zl(lam[1])}, {zlist2(pen)}, {zlist(md)}))'
        ops_l = '[' + '; '.join(coq_rop2(o) for o in ops) + ']'
        lits.append(f'({R}%nat, {C}%nat, {{| r_lam := {coq_zl(r0[1])}; r_d := {coq_zl(r0[2])} |}}, {ops_l}, {exp})')
    ctx.traces += len(lits)
    ob = 'correspondence:2-D-systems-histories(extracted effect order; PenalizedSystem2D, WhittakerSystem2D, PSpline2D)'
    ctx.obligations.append(ob)
    bad_any = False
    per = 60
    for k in range(0, len(lits), per):
        sh = lits[k:k + per]
        text = HEADER_2D + f"""
Definition obs2_t : Type := Z * Z * Z * Z * list (list Z) * list Z.
Definition obs2_eqb (a b : obs2_t) : bool :=
  let '(a1, a2, a3, a4, a5, a6) := a in let '(b1, b2, b3, b4, b5, b6) := b in
  (a1 =? b1) && (a2 =? b2) && (a3 =? b3) && (a4 =? b4) && zll_eqb a5 b5 && zl_eqb a6 b6.
Definition cases : list (nat * nat * req2 * list rop2 * option obs2_t) := [
{chr(10).join('  ' + l + (';' if i + 1 < len(sh) else '') for i, l in enumerate(sh))}
].
Definition ok (c : nat * nat * req2 * list rop2 * option obs2_t) : bool :=
  let '(R, C, q0, ops, exp) := c in
  match einit2 R C reset2d_effects q0, exp with
  | Some s0, Some e => obs2_eqb (observe2 (rrun2 R C reset2d_effects s0 ops)) e
  | None, None => true
  | _, _ => false
  end.
Eval vm_compute in (bad ok cases).
"""
        vals = ctx.coq_eval(f'sys2d{k // per}', text)
        if vals is None:
            bad_any = True
        elif not _clean(vals):
            bad_any = True
            ctx.broke(f'correspondence:sys2d-shard{k // per}',
                      f'the 2-D model (extracted effect order) and the implementation disagree after a history: {vals}')
    if not bad_any:
        ctx.discharged.append(ob)
    return found


# ---------------------------------------------------------------- the penalty every METHOD hands to its solver
# For every public method with a diff_order parameter: enumerated grid diff_order x banded_solver; every solve of the
# method is intercepted (PenalizedSystem.solve for Whittaker systems, PSpline.solve_pspline for P-splines; the 2-D solves)
# and the system / penalty actually used is compared with D_d'D_d for the REQUESTED order d.
PURE_LAM = {'airpls', 'arpls', 'asls', 'brpls', 'derpsalsa', 'fabc', 'iarpls', 'irsqr', 'lsrpls', 'mixture_model', 'mpls',
            'psalsa', 'pspline_airpls', 'pspline_arpls', 'pspline_asls', 'pspline_brpls', 'pspline_derpsalsa',
            'pspline_iarpls', 'pspline_lsrpls', 'pspline_mpls', 'pspline_psalsa'}   # every solve uses exactly lam * D_d'D_d
# documented modifications of the penalty (only the system's order and stored diagonals are checked):
#   aspls / pspline_aspls (alpha-weighted rows), drpls / iasls / pspline_drpls / pspline_iasls (extra first-derivative terms),
#   jbcd (unit-lam system scaled inside the method)
OPTIONAL_SMOOTHING = {'custom_bc', 'rubberband'}   # diff_order only shapes the optional final smoothing (lam given)


def bands_of_dense(P, rows, lower, rev):
    n = P.shape[0]
    nb = rows - 1 if lower else rows // 2
    ab = np.zeros((rows, n))
    for rho in range(rows):
        r = rho if lower else rho - nb
        for j in range(max(0, -r), min(n, n - r)):
            ab[rho, j] = P[j + r, j]
    return ab[::-1] if rev else ab


class _SolveTap:
    """records (kind, used penalty or lhs, system settings) at every outermost solve"""

    def __enter__(self):
        from pybaselines import _spline_utils as su
        bu = _imp()
        self.bu, self.su = bu, su
        self.rec = []
        self.depth = 0
        self.o_solve, self.o_sp = bu.PenalizedSystem.solve, su.PSpline.solve_pspline
        tap = self

        def info(s):
            return dict(d=int(s.diff_order), lower=bool(s.lower), rev=bool(s.reversed), n=int(s._num_bases),
                        orig=np.array(s.original_diagonals, dtype=float, copy=True))

        def w_solve(self_, lhs, rhs, *a, **k):
            if tap.depth == 0:
                tap.rec.append(('solve', np.array(lhs, dtype=float, copy=True), info(self_)))
            return tap.o_solve(self_, lhs, rhs, *a, **k)

        def w_sp(self_, y, weights, penalty=None, rhs_extra=None):
            used = self_.penalty if penalty is None else penalty
            tap.rec.append(('pspline', np.array(used, dtype=float, copy=True), info(self_)))
            tap.depth += 1
            try:
                return tap.o_sp(self_, y, weights, penalty, rhs_extra)
            finally:
                tap.depth -= 1
        bu.PenalizedSystem.solve = w_solve
        su.PSpline.solve_pspline = w_sp
        return self

    def __exit__(self, *a):
        self.bu.PenalizedSystem.solve = self.o_solve
        self.su.PSpline.solve_pspline = self.o_sp


def method_solve_error(name, d, solver, kw, lam_at):
    """runs Baseline.<name>(diff_order=d, **kw) with banded_solver=solver; None or (key, text).  lam_at(i, total) is the lam
    the method documents for its i-th solve, or None when only the order is checked."""
    import warnings
    from pybaselines import Baseline
    from . import methods as M
    x = np.linspace(0.0, 100.0, 50)
    y = M.make_y(np.random.default_rng(7), x)
    with _SolveTap() as tap, warnings.catch_warnings():
        warnings.simplefilter('ignore')
        f = Baseline(x)
        f.banded_solver = solver
        try:
            M.run_1d(name, x, y, fitter=f, diff_order=d, **kw)
        except ValueError as exc:
            if str(exc) == 'diff_order must be 2 or greater' and d < 2:
                return None          # documented restriction of the method (drpls, iasls and their P-spline versions)
            return 'method-solve:raises', f'raised ValueError: {exc}'
        except Exception as exc:  # noqa
            return 'method-solve:raises', f'raised {type(exc).__name__}: {exc}'
        rec = list(tap.rec)
    if not rec:
        return 'method-solve:no-solve', 'no penalized solve was made'
    check = rec[-1:] if name in OPTIONAL_SMOOTHING else rec
    first = len(rec) - len(check)
    for i, (kind, used, s) in enumerate(check, start=first):
        if s['d'] != d:
            return 'method-solve:wrong-order', (f'solve #{i} of {len(rec)} is made by a system with diff_order={s["d"]} '
                                                f'instead of the requested {d}')
        D = np.diff(np.eye(s['n']), d, axis=0)
        P = D.T @ D
        if not np.array_equal(s['orig'], bands_of_dense(P, s['orig'].shape[0], s['lower'], s['rev'])):
            return 'method-solve:stored-diagonals', f'solve #{i}: original_diagonals of the system are not the bands of D_{d}.T @ D_{d}'
        lam = lam_at(i, len(rec))
        if lam is not None:
            want = lam * bands_of_dense(P, used.shape[0], s['lower'], s['rev'])
            a = used.copy()
            if kind == 'solve':      # the weights were added to the main diagonal of the left-hand side
                mi = (0 if s['lower'] else used.shape[0] // 2)
                a[mi] = 0
                want[mi] = 0
            if a.shape != want.shape or not np.allclose(a, want, rtol=1e-11, atol=1e-11 * np.abs(want).max()):
                return 'method-solve:penalty-not-lam-DtD', (f'solve #{i} of {len(rec)}: the penalty handed to the solver is not '
                                                            f'{lam} * D_{d}.T @ D_{d} (max abs deviation {np.abs(a - want).max():.3g})')
    return None


def method_cells():
    import inspect
    from pybaselines import Baseline
    from . import methods as M
    cells = []
    for name in M.method_names():
        sig = inspect.signature(getattr(Baseline, name)).parameters
        if 'diff_order' not in sig:
            continue
        for d in (1, 2, 3, 4):
            for solver in (2, 3, 4):
                cells.append((name, d, solver))
    return cells


def method_case(name, d, solver):
    from . import methods as M
    kw = {}
    base = M.call_kwargs(name)
    if name == 'mpspline':
        kw = {'lam': 300.0, 'lam_smooth': 0.5}
        return kw, (lambda i, n: 0.5 if i == 0 else 300.0)
    if name in OPTIONAL_SMOOTHING:
        kw = {'lam': 20.0}
        return kw, (lambda i, n: 20.0)
    if name in PURE_LAM:
        lam = float(base.get('lam', 1e3)) * 1.5
        return {'lam': lam}, (lambda i, n: lam)
    return kw, (lambda i, n: None)


def method_solves(ctx):
    found = 0
    for (name, d, solver) in method_cells():
        kw, lam_at = method_case(name, d, solver)
        ctx.case(('o-method-solve', name, d, solver), nontrivial=d != 2, kind='oracle:method-solve:' + ('pure' if lam_at(0, 1) is not None else 'order-only'))
        e = method_solve_error(name, d, solver, kw, lam_at)
        if e:
            ctx.fail(e[0] + ':' + name, f'Baseline.{name}(diff_order={d}, {kw}) with banded_solver={solver}: {e[1]}',
                     {'kind': 'method-solve', 'method': name, 'd': d, 'solver': solver})
            found += 1
    found += method_solves_2d(ctx)
    return found


def method_solves_2d(ctx):
    """2-D: at every solve of every Baseline2D method with a diff_order parameter the system carries the requested per-axis
    orders (M != N), and a sparse (non-eigendecomposition) penalty of a pure method is lam_r*kron(Dr'Dr, I) + lam_c*kron(I, Dc'Dc)"""
    import inspect
    import warnings
    from pybaselines import Baseline2D
    from pybaselines.two_d import _whittaker_utils as wu, _spline_utils as su2
    from . import methods as M
    found = 0
    x, z, y = M.make_z2d(np.random.default_rng(5), 11, 14)
    rec = []
    originals = [(wu.PenalizedSystem2D, 'solve'), (wu.WhittakerSystem2D, 'solve'), (su2.PSpline2D, 'solve')]
    saved = [(c, n, c.__dict__[n]) for c, n in originals if n in c.__dict__]

    def wrap(orig):
        def w(self_, *a, **k):
            pen = getattr(self_, 'penalty', None)
            rec.append((tuple(int(v) for v in np.atleast_1d(self_.diff_order)), tuple(float(v) for v in np.atleast_1d(self_.lam)),
                        tuple(int(v) for v in self_._num_bases),
                        np.asarray(pen.toarray(), dtype=float) if hasattr(pen, 'toarray') else None))
            return orig(self_, *a, **k)
        return w
    for c, n, o in saved:
        setattr(c, n, wrap(o))
    try:
        for name in M.method_names(True):
            if 'diff_order' not in inspect.signature(getattr(Baseline2D, name)).parameters:
                continue
            for d in (1, 2, 3, (1, 2), (2, 1), (3, 1), (2, 3)):
                for eig in ((None, (5, 6)) if 'num_eigens' in inspect.signature(getattr(Baseline2D, name)).parameters else (None,)):
                    rec.clear()
                    kw = {'diff_order': d}
                    lam = float(M.call_kwargs(name, True).get('lam', 10)) * 1.5
                    kw['lam'] = (lam, 2 * lam)
                    if 'num_eigens' in inspect.signature(getattr(Baseline2D, name)).parameters:
                        kw['num_eigens'] = eig
                    case = {'kind': 'method-solve-2d', 'method': name, 'd': d, 'num_eigens': eig}
                    ctx.case(('o-method-solve-2d', name, d, eig), nontrivial=d != 2, kind='oracle:method-solve-2d')
                    try:
                        with warnings.catch_warnings():
                            warnings.simplefilter('ignore')
                            M.run_2d(name, x, z, y, **kw)
                    except ValueError as exc:
                        if str(exc) == 'diff_order must be 2 or greater' and min(pair2(list(d) if isinstance(d, tuple) else d)) < 2:
                            continue
                        ctx.fail('method-solve-2d:raises:' + name, f'Baseline2D.{name}({kw}) raised ValueError: {exc}', case)
                        found += 1
                        continue
                    except Exception as exc:  # noqa
                        ctx.fail('method-solve-2d:raises:' + name, f'Baseline2D.{name}({kw}) raised {type(exc).__name__}: {exc}', case)
                        found += 1
                        continue
                    dd = pair2(list(d) if isinstance(d, tuple) else d)
                    for i, (sd, sl, nbases, pen) in enumerate(rec):
                        if sd != tuple(dd):
                            ctx.fail('method-solve-2d:wrong-order:' + name, f'Baseline2D.{name}({kw}): solve #{i} is made by a system with '
                                     f'diff_order={sd} instead of {tuple(dd)}', case)
                            found += 1
                            break
                        if pen is not None and name in PURE_LAM and pen.shape == (nbases[0] * nbases[1],) * 2:
                            want = ref2(nbases[0], nbases[1], (lam, 2 * lam), dd)
                            if not np.allclose(pen - np.diag(np.diag(pen)), want - np.diag(np.diag(want)), rtol=1e-11, atol=1e-11 * np.abs(want).max()):
                                ctx.fail('method-solve-2d:penalty-not-kron-DtD:' + name, f'Baseline2D.{name}({kw}): at solve #{i} the penalty of the '
                                         'system is not lam_r*kron(Dr.T@Dr, I) + lam_c*kron(I, Dc.T@Dc) off the diagonal', case)
                                found += 1
                                break
    finally:
        for c, n, o in saved:
            setattr(c, n, o)
    return found


# ---------------------------------------------------------------- correspondence
def correspondence(ctx):
    rng = ctx.rng
    bu = _imp()
    # A. diff_penalty_diagonals on the (N, d, lower, padding) grid
    cases = []
    bigN = ctx.n([64, 127, 400], [100, 128, 199, 256, 333, 400])
    for d in range(0, 7):
        small = list(range(1, ctx.n(16, 40)))
        for N in small + ([n for n in bigN] if 1 <= d <= 3 else []):
            if N <= d:
                continue   # outside the property's domain (N > d); the implementation raises there
            for lower in (True, False):
                for pad in ((-1, 0, 1, 3) if N <= 9 else (0,)):
                    cases.append((N, d, lower, pad))
    cases += [(0, 1, True, 0), (3, -1, True, 0)]   # rejected inputs
    lits = []
    for (N, d, lower, pad) in cases:
        got = impl_dpd(N, d, lower, pad)
        ctx.case(('dpd', N, d, lower, pad), nontrivial=(d > 0 and N > d), kind=f'dpd:d={d}')
        if d < 0 or N <= 0:
            exp = 'None'
            if got != 'ValueError':
                ctx.fail('dpd:accepts-invalid', f'diff_penalty_diagonals({N},{d}) did not raise ValueError', {'kind': 'dpd', 'N': N, 'd': d, 'lower': lower, 'pad': pad})
            continue
        if isinstance(got, str):
            exp = 'None'
        else:
            exp = f'(Some {zlist2(got)})'
        lits.append(f'({N}%nat, {d}%nat, {coqbool(lower)}, {zl(pad)}, {exp})')
    ctx.sample({'kind': 'dpd-case', 'N': cases[40][0], 'd': cases[40][1], 'lower': cases[40][2], 'padding': cases[40][3]})
    shards = [lits[i::4] for i in range(4)]
    total_bad = 0
    for k, sh in enumerate(shards):
        text = HEADER + f"""
Definition cases : list (nat * nat * bool * Z * option (list (list Z))) := [
{chr(10).join('  ' + l + (';' if i + 1 < len(sh) else '') for i, l in enumerate(sh))}
].
Definition ok (c : nat * nat * bool * Z * option (list (list Z))) : bool :=
  let '(N, d, lower, pad, exp) := c in
  match dpd N d lower pad, exp with
  | DpdOk a, Some e => zll_eqb (tab a) e
  | DpdValueError, None => true
  | _, _ => false
  end.
Eval vm_compute in (bad ok cases).
"""
        vals = ctx.coq_eval(f'dpd{k}', text)
        if vals is None:
            continue
        if not vals or not vals[0].startswith('(0%nat, [])') and not vals[0].startswith('(0, [])'):
            total_bad += 1
            ctx.broke(f'correspondence:dpd-shard{k}', f'model and implementation disagree on diff_penalty_diagonals: {vals}')
    ctx.obligations.append('correspondence:diff_penalty_diagonals')
    if not total_bad and not any(n.startswith('correspondence:dpd') for n, _ in ctx.broken):
        ctx.discharged.append('correspondence:diff_penalty_diagonals')

    # B. _lower_to_full / _shift_rows / _pad_diagonals on random integer arrays
    lits = []
    nB = ctx.n(120, 1200)
    for _ in range(nB):
        R = rng.randint(1, 5)
        C = rng.randint(1, 9)
        a = [[rng.randint(-9, 9) for _ in range(C)] for _ in range(R)]
        kind = rng.choice(['l2f', 'shift', 'pad', 'add'])
        arr = np.array(a, dtype=float)
        if kind == 'l2f':
            got = as_int_rows(bu._lower_to_full(arr.copy()))
            lits.append(f'(0, {zlist2(a)}, [], 0, 0, Some {zlist2(got)})')
            key = ('l2f', R, C)
        elif kind == 'shift':
            up = rng.randint(0, R)
            lo = rng.randint(0, R - up)
            got = as_int_rows(bu._shift_rows(arr.copy(), up, lo))
            lits.append(f'(1, {zlist2(a)}, [], {up}, {lo}, Some {zlist2(got)})')
            key = ('shift', R, C, up, lo)
        elif kind == 'pad':
            pad = rng.randint(-1, 3)
            lower = rng.random() < 0.5
            got = as_int_rows(bu._pad_diagonals(arr.copy(), pad, lower))
            lits.append(f'(2, {zlist2(a)}, [], {zl(pad)}, {1 if lower else 0}, Some {zlist2(got)})')
            key = ('pad', R, C, pad, lower)
        else:
            R2 = max(1, R + rng.choice([-3, -2, -1, 0, 0, 1, 2, 4]))
            C2 = C if rng.random() < 0.9 else C + 1
            b2 = rand_rows(rng, R2, C2)
            lower = rng.random() < 0.5
            try:
                got = 'Some ' + zlist2(as_int_rows(bu._add_diagonals(arr.copy(), np.array(b2, dtype=float), lower)))
            except ValueError:
                got = 'None'
            lits.append(f'(3, {zlist2(a)}, {zlist2(b2)}, 0, {1 if lower else 0}, {got})')
            key = ('add', R, C, R2, C2, lower, tuple(map(tuple, b2)))
        ctx.case(key + (tuple(map(tuple, a)),), nontrivial=True, kind=f'helper:{kind}')
    text = HEADER + f"""
Definition cases : list (Z * list (list Z) * list (list Z) * Z * Z * option (list (list Z))) := [
{chr(10).join('  ' + l + (';' if i + 1 < len(lits) else '') for i, l in enumerate(lits))}
].
Definition ok (c : Z * list (list Z) * list (list Z) * Z * Z * option (list (list Z))) : bool :=
  let '(kind, a, b, p, q, exp) := c in
  let res := if kind =? 0 then Some (lower_to_full (of_rows a))
             else if kind =? 1 then Some (shift_rows (of_rows a) p q)
             else if kind =? 2 then Some (pad_diagonals (of_rows a) p (q =? 1))
             else add_diagonals (of_rows a) (of_rows b) (q =? 1) in
  match res, exp with
  | Some r, Some e => zll_eqb (tab r) e
  | None, None => true
  | _, _ => false
  end.
Eval vm_compute in (bad ok cases).
"""
    vals = ctx.coq_eval('helpers', text)
    ctx.obligations.append('correspondence:_lower_to_full/_shift_rows/_pad_diagonals/_add_diagonals')
    if vals is not None:
        if vals and (vals[0].startswith('(0%nat, [])') or vals[0].startswith('(0, [])')):
            ctx.discharged.append('correspondence:_lower_to_full/_shift_rows/_pad_diagonals/_add_diagonals')
        else:
            ctx.broke('correspondence:helpers', f'model and implementation disagree on band helpers: {vals}')

    # C. histories of reconfigurations and uses, compared field by field (including main_diagonal and
    #    whether penalty shares memory with original_diagonals)
    nH = ctx.n(320, 3000)
    lits = []
    for k in range(nH):
        hp, N, c0, ops = gen_history(rng, 24, uses=(k % 4 != 0))
        try:
            got = impl_history(hp, N, c0, ops)
        except Exception as exc:  # noqa
            ctx.fail('history:raises', f'history of reconfigurations and uses raised {type(exc).__name__}: {exc}',
                     {'kind': 'history', 'hp': hp, 'N': N, 'c0': c0, 'ops': ops})
            continue
        lc = layout_changes(hp, c0, ops) + use_then_reset(ops)
        nuse = sum(1 for o in ops if is_use(o))
        ctx.case(('hist', hp, N, c0, repr(ops)), nontrivial=lc > 0,
                 kind=f'history:len={len(ops)}' + (':uses' if nuse else ''))
        ops_l = '[' + '; '.join(coq_op(o) for o in ops) + ']'
        lits.append(f'({coqbool(hp)}, {N}%nat, {coq_cfg(c0)}, {ops_l}, {coq_obs(got)})')
        if k in (1, 2):
            ctx.sample({'kind': 'history', 'has_pentapy': hp, 'N': N, 'c0': c0, 'ops': ops})
    ctx.traces += len(lits)
    bad_any = False
    per = 110
    for k in range(0, len(lits), per):
        sh = lits[k:k + per]
        text = HEADER + f"""
Definition cases := [
{chr(10).join('  ' + l + (';' if i + 1 < len(sh) else '') for i, l in enumerate(sh))}
].
Definition obs_t : Type := Z * bool * bool * bool * Z * Z * list (list Z) * list (list Z) * list Z * bool.
Definition obs_eqb (a b : obs_t) : bool :=
  let '(d1, l1, r1, p1, n1, m1, o1, q1, g1, a1) := a in
  let '(d2, l2, r2, p2, n2, m2, o2, q2, g2, a2) := b in
  (d1 =? d2) && Bool.eqb l1 l2 && Bool.eqb r1 r2 && Bool.eqb p1 p2 && (n1 =? n2) && (m1 =? m2)
  && zll_eqb o1 o2 && zll_eqb q1 q2 && zl_eqb g1 g2 && Bool.eqb a1 a2.
Definition ok (c : bool * nat * cfg * list uop * obs_t) : bool :=
  let '(hp, N, c0, ops, exp) := c in
  match ureset hp N None c0 with
  | Some u0 => obs_eqb (uobserve (urun hp N u0 ops)) exp
  | None => false
  end.
Eval vm_compute in (bad ok cases).
"""
        vals = ctx.coq_eval(f'hist{k // per}', text)
        if vals is None:
            bad_any = True
        elif not vals or not (vals[0].startswith('(0%nat, [])') or vals[0].startswith('(0, [])')):
            bad_any = True
            ctx.broke(f'correspondence:history-shard{k // per}',
                      'model state and PenalizedSystem state (settings, original_diagonals, penalty, main_diagonal, '
                      f'shares_memory) disagree after a history of reconfigurations and uses: {vals}')
    ctx.obligations.append('correspondence:PenalizedSystem-histories-with-uses')
    if not bad_any:
        ctx.discharged.append('correspondence:PenalizedSystem-histories-with-uses')


# ---------------------------------------------------------------- PSpline correspondence
def coq_pcfg(p):
    lam, d, al, rev = p
    r = 'None' if rev is None else f'(Some {coqbool(rev)})'
    return f'{{| p_lam := {zl(lam)}; p_d := {d}%nat; p_allow_lower := {coqbool(al)}; p_rev := {r} |}}'


def coq_pop(o):
    if o[0] == 'preset':
        return f'PReset {coq_pcfg(o[1:])}'
    if o[0] == 'solve':
        return 'PSolve'
    return f'POp ({coq_op(o)})'


def impl_pspline_history(hp, n_x, num_knots, degree, p0, ops, seed):
    """PSpline(basis, *p0) followed by ops; 'ValueError' when the constructor rejects p0."""
    from pybaselines import _spline_utils as su
    bu = _imp()
    old = bu._HAS_PENTAPY
    bu._HAS_PENTAPY = hp
    try:
        r = np.random.default_rng(seed)
        x = np.linspace(0.0, 1.0, n_x)
        y = r.normal(size=n_x)
        w = r.uniform(0.1, 1.0, n_x)
        basis = su.SplineBasis(x, num_knots, degree)
        try:
            ps = su.PSpline(basis, lam=p0[0], diff_order=p0[1], allow_lower=p0[2], reverse_diags=p0[3])
        except ValueError:
            return 'ValueError'
        for op in ops:
            if op == 'rev':
                apply_op(ps, op)
            elif op[0] == 'preset':
                ps.reset_penalty_diagonals(lam=op[1], diff_order=op[2], allow_lower=op[3], reverse_diags=op[4])
            elif op[0] == 'solve':
                try:        # reads the penalty only; a clobbered / re-bound penalty may make the solve fail
                    with np.errstate(all='ignore'):
                        ps.solve_pspline(y, w)
                except (np.linalg.LinAlgError, ValueError):
                    pass
            else:
                apply_op(ps, op)
        return observe(ps)
    finally:
        bu._HAS_PENTAPY = old


def gen_pspline_history(rng):
    degree = rng.choice([1, 2, 3, 3, 4])
    num_knots = rng.choice([3, 4, 5, 6, 8])
    nb = num_knots + degree - 1
    n_x = rng.choice([15, 24])
    hp = rng.random() < 0.5

    def pcfg(dmin=1):
        d = rng.randint(dmin, min(5, nb - 1))
        return (rng.choice([1, 1, 2, 5]), d, rng.random() < 0.5, rng.choice([None, False, False, True]))
    p0 = pcfg()
    u = rng.random()
    if u < 0.04:
        p0 = (p0[0], 0) + p0[2:]                 # rejected: diff_order < 1
    elif u < 0.08:
        p0 = (p0[0], nb + rng.choice([0, 1])) + p0[2:]   # rejected: diff_order >= number of basis functions
    ops = []
    cur = p0

    def rows_of(p):
        pad = max(degree - p[1], 0)
        return (p[1] + 1 + pad) if p[2] else (2 * p[1] + 1 + 2 * pad)
    rows = rows_of(p0) if 1 <= p0[1] < nb else 0
    for _ in range(rng.randint(1, 8)):
        u = rng.random()
        if u < 0.45:
            p = pcfg(dmin=0 if rng.random() < 0.1 else 1)
            ops.append(('preset',) + p)
            cur = p
            rows = rows_of(p)
        elif u < 0.55:
            ops.append(('solve',))
        elif u < 0.62:
            ops.append('rev')
        else:
            op, rows = rand_use(rng, nb, rows, cur[2])
            ops.append(op)
    return hp, n_x, num_knots, degree, p0, ops, rng.randint(0, 10 ** 6)


def order_changes(p0, ops):
    """number of reset_penalty_diagonals calls that change the difference order (non-triviality)."""
    n, d = 0, p0[1]
    for o in ops:
        if o != 'rev' and o[0] == 'preset':
            n += o[2] != d
            d = o[2]
    return n


def pspline_correspondence(ctx):
    rng = ctx.rng
    nP = ctx.n(150, 1500)
    lits = []
    for k in range(nP):
        hp, n_x, num_knots, degree, p0, ops, seed = gen_pspline_history(rng)
        nb = num_knots + degree - 1
        if k < 9:       # the constructor's boundary, always: diff_order 0 / nb - 1 (accepted) / nb / nb + 1
            p0 = (p0[0], [0, nb, nb + 1, nb - 1, nb, 0, nb + 1, nb, nb - 1][k]) + p0[2:]
            if p0[1] == nb - 1:
                ops = [o for o in ops if o == 'rev' or o[0] in ('preset', 'solve')]
        case = {'kind': 'pspline-model', 'hp': hp, 'n_x': n_x, 'num_knots': num_knots, 'degree': degree, 'p0': p0,
                'ops': ops, 'seed': seed}
        try:
            got = impl_pspline_history(hp, n_x, num_knots, degree, p0, ops, seed)
        except Exception as exc:  # noqa
            ctx.fail('pspline-history:raises', f'PSpline history raised {type(exc).__name__}: {exc}', case)
            continue
        ctx.case(('pspline', hp, n_x, num_knots, degree, p0, repr(ops)), nontrivial=order_changes(p0, ops) > 0 and got != 'ValueError',
                 kind='pspline-history' + (':rejected' if got == 'ValueError' else ''))
        exp = 'None' if got == 'ValueError' else f'(Some {coq_obs(got)})'
        ops_l = '[' + '; '.join(coq_pop(o) for o in ops) + ']'
        lits.append(f'({coqbool(hp)}, {nb}%nat, {degree}, {coq_pcfg(p0)}, {ops_l}, {exp})')
        if k == 1:
            ctx.sample(case)
    ctx.traces += len(lits)
    ob = 'correspondence:PSpline-histories(init, reset_penalty_diagonals, solve_pspline, uses)'
    ctx.obligations.append(ob)
    bad_any = False
    per = 150
    for k in range(0, len(lits), per):
        sh = lits[k:k + per]
        text = HEADER + f"""
Definition obs_t : Type := Z * bool * bool * bool * Z * Z * list (list Z) * list (list Z) * list Z * bool.
Definition cases : list (bool * nat * Z * pcfg * list pop * option obs_t) := [
{chr(10).join('  ' + l + (';' if i + 1 < len(sh) else '') for i, l in enumerate(sh))}
].
Definition obs_eqb (a b : obs_t) : bool :=
  let '(d1, l1, r1, p1, n1, m1, o1, q1, g1, a1) := a in
  let '(d2, l2, r2, p2, n2, m2, o2, q2, g2, a2) := b in
  (d1 =? d2) && Bool.eqb l1 l2 && Bool.eqb r1 r2 && Bool.eqb p1 p2 && (n1 =? n2) && (m1 =? m2)
  && zll_eqb o1 o2 && zll_eqb q1 q2 && zl_eqb g1 g2 && Bool.eqb a1 a2.
Definition ok (c : bool * nat * Z * pcfg * list pop * option obs_t) : bool :=
  let '(hp, nb, deg, p0, ops, exp) := c in
  match pinit hp nb deg p0, exp with
  | Some u0, Some e => obs_eqb (uobserve (prun hp nb deg u0 ops)) e
  | None, None => true
  | _, _ => false
  end.
Eval vm_compute in (bad ok cases).
"""
        vals = ctx.coq_eval(f'pspline{k // per}', text)
        if vals is None:
            bad_any = True
        elif not vals or not (vals[0].startswith('(0%nat, [])') or vals[0].startswith('(0, [])')):
            bad_any = True
            ctx.broke(f'correspondence:pspline-shard{k // per}',
                      'model state and PSpline state (settings, original_diagonals, penalty, num_bands, main_diagonal_index, '
                      f'main_diagonal, shares_memory; or constructor rejection) disagree after a PSpline history: {vals}')
    if not bad_any:
        ctx.discharged.append(ob)


def run(ctx):
    ctx.rule = ('cases: (N,d,lower,padding) grid for diff_penalty_diagonals, random integer arrays for the band helpers '
                '(_lower_to_full/_shift_rows/_pad_diagonals/_add_diagonals), random histories (len 1-10) of reconfigurations over '
                '(lam,diff_order,allow_lower,reverse_diags,allow_pentapy,padding; lam = 1 and padding <= 0 over-sampled), '
                'reverse_penalty and USES (add_diagonal, add_penalty, in-place overwrite, re-binding of penalty; integer arguments) '
                'with pentapy present/absent; PSpline histories (constructor incl. rejected orders, reset_penalty_diagonals with changing diff_order, solve_pspline, uses) over spline degrees 1-4 and 3-8 knots; distinct = distinct canonical case; non-trivial = d>0 and N>d for band cases, '
                'at least one (lower,reversed) layout change or one reset after a use for histories; histories WITH REJECTED '
                'requests (lam 0 / negative / a list, diff_order negative, combinations; at every position; asking for another '
                'diff_order / lower / pentapy / reversed layout than the current one; also as the constructor call and as the last '
                'operation) on PenalizedSystem and PSpline, non-trivial = a rejected request asked for a different layout; 2-D systems '
                '(PenalizedSystem2D, WhittakerSystem2D without eigendecomposition, PSpline2D): an ENUMERATED grid of all ordered pairs of 8 '
                'per-axis difference orders (one-axis changes, both axes, none) with a lam change and a lam-only reset behind each, every kind of '
                'rejected request (lam 0 / negative / wrong length, diff_order 0 / negative / wrong length / too large on rows, columns, both) '
                'between accepted ones, plus random histories with in-place add_diagonal / reset_diagonal; non-trivial = a one-axis order change '
                'or a rejected request')
    ctx.trusted += [
        'scipy.sparse D.T @ D + _sparse_to_banded (general path, d>3 or N<2d+1) is modelled as the specification; '
        'dense-checked against np.diff(np.eye(N),d) by the oracle for every generated size',
        'lam restricted to integers in histories (exact float arithmetic); rejected requests are lam = 0, lam < 0, a list as lam, '
        'diff_order < 0 (non-finite or non-numeric lam / padding and non-integer diff_order are TypeError/KeyError territory, not modelled)',
        'tools/gen_band_effects.py classifies what can raise: raise statements, module functions that (transitively) contain raise, '
        '_check* validators, and in methods any other imported function; NumPy functions, array methods, arithmetic and indexing '
        'are taken as not raising on request parameters; branches are flattened in source order',
        'buffer identities in the model (which NumPy operation allocates, which returns a view or its argument) are a hand '
        'transcription; they are tied to the code by comparing np.shares_memory(penalty, original_diagonals) and the contents '
        'after every generated history; SetPen/Clobber are exercised with arrays of the current penalty shape only',
    ]
    ctx.gate()
    ctx.translate(['GenBands', 'GenBandPurity', 'GenBandEffects', 'GenBandEffects2D', 'GenPenaltySites', 'GenBandEvents2D'])
    ok = ctx.build_props()
    correspondence(ctx)
    pspline_correspondence(ctx)
    rejected_correspondence(ctx)
    found2d = systems2d(ctx, ctx.n(60, 600) * (1 if (ok and not ctx.broken) else 3))
    found2d += method_solves(ctx)
    budget = 1 if (ok and not ctx.broken) else 4
    if ctx.tier == 'thorough':
        budget = max(budget, 3)
    found = search(ctx, budget)
    ctx.note(f'direct oracle budget x{budget}: {found} + {found2d} (2-D) failing inputs; general-path sizes in Coq limited to N<{ctx.n(16, 40)}; '
             'PenalizedSystem2D / WhittakerSystem2D (sparse 2-D penalties) are outside the banded model; freshness of results (no caching / sharing between calls) '
             'is a translator refusal rule (GenBandPurity) plus an oracle, not a theorem; requests with diff_order >= data size are '
             'outside the domain of C11 (N > d) and not generated: on the current source reset_diagonals(diff_order >= N, allow_lower=True) '
             'raises IndexError in _update_bands after every attribute was overwritten, and with allow_lower=False it is accepted with a '
             '1-row zero penalty (reported to the lead as an observation, not a failure); 2-D systems: only the penalty / reset history of '
             'PenalizedSystem2D, WhittakerSystem2D(num_eigens=None) and PSpline2D is modelled (sizes up to 6 x 6 basis functions, integer lam, '
             'orders 1-3); the eigendecomposition mode of WhittakerSystem2D belongs to C20 and is not exercised here -- residual outside the '
             'domain N > d, noted not failed: WhittakerSystem2D(..., num_eigens=...).reset_diagonals(lam=2, diff_order=(2, 9)) on 9 columns '
             'raises a broadcasting ValueError after the assignments; add_penalty of the 2-D systems is pinned by the translator but not used '
             'in the histories; method-internal re-use: every public 1-D method with a diff_order parameter is run on the grid '
             'diff_order 1-4 x banded_solver 2-4 (N = 50) and every 2-D one on 7 per-axis orders (11 x 14, with and without '
             'eigendecomposition) with every solve intercepted; exact lam * D_d\'D_d is required for the 21 methods whose documented '
             'penalty is exactly that (and mpspline: lam_smooth then lam), for aspls / drpls / iasls / jbcd and their P-spline versions '
             '(documented modified penalties) only the order and stored diagonals of the solving system; optimizers '
             '(collab_pls, optimize_extended_range, adaptive_minmax, custom_bc inner method) forward method_kwargs and are covered through '
             'the site table only')


def _decode_op(o):
    if o == 'rev':
        return 'rev'
    if isinstance(o[0], str):
        return (o[0], o[1])
    return tuple(o)


def replay(rep):
    case = rep.get('case') or {}
    kind = case.get('kind')
    if kind == 'dpd':
        rows = impl_dpd(case['N'], case['d'], case['lower'], case['pad'])
        err = rows if isinstance(rows, str) else oracle_dpd(case['N'], case['d'], case['lower'], case['pad'], rows)
        print('replay dpd:', err or 'property holds on this input')
        return 1 if err else 0
    if kind == 'history':
        c0 = tuple(case['c0'])
        ops = [_decode_op(o) for o in case['ops']]
        err = history_error(case['hp'], case['N'], c0, ops)
        print('replay history:', err or 'property holds on this input')
        return 1 if err else 0
    if kind == 'rhistory':
        ops = [o if o == 'rev' else list(o) for o in case['ops']]
        e = rhistory_error(case['hp'], case['N'], list(case['r0']), ops)
        print('replay history with rejected requests:', (e[0] + ': ' + e[1]) if e else 'property holds on this input')
        return 1 if e else 0
    if kind == 'method-solve':
        kw, lam_at = method_case(case['method'], case['d'], case['solver'])
        e = method_solve_error(case['method'], case['d'], case['solver'], kw, lam_at)
        print('replay method solve:', (e[0] + ': ' + e[1]) if e else 'property holds on this input')
        return 1 if e else 0
    if kind == 'method-solve-2d':
        class _R2:
            fails = []
            def case(self, *a, **k):
                pass
            def fail(self, key, what, case):
                self.fails.append((key, what, case))
        rc = _R2()
        method_solves_2d(rc)
        hits = [w for k, w, c in rc.fails if c.get('method') == case['method'] and list(np.atleast_1d(c.get('d'))) == list(np.atleast_1d(case['d']))]
        print('replay 2-D method solve:', hits[0] if hits else 'property holds on this input')
        return 1 if hits else 0
    if kind == 'rhistory2d':
        def dec(o):
            return o if o == 'rdiag' else tuple(o)
        e = rhistory2_error(case['system'], case['R'], case['C'], tuple(case['r0']), [dec(o) for o in case['ops']])
        print('replay 2-D history:', (e[0] + ': ' + e[1]) if e else 'property holds on this input')
        return 1 if e else 0
    if kind == 'pspline-rhistory':
        ops = [o if o == 'rev' else list(o) for o in case['ops']]
        e = pspline_rhistory_error(case['hp'], case['n_x'], case['num_knots'], case['degree'], tuple(case['p0']), ops, case['seed'])
        print('replay PSpline history with rejected requests:', (e[0] + ': ' + e[1]) if e else 'property holds on this input')
        return 1 if e else 0
    if kind == 'fresh':
        class _R:
            fails = []
            def case(self, *a, **k):
                pass
            def fail(self, key, what, case):
                self.fails.append((key, what))
        rc = _R()
        fresh_results(rc, 1)
        hits = [w for k, w in rc.fails if k == rep.get('key')]
        print('replay fresh-result oracle:', hits[0] if hits else 'property holds (every constructor returns a new, exact result)')
        return 1 if hits else 0
    if kind == 'pspline-history':
        ops = [tuple(o) for o in case['ops']]
        got = pspline_run(case['n_x'], case['num_knots'], case['degree'], tuple(case['c0']), ops, case['seed'])
        want = pspline_run(case['n_x'], case['num_knots'], case['degree'], tuple(ops[-1][1:]), [], case['seed'])
        print('replay pspline history:', 'differs from fresh PSpline' if got != want else 'property holds on this input')
        return 1 if got != want else 0
    print('replay: nothing concrete to replay; broken obligations were:', rep.get('broken_obligations'))
    return 1
