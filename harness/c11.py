"""C11 -- difference penalty and banded layouts.  See DESIGN.md section 4 / C11."""
import itertools

import numpy as np

from .common import coqbool, zl, zlist2

PROP = 'C11'

HEADER = """From Coq Require Import ZArith List Bool.
From PB Require Import lib.SumZ lib.PySlice lib.Arr lib.CaseUtil C11.DtD C11.Table gen.GenBands C11.Banded.
Import ListNotations.
Open Scope Z_scope.
"""


def _imp():
    from pybaselines import _banded_utils as bu
    return bu


def as_int_rows(a):
    a = np.asarray(a, dtype=float)
    if a.ndim == 1:
        a = a[None, :]
    if not np.all(a == np.round(a)):
        raise ValueError('non-integer band value')
    return [[int(v) for v in row] for row in a]


# ---------------------------------------------------------------- implementation runners
def impl_dpd(N, d, lower, pad):
    bu = _imp()
    try:
        return as_int_rows(bu.diff_penalty_diagonals(N, d, lower, pad))
    except ValueError:
        return 'ValueError'
    except Exception as exc:  # noqa
        return type(exc).__name__


def dense_from_bands(rows, N, d, lower):
    """Independent densifier: LAPACK band storage -> dense symmetric matrix entries it denotes,
    and a flag whether the out-of-matrix corners are all zero."""
    A = np.zeros((N, N))
    corners_zero = True
    for rho, row in enumerate(rows):
        r = rho if lower else rho - d
        for j, v in enumerate(row):
            i = j + r
            if 0 <= i < N:
                A[i, j] = v
                if lower:
                    A[j, i] = v
            elif v != 0:
                corners_zero = False
    return A, corners_zero


def oracle_dpd(N, d, lower, pad, rows):
    """Direct check of the property on the implementation output."""
    D = np.diff(np.eye(N), d, axis=0)
    P = D.T @ D
    nb = d + 1 if lower else 2 * d + 1
    p = max(pad, 0)
    if len(rows) != nb + (p if lower else 2 * p):
        return f'row count {len(rows)}'
    core = rows[:nb] if lower else rows[p:p + nb]
    padrows = rows[nb:] if lower else rows[:p] + rows[p + nb:]
    if any(v != 0 for row in padrows for v in row):
        return 'non-zero padding rows'
    A, cz = dense_from_bands(core, N, d, lower)
    if not cz:
        return 'non-zero corner entries'
    if not np.array_equal(A, P):
        i, j = np.argwhere(A != P)[0]
        return f'entry ({i},{j}) = {A[i, j]} but (D\'D) = {P[i, j]}'
    return None


def cfg_kwargs(c):
    lam, d, al, rev, ap, pad = c
    return dict(lam=lam, diff_order=d, allow_lower=al, reverse_diags=rev, allow_pentapy=ap, padding=pad)


def observe(s):
    return (int(s.diff_order), bool(s.lower), bool(s.reversed), bool(s.using_pentapy),
            int(s.num_bands), int(s.main_diagonal_index),
            as_int_rows(s.original_diagonals), as_int_rows(s.penalty))


def impl_history(hp, N, c0, ops):
    bu = _imp()
    old = bu._HAS_PENTAPY
    bu._HAS_PENTAPY = hp
    try:
        s = bu.PenalizedSystem(N, **cfg_kwargs(c0))
        for op in ops:
            if op == 'rev':
                try:
                    s.reverse_penalty()
                except ValueError:
                    pass
            else:
                s.reset_diagonals(**cfg_kwargs(op))
        return observe(s)
    finally:
        bu._HAS_PENTAPY = old


def impl_fresh(hp, N, c):
    return impl_history(hp, N, c, [])


def apply_revs_fresh(hp, N, c, nrev):
    return impl_history(hp, N, c, ['rev'] * nrev)


# ---------------------------------------------------------------- Coq literals
def coq_cfg(c):
    lam, d, al, rev, ap, pad = c
    r = 'None' if rev is None else f'(Some {coqbool(rev)})'
    return (f'{{| c_lam := {zl(lam)}; c_d := {d}%nat; c_allow_lower := {coqbool(al)}; c_rev := {r}; '
            f'c_allow_penta := {coqbool(ap)}; c_pad := {zl(pad)} |}}')


def coq_obs(o):
    d, lo, rv, pt, nb, mi, orig, pen = o
    return (f'({zl(d)}, {coqbool(lo)}, {coqbool(rv)}, {coqbool(pt)}, {zl(nb)}, {zl(mi)}, '
            f'{zlist2(orig)}, {zlist2(pen)})')


def rand_cfg(rng, N, dmax=6):
    d = rng.choice([0, 1, 1, 2, 2, 2, 3, 3, 4, 5, 6])
    d = min(d, dmax, N - 1)
    return (rng.choice([1, 2, 3, 4, 8]), d, rng.random() < 0.5, rng.choice([None, True, False]),
            rng.random() < 0.5, rng.choice([-1, 0, 0, 1, 2, 3]))


def gen_history(rng, Nmax):
    N = rng.choice([2, 3, 4, 5, 6, 7, 8, 9, 10, 12, 15]) if rng.random() < 0.8 else rng.randint(2, Nmax)
    hp = rng.random() < 0.6
    c0 = rand_cfg(rng, N)
    ops = []
    same_d = rng.random() < 0.7   # stay on one order most of the time so conversions are used
    for _ in range(rng.randint(1, 10)):
        if rng.random() < 0.2:
            ops.append('rev')
        else:
            c = rand_cfg(rng, N)
            if same_d:
                c = (c[0], c0[1]) + c[2:]
            ops.append(c)
    return hp, N, c0, ops


def layout_changes(hp, c0, ops):
    """number of times the (lower, reversed) layout changes along the history (non-triviality)."""
    def lay(c):
        penta = c[4] and hp and c[1] == 2
        lower = c[2] and not penta
        rev = c[3] if c[3] is not None else penta
        return (c[1], lower, rev)
    cur = lay(c0)
    n = 0
    for op in ops:
        if op == 'rev':
            if not cur[1]:
                cur = (cur[0], cur[1], not cur[2])
                n += 1
        else:
            new = lay(op)
            if new != cur and new[0] == cur[0]:
                n += 1
            cur = new
    return n


# ---------------------------------------------------------------- search (direct oracle)
def search(ctx, budget):
    """Looks for a concrete failing input on the implementation."""
    bu = _imp()
    found = 0
    # 1. bands vs dense D'D
    sizes = list(range(1, 31)) + [40, 64, 100, 199, 400]
    if budget > 1:
        sizes = list(range(1, 80)) + [100, 128, 199, 256, 400, 600]
    for d in range(0, 7):
        for N in sizes:
            if N <= d:
                continue
            for lower in (True, False):
                for pad in ((0,) if budget == 1 and N > 12 else (-1, 0, 2)):
                    rows = impl_dpd(N, d, lower, pad)
                    ctx.case(('o-dpd', N, d, lower, pad), nontrivial=d > 0, kind='oracle:dpd')
                    if isinstance(rows, str):
                        ctx.fail(f'dpd:raises:{d}', f'diff_penalty_diagonals({N},{d},{lower},{pad}) raised {rows}',
                                 {'kind': 'dpd', 'N': N, 'd': d, 'lower': lower, 'pad': pad})
                        found += 1
                        continue
                    err = oracle_dpd(N, d, lower, pad, rows)
                    if err:
                        ctx.fail(f'dpd:d={d}:lower={lower}', f'diff_penalty_diagonals({N},{d},lower_only={lower},padding={pad}): {err}',
                                 {'kind': 'dpd', 'N': N, 'd': d, 'lower': lower, 'pad': pad})
                        found += 1
    # 2. public operators
    from pybaselines import utils
    for d in range(0, 7):
        for N in list(range(0, 14)) + [50]:
            try:
                D = utils.difference_matrix(N, d).toarray()
            except Exception as exc:  # noqa
                ctx.fail('difference_matrix:raises', f'utils.difference_matrix({N},{d}) raised {type(exc).__name__}',
                         {'kind': 'diffmat', 'N': N, 'd': d})
                continue
            ref = np.diff(np.eye(N), d, axis=0)
            ctx.case(('o-dm', N, d), nontrivial=d > 0 and N > d, kind='oracle:difference_matrix')
            if D.shape != ref.shape or not np.array_equal(D, ref):
                ctx.fail('difference_matrix:value', f'utils.difference_matrix({N},{d}) != np.diff(np.eye(N), d, axis=0)',
                         {'kind': 'diffmat', 'N': N, 'd': d})
            if N > d:
                P = bu.diff_penalty_matrix(N, d).toarray()
                if not np.array_equal(P, ref.T @ ref):
                    ctx.fail('diff_penalty_matrix:value', f'diff_penalty_matrix({N},{d}) != D\'D',
                             {'kind': 'penmat', 'N': N, 'd': d})
    # 3. histories vs fresh
    nh = 400 * budget
    for k in range(nh):
        hp, N, c0, ops = gen_history(ctx.rng, 40)
        final = [o for o in ops if o != 'rev']
        last = final[-1] if final else c0
        idx = max(i for i, o in enumerate(ops) if o != 'rev') if final else -1
        nrev = sum(1 for o in ops[idx + 1:] if o == 'rev')
        try:
            got = impl_history(hp, N, c0, ops)
            want = apply_revs_fresh(hp, N, last, nrev)
        except Exception as exc:  # noqa
            ctx.fail('history:raises', f'reconfiguration history raised {type(exc).__name__}: {exc}',
                     {'kind': 'history', 'hp': hp, 'N': N, 'c0': c0, 'ops': ops})
            continue
        ctx.case(('o-hist', hp, N, c0, tuple(ops)), nontrivial=layout_changes(hp, c0, ops) > 0,
                 kind='oracle:history')
        if got != want:
            small = shrink_history(hp, N, c0, ops)
            ctx.fail('history:differs-from-fresh',
                     'PenalizedSystem after a reconfiguration history differs from the system built directly '
                     f'with the final settings (N={small[1]}, c0={small[2]}, ops={small[3]})',
                     {'kind': 'history', 'hp': small[0], 'N': small[1], 'c0': small[2], 'ops': small[3]})
            found += 1
    return found


def history_bad(hp, N, c0, ops):
    final = [o for o in ops if o != 'rev']
    last = final[-1] if final else c0
    idx = max(i for i, o in enumerate(ops) if o != 'rev') if final else -1
    nrev = sum(1 for o in ops[idx + 1:] if o == 'rev')
    try:
        return impl_history(hp, N, c0, ops) != apply_revs_fresh(hp, N, last, nrev)
    except Exception:  # noqa
        return True


def shrink_history(hp, N, c0, ops):
    ops = list(ops)
    changed = True
    while changed:
        changed = False
        for i in range(len(ops)):
            trial = ops[:i] + ops[i + 1:]
            if trial and history_bad(hp, N, c0, trial):
                ops = trial
                changed = True
                break
    return hp, N, c0, ops


# ---------------------------------------------------------------- correspondence
def correspondence(ctx):
    rng = ctx.rng
    bu = _imp()
    # A. diff_penalty_diagonals on the (N, d, lower, padding) grid
    cases = []
    bigN = ctx.n([64, 127, 400], [100, 128, 199, 256, 333, 400])
    for d in range(0, 7):
        small = list(range(1, ctx.n(16, 40)))
        for N in small + ([n for n in bigN] if 1 <= d <= 3 else []):
            if N <= d:
                continue   # outside the property's domain (N > d); the implementation raises there
            for lower in (True, False):
                for pad in ((-1, 0, 1, 3) if N <= 9 else (0,)):
                    cases.append((N, d, lower, pad))
    cases += [(0, 1, True, 0), (3, -1, True, 0)]   # rejected inputs
    lits = []
    for (N, d, lower, pad) in cases:
        got = impl_dpd(N, d, lower, pad)
        ctx.case(('dpd', N, d, lower, pad), nontrivial=(d > 0 and N > d), kind=f'dpd:d={d}')
        if d < 0 or N <= 0:
            exp = 'None'
            if got != 'ValueError':
                ctx.fail('dpd:accepts-invalid', f'diff_penalty_diagonals({N},{d}) did not raise ValueError', {'kind': 'dpd', 'N': N, 'd': d, 'lower': lower, 'pad': pad})
            continue
        if isinstance(got, str):
            exp = 'None'
        else:
            exp = f'(Some {zlist2(got)})'
        lits.append(f'({N}%nat, {d}%nat, {coqbool(lower)}, {zl(pad)}, {exp})')
    ctx.sample({'kind': 'dpd-case', 'N': cases[40][0], 'd': cases[40][1], 'lower': cases[40][2], 'padding': cases[40][3]})
    shards = [lits[i::4] for i in range(4)]
    total_bad = 0
    for k, sh in enumerate(shards):
        text = HEADER + f"""
Definition cases : list (nat * nat * bool * Z * option (list (list Z))) := [
{chr(10).join('  ' + l + (';' if i + 1 < len(sh) else '') for i, l in enumerate(sh))}
].
Definition ok (c : nat * nat * bool * Z * option (list (list Z))) : bool :=
  let '(N, d, lower, pad, exp) := c in
  match dpd N d lower pad, exp with
  | DpdOk a, Some e => zll_eqb (tab a) e
  | DpdValueError, None => true
  | _, _ => false
  end.
Eval vm_compute in (bad ok cases).
"""
        vals = ctx.coq_eval(f'dpd{k}', text)
        if vals is None:
            continue
        if not vals or not vals[0].startswith('(0%nat, [])') and not vals[0].startswith('(0, [])'):
            total_bad += 1
            ctx.broke(f'correspondence:dpd-shard{k}', f'model and implementation disagree on diff_penalty_diagonals: {vals}')
    ctx.obligations.append('correspondence:diff_penalty_diagonals')
    if not total_bad and not any(n.startswith('correspondence:dpd') for n, _ in ctx.broken):
        ctx.discharged.append('correspondence:diff_penalty_diagonals')

    # B. _lower_to_full / _shift_rows / _pad_diagonals on random integer arrays
    lits = []
    nB = ctx.n(120, 1200)
    for _ in range(nB):
        R = rng.randint(1, 5)
        C = rng.randint(1, 9)
        a = [[rng.randint(-9, 9) for _ in range(C)] for _ in range(R)]
        kind = rng.choice(['l2f', 'shift', 'pad'])
        arr = np.array(a, dtype=float)
        if kind == 'l2f':
            got = as_int_rows(bu._lower_to_full(arr.copy()))
            lits.append(f'(0, {zlist2(a)}, 0, 0, {zlist2(got)})')
            key = ('l2f', R, C)
        elif kind == 'shift':
            up = rng.randint(0, R)
            lo = rng.randint(0, R - up)
            got = as_int_rows(bu._shift_rows(arr.copy(), up, lo))
            lits.append(f'(1, {zlist2(a)}, {up}, {lo}, {zlist2(got)})')
            key = ('shift', R, C, up, lo)
        else:
            pad = rng.randint(-1, 3)
            lower = rng.random() < 0.5
            got = as_int_rows(bu._pad_diagonals(arr.copy(), pad, lower))
            lits.append(f'(2, {zlist2(a)}, {zl(pad)}, {1 if lower else 0}, {zlist2(got)})')
            key = ('pad', R, C, pad, lower)
        ctx.case(key + (tuple(map(tuple, a)),), nontrivial=True, kind=f'helper:{kind}')
    text = HEADER + f"""
Definition of_rows (l : list (list Z)) : arr :=
  mkarr (Z.of_nat (length l)) (Z.of_nat (length (hd [] l))) (fun r c => nth (Z.to_nat c) (nth (Z.to_nat r) l []) 0).
Definition cases : list (Z * list (list Z) * Z * Z * list (list Z)) := [
{chr(10).join('  ' + l + (';' if i + 1 < len(lits) else '') for i, l in enumerate(lits))}
].
Definition ok (c : Z * list (list Z) * Z * Z * list (list Z)) : bool :=
  let '(kind, a, p, q, exp) := c in
  let res := if kind =? 0 then lower_to_full (of_rows a)
             else if kind =? 1 then shift_rows (of_rows a) p q
             else pad_diagonals (of_rows a) p (q =? 1) in
  zll_eqb (tab res) exp.
Eval vm_compute in (bad ok cases).
"""
    vals = ctx.coq_eval('helpers', text)
    ctx.obligations.append('correspondence:_lower_to_full/_shift_rows/_pad_diagonals')
    if vals is not None:
        if vals and (vals[0].startswith('(0%nat, [])') or vals[0].startswith('(0, [])')):
            ctx.discharged.append('correspondence:_lower_to_full/_shift_rows/_pad_diagonals')
        else:
            ctx.broke('correspondence:helpers', f'model and implementation disagree on band helpers: {vals}')

    # C. reconfiguration histories, compared field by field
    nH = ctx.n(250, 3000)
    lits = []
    nontriv = 0
    for k in range(nH):
        hp, N, c0, ops = gen_history(rng, 24)
        try:
            got = impl_history(hp, N, c0, ops)
        except Exception as exc:  # noqa
            ctx.fail('history:raises', f'reconfiguration history raised {type(exc).__name__}: {exc}',
                     {'kind': 'history', 'hp': hp, 'N': N, 'c0': c0, 'ops': ops})
            continue
        lc = layout_changes(hp, c0, ops)
        nontriv += lc > 0
        ctx.case(('hist', hp, N, c0, tuple(ops)), nontrivial=lc > 0, kind=f'history:len={len(ops)}')
        ops_l = '[' + '; '.join('Reverse' if o == 'rev' else f'Reset {coq_cfg(o)}' for o in ops) + ']'
        lits.append(f'({coqbool(hp)}, {N}%nat, {coq_cfg(c0)}, {ops_l}, {coq_obs(got)})')
        if k < 2:
            ctx.sample({'kind': 'history', 'has_pentapy': hp, 'N': N, 'c0': c0, 'ops': ops})
    ctx.traces += len(lits)
    bad_any = False
    per = 125
    for k in range(0, len(lits), per):
        sh = lits[k:k + per]
        text = HEADER + f"""
Definition cases := [
{chr(10).join('  ' + l + (';' if i + 1 < len(sh) else '') for i, l in enumerate(sh))}
].
Definition obs_eqb (a b : Z * bool * bool * bool * Z * Z * list (list Z) * list (list Z)) : bool :=
  let '(d1, l1, r1, p1, n1, m1, o1, q1) := a in
  let '(d2, l2, r2, p2, n2, m2, o2, q2) := b in
  (d1 =? d2) && Bool.eqb l1 l2 && Bool.eqb r1 r2 && Bool.eqb p1 p2 && (n1 =? n2) && (m1 =? m2)
  && zll_eqb o1 o2 && zll_eqb q1 q2.
Definition ok (c : bool * nat * cfg * list op * (Z * bool * bool * bool * Z * Z * list (list Z) * list (list Z))) : bool :=
  let '(hp, N, c0, ops, exp) := c in
  match reset hp N None c0 with
  | Some s0 => obs_eqb (observe (run hp N s0 ops)) exp
  | None => false
  end.
Eval vm_compute in (bad ok cases).
"""
        vals = ctx.coq_eval(f'hist{k // per}', text)
        if vals is None:
            bad_any = True
        elif not vals or not (vals[0].startswith('(0%nat, [])') or vals[0].startswith('(0, [])')):
            bad_any = True
            ctx.broke(f'correspondence:history-shard{k // per}',
                      f'model state and PenalizedSystem state disagree after a history: {vals}')
    ctx.obligations.append('correspondence:PenalizedSystem-histories')
    if not bad_any:
        ctx.discharged.append('correspondence:PenalizedSystem-histories')


def run(ctx):
    ctx.rule = ('cases: (N,d,lower,padding) grid for diff_penalty_diagonals, random integer arrays for the band helpers, '
                'random reconfiguration histories (len 1-10) over (lam,diff_order,allow_lower,reverse_diags,allow_pentapy,padding) '
                'and reverse_penalty with pentapy present/absent; distinct = distinct canonical case; non-trivial = d>0 and N>d '
                'for band cases, at least one (lower,reversed) layout change for histories')
    ctx.trusted += [
        'scipy.sparse D.T @ D + _sparse_to_banded (general path, d>3 or N<2d+1) is modelled as the specification; '
        'dense-checked against np.diff(np.eye(N),d) by the oracle for every generated size',
        'lam restricted to positive integers in histories (exact float arithmetic); failing resets (lam<=0) not modelled',
    ]
    ctx.gate()
    ctx.translate(['GenBands'])
    ok = ctx.build_props()
    correspondence(ctx)
    budget = 1 if (ok and not ctx.broken) else 4
    if ctx.tier == 'thorough':
        budget = max(budget, 3)
    found = search(ctx, budget)
    ctx.note(f'direct oracle budget x{budget}: {found} failing inputs; general-path sizes in Coq limited to N<{ctx.n(16, 40)}')


def replay(rep):
    case = rep.get('case') or {}
    kind = case.get('kind')
    if kind == 'dpd':
        rows = impl_dpd(case['N'], case['d'], case['lower'], case['pad'])
        err = rows if isinstance(rows, str) else oracle_dpd(case['N'], case['d'], case['lower'], case['pad'], rows)
        print('replay dpd:', err or 'property holds on this input')
        return 1 if err else 0
    if kind == 'history':
        c0 = tuple(case['c0'])
        ops = ['rev' if o == 'rev' else tuple(o) for o in case['ops']]
        bad = history_bad(case['hp'], case['N'], c0, ops)
        print('replay history:', 'differs from fresh system' if bad else 'property holds on this input')
        return 1 if bad else 0
    print('replay: nothing concrete to replay; broken obligations were:', rep.get('broken_obligations'))
    return 1
