"""C14 -- morphological and hull baselines never exceed the data and commute with shifts.
DESIGN.md section 4 / C14.  Flow: gate -> translate (GenSnip) -> build props -> correspondence
(integer model vs scipy.ndimage / tophat, exact; float model vs mor/imor/snip/tophat, bit for bit;
rubberband vertex selection vs the mask) -> direct oracle on the implementation."""
import re
import warnings
from fractions import Fraction

import numpy as np

from .common import hexf, zlist, coqbool

PROP = 'C14'

HEAD_Z = """From Coq Require Import ZArith List Bool.
From PB Require Import lib.CaseUtil C14.Model.
Import ListNotations.
Open Scope Z_scope.
"""
HEAD_F = """From Coq Require Import ZArith List Bool PrimFloat.
From PB Require Import lib.CaseUtil C14.Model C14.Float gen.GenSnip.
Import ListNotations.
Open Scope Z_scope.
"""

KINDS = ['random', 'integer', 'ties', 'plateau', 'mono_inc', 'mono_dec', 'negative', 'peaks', 'constant', 'offset_big', 'tiny']
INT_KINDS = ['integer', 'ties', 'plateau', 'mono_inc', 'mono_dec', 'negative', 'constant']


def gen_data(rng, n, kind):
    if kind == 'random':
        return rng.normal(0, 10, n)
    if kind == 'integer':
        return rng.integers(-20, 21, n).astype(float)
    if kind == 'ties':
        return rng.integers(0, 3, n).astype(float)
    if kind == 'plateau':
        out = []
        while len(out) < n:
            out += [float(rng.integers(-6, 7))] * int(rng.integers(1, 6))
        return np.array(out[:n])
    if kind == 'mono_inc':
        return np.cumsum(rng.integers(0, 4, n)).astype(float) - 5
    if kind == 'mono_dec':
        return -np.cumsum(rng.integers(0, 4, n)).astype(float) + 5
    if kind == 'negative':
        return -rng.integers(1, 40, n).astype(float)
    if kind == 'peaks':
        x = np.arange(n, dtype=float)
        y = 0.02 * x + rng.normal(0, 0.1, n)
        for _ in range(3):
            y += rng.uniform(1, 10) * np.exp(-0.5 * ((x - rng.uniform(0, n)) / rng.uniform(0.5, 1 + n / 10)) ** 2)
        return y
    if kind in ('offset_big', 'tiny'):
        # extreme ratio between the largest value and the depth of the features
        t = np.linspace(0, 1, n)
        feat = rng.uniform(0.3, 1.5) * (t - 0.4) ** 2 + rng.uniform(-1, 1) * t
        for _ in range(3):
            feat = feat + rng.uniform(0.2, 1.0) * np.exp(-0.5 * ((t - rng.uniform(0, 1)) / rng.uniform(0.01, 0.1)) ** 2)
        if kind == 'offset_big':
            return 0.1 * feat + rng.normal(0, 0.01, n) + float(rng.choice([1e5, -1e6, 1e6]))
        return 1e-3 * feat + rng.normal(0, 1e-6, n)
    return np.full(n, float(rng.integers(-3, 4)))


SCALE_KINDS = ['spectro', 'spectro_noise', 'offset', 'largex']


def gen_scale(rng, kind, n):
    """(x, y) whose largest coordinate is 1e5..1e9 times the depth of the convex parts of the lower envelope:
    smooth noise-free shallow-convex backgrounds, x in wavenumbers with y in absorbance, order-one data on an
    offset of 1e5..1e6, unevenly spaced x in large units.  |x| <= 4000 and |offset| <= 1e6 (beyond that qhull's own
    coplanarity tolerance, ~10 eps * max|coordinate|, becomes visible at the 1e-10 level on the unchanged code)."""
    t = np.linspace(0, 1, n)
    peaks = np.zeros(n)
    for _ in range(int(rng.integers(0, 4))):
        peaks += rng.uniform(0.2, 1.0) * np.exp(-0.5 * ((t - rng.uniform(0, 1)) / rng.uniform(0.005, 0.05)) ** 2)
    a, b = rng.uniform(0.3, 1.5), rng.uniform(-1, 1)
    bg = a * (t - rng.uniform(0.2, 0.8)) ** 2 + b * t
    if kind == 'spectro':
        return np.linspace(400, 4000, n), 1e-3 * (bg + peaks)
    if kind == 'spectro_noise':
        return np.linspace(400, 4000, n), 1e-3 * (bg + peaks) + rng.normal(0, 1e-9, n)
    if kind == 'offset':
        return np.linspace(-1, 1, n), 0.1 * (bg + peaks) + float(rng.choice([1e5, -1e5, 1e6, -1e6, 3e5]))
    x = np.sort(rng.uniform(1000, 4000, n) + np.arange(n) * 1e-6)
    tt = (x - 1000) / 3000
    return x, 0.5 * (a * (tt - 0.4) ** 2 + b * tt) + peaks


def flist(fs):
    return '[' + '; '.join(hexf(f) for f in fs) + ']'


def quiet(fn, *a, **k):
    with warnings.catch_warnings():
        warnings.simplefilter('ignore')
        with np.errstate(all='ignore'):
            return fn(*a, **k)


def fitter(x=None):
    from pybaselines import Baseline
    return Baseline(x_data=x)


def fitter2():
    from pybaselines import Baseline2D
    return Baseline2D()


# ------------------------------------------------------------------------------------------------
# evaluation of generated case files

def run_cases(ctx, ob, name, header, typ, okdef, lits, per=300, describe=None):
    """Evaluates `bad ok cases` chunk by chunk; returns True when every case agrees."""
    ctx.obligations.append(ob)
    good = True
    for s in range(0, len(lits), per):
        sh = lits[s:s + per]
        text = header + f"\nDefinition cases : list ({typ}) := [\n" + ';\n'.join('  ' + l for l in sh) + "\n].\n" \
            + okdef + "\nEval vm_compute in (bad ok cases).\n"
        vals = ctx.coq_eval(f'{name}{s // per}', text)
        if vals is None:
            good = False
            continue
        if not vals or not re.match(r'\(0(%nat)?,', vals[0]):
            good = False
            m = re.match(r'\((\d+)(?:%nat)?, \[(.*)\]\)', vals[0]) if vals else None
            idx = [int(t.replace('%nat', '')) for t in (m.group(2).split(';') if m else []) if t.strip()]
            first = (describe(s + idx[0]) if (describe and idx) else '')
            ctx.broke(ob, f'model and implementation disagree on {vals[0] if vals else "?"}; first: {first} '
                          f'literal: {sh[idx[0]][:400] if idx else ""}')
    if good:
        ctx.discharged.append(ob)
    return good


# ------------------------------------------------------------------------------------------------
# correspondence A/B: integer model vs scipy.ndimage as pybaselines calls it, and vs tophat

def corr_operators(ctx):
    from scipy.ndimage import grey_dilation, grey_erosion, grey_opening, grey_closing
    rng = np.random.default_rng(ctx.seed + 1401)
    lits, meta = [], []
    sizes = []
    n_small = ctx.n(140, 700)
    for c in range(n_small):
        n = int(rng.integers(1, 31))
        h = int(rng.choice([1, 2, 3, n // 2, n // 2 + 1, n, n + 3, int(rng.integers(1, 41))]))
        sizes.append((n, max(1, h)))
    big = [(200, 150), (200, 1), (199, 100), (120, 60), (77, 150), (150, 75)]
    rng.shuffle(big)
    sizes += big[:ctx.n(3, 6)]
    for c, (n, h) in enumerate(sizes):
        kind = INT_KINDS[c % len(INT_KINDS)]
        y = gen_data(rng, n, kind)
        w = [2 * h + 1]
        ero, dil, opn, cls = grey_erosion(y, w), grey_dilation(y, w), grey_opening(y, w), grey_closing(y, w)
        top = quiet(fitter().tophat, y, half_window=h)[0]
        if not np.array_equal(top, opn):
            ctx.fail('tophat:not-grey-opening', 'tophat differs from grey_opening(y, [2*half_window+1])',
                     {'kind': 'tophat', 'y': y.tolist(), 'half_window': h})
        lits.append(f'({h}, {zlist(y)}, {zlist(ero)}, {zlist(dil)}, {zlist(top)}, {zlist(cls)})')
        meta.append((n, h, kind))
        ctx.case(('op1d', n, h, kind, y.tobytes()), nontrivial=(n >= 2 and np.ptp(y) > 0), kind=f'corr:op1d:{"window>n" if 2 * h + 1 > n else "window<=n"}')
    ctx.sample({'kind': 'operator-case', 'n': meta[0][0], 'half_window': meta[0][1], 'coq_literal': lits[0][:300]})
    okdef = """Definition ok (c : Z * list Z * list Z * list Z * list Z * list Z) : bool :=
  let '(h, y, e, d, o, cl) := c in
  zl_eqb (erosion_l Z.leb h y) e && zl_eqb (dilation_l Z.leb h y) d && zl_eqb (opening_l Z.leb h y) o
  && zl_eqb (closing_l Z.leb h y) cl."""
    ok1 = run_cases(ctx, 'correspondence:1d-erosion/dilation/opening/closing==scipy.ndimage(reflect)+tophat(exact,integer data)',
                    'op1d', HEAD_Z, 'Z * list Z * list Z * list Z * list Z * list Z', okdef, lits, per=120,
                    describe=lambda i: f'n={meta[i][0]} h={meta[i][1]} {meta[i][2]}')
    # 2-D
    lits, meta = [], []
    for c in range(ctx.n(60, 300)):
        nr, nc = int(rng.integers(2, 9)), int(rng.integers(2, 10))
        hr = int(rng.choice([1, 2, nr, nr + 2, int(rng.integers(1, 7))]))
        hc = int(rng.choice([1, 2, nc, nc + 1, int(rng.integers(1, 7))]))
        kind = INT_KINDS[c % len(INT_KINDS)]
        y = gen_data(rng, nr * nc, kind).reshape(nr, nc)
        w = [2 * hr + 1, 2 * hc + 1]
        ero, dil = grey_erosion(y, w), grey_dilation(y, w)
        top = quiet(fitter2().tophat, y, half_window=[hr, hc])[0]
        if not np.array_equal(top, grey_opening(y, w)):
            ctx.fail('tophat2d:not-grey-opening', '2-D tophat differs from grey_opening(y, 2*half_window+1)',
                     {'kind': 'tophat2d', 'y': y.tolist(), 'half_window': [hr, hc]})
        lits.append(f'({nr}, {nc}, {hr}, {hc}, {zlist(y.ravel())}, {zlist(ero.ravel())}, {zlist(dil.ravel())}, {zlist(top.ravel())})')
        meta.append((nr, nc, hr, hc, kind))
        ctx.case(('op2d', nr, nc, hr, hc, y.tobytes()), nontrivial=(nr * nc >= 2 and np.ptp(y) > 0), kind='corr:op2d')
    okdef = """Definition ok (c : Z * Z * Z * Z * list Z * list Z * list Z * list Z) : bool :=
  let '(nr, nc, hr, hc, y, e, d, o) := c in
  zl_eqb (erosion_g Z.leb nr nc hr hc y) e && zl_eqb (dilation_g Z.leb nr nc hr hc y) d
  && zl_eqb (opening_g Z.leb nr nc hr hc y) o."""
    ok2 = run_cases(ctx, 'correspondence:2d-erosion/dilation/opening==scipy.ndimage(reflect)+Baseline2D.tophat(exact,integer data)',
                    'op2d', HEAD_Z, 'Z * Z * Z * Z * list Z * list Z * list Z * list Z', okdef, lits, per=150,
                    describe=lambda i: str(meta[i]))
    return ok1 and ok2


# ------------------------------------------------------------------------------------------------
# correspondence C: float instance of the same model vs the methods, bit for bit

class CapturePad:
    """Records the padded array Baseline.snip works on (the output of _setup_smooth)."""

    def __enter__(self):
        from pybaselines._algorithm_setup import _Algorithm
        self.cls = _Algorithm
        self.orig = _Algorithm._setup_smooth
        self.rec = []
        rec, orig = self.rec, self.orig

        def wrapper(this, *a, **k):
            out = orig(this, *a, **k)
            rec.append(np.array(out[0], dtype=float, copy=True))
            return out
        _Algorithm._setup_smooth = wrapper
        return self

    def __exit__(self, *a):
        self.cls._setup_smooth = self.orig


PAD_KW = [None, {'mode': 'edge'}, {'extrapolate_window': 1}, {'mode': 'reflect'}, {'extrapolate_window': 3}]


def _method_case(ctx, rng, c, lits, meta):
    tag = c % 6
    kind = KINDS[(c // 6) % len(KINDS)]
    if tag in (0, 1, 2):
        n = int(rng.integers(1, 41))
        h = int(rng.choice([1, 2, 3, n // 2 + 1, n + 2, int(rng.integers(1, 25))]))
        h = max(1, h)
        y = gen_data(rng, n, kind)
        if tag == 0:
            got = quiet(fitter().tophat, y, half_window=h)[0]
            lits.append(f'(0, [{h}], {flist(y)}, {flist(got)})')
        elif tag == 1:
            got = quiet(fitter().mor, y, half_window=h)[0]
            lits.append(f'(1, [{h}], {flist(y)}, {flist(got)})')
        else:
            max_iter = int(rng.choice([0, 1, 3, 8]))
            tol = float(rng.choice([1e-3, 1e-3, 0.3, -1.0]))
            got, params = quiet(fitter().imor, y, half_window=h, tol=tol, max_iter=max_iter)
            hist = params['tol_history']
            exited = bool(hist[-1] < tol)
            stop_at = len(hist) - 1 if exited else -1
            if not exited and len(hist) != max_iter + 1:
                ctx.fail('imor:passes', 'imor did not run max_iter + 1 passes without meeting tol',
                         {'kind': 'imor', 'y': y.tolist(), 'half_window': h, 'tol': tol, 'max_iter': max_iter})
            lits.append(f'(2, [{h}; {max_iter}; {stop_at}], {flist(y)}, {flist(got)})')
        meta.append((('tophat', 'mor', 'imor')[tag], n, h, kind))
        ctx.case((tag, n, h, kind, y.tobytes()), nontrivial=(n >= 2 and np.ptp(y) > 0), kind=f'corr:float:{meta[-1][0]}')
    elif tag in (3, 4):
        n = int(rng.integers(3, 41))
        cap = (n - 1) // 2
        hwl = int(rng.choice([1, 2, cap, cap + 3, int(rng.integers(1, 2 * cap + 2))]))
        hwr = hwl if rng.random() < 0.5 else int(rng.integers(1, 2 * cap + 2))
        hwl, hwr = max(1, hwl), max(1, hwr)
        order = int(rng.choice([2, 4, 6, 8]))
        dec = bool(rng.integers(0, 2))
        pk = PAD_KW[int(rng.integers(0, len(PAD_KW)))]
        y = gen_data(rng, n, kind)
        with CapturePad() as cp:
            got = quiet(fitter().snip, y, max_half_window=[hwl, hwr], decreasing=dec, filter_order=order, pad_kwargs=pk)[0]
        if len(cp.rec) != 1:
            ctx.broke('correspondence:snip-capture', f'_setup_smooth called {len(cp.rec)} times by snip')
            return
        padded = cp.rec[0]
        lits.append(f'(3, [{order}; {1 if dec else 0}; {n}; {hwl}; {hwr}], {flist(padded)}, {flist(got)})')
        meta.append(('snip', n, (hwl, hwr, order, dec), kind))
        ctx.case((3, n, hwl, hwr, order, dec, y.tobytes()), nontrivial=(np.ptp(y) > 0), kind=f'corr:float:snip:order{order}:{"dec" if dec else "inc"}')
    else:
        nr, nc = int(rng.integers(2, 7)), int(rng.integers(2, 8))
        hr, hc = int(rng.integers(1, 5)), int(rng.integers(1, 5))
        y = gen_data(rng, nr * nc, kind).reshape(nr, nc)
        if (c // 6) % 2:
            got = quiet(fitter2().mor, y, half_window=[hr, hc])[0]
            lits.append(f'(5, [{nr}; {nc}; {hr}; {hc}], {flist(y.ravel())}, {flist(got.ravel())})')
            meta.append(('mor2d', (nr, nc), (hr, hc), kind))
        else:
            # one imor pass: max_iter = 0, tol < 0 never exits -> baseline = min(y, avg_opening(y))
            got = quiet(fitter2().imor, y, half_window=[hr, hc], tol=-1.0, max_iter=0)[0]
            lits.append(f'(6, [{nr}; {nc}; {hr}; {hc}], {flist(y.ravel())}, {flist(got.ravel())})')
            meta.append(('imor2d-pass', (nr, nc), (hr, hc), kind))
        ctx.case((5, nr, nc, hr, hc, y.tobytes()), nontrivial=(nr * nc >= 2 and np.ptp(y) > 0), kind=f'corr:float:{meta[-1][0]}')


def corr_methods(ctx):
    rng = np.random.default_rng(ctx.seed + 1402)
    lits, meta = [], []
    ncase = ctx.n(150, 900)
    raised = 0
    for c in range(ncase):
        n_before = len(lits)
        try:
            _method_case(ctx, rng, c, lits, meta)
        except Exception as e:
            del lits[n_before:]
            del meta[n_before:]
            raised += 1
            ctx.broke('correspondence:method-call-raised',
                      f'case {c} (tag {c % 6}): the implementation raised {type(e).__name__}: {e} on valid arguments '
                      f'where the model returns a value')
    if len(lits) < 4:
        return False
    ctx.sample({'kind': 'method-case', 'what': str(meta[3]), 'coq_literal': lits[3][:300]})
    okdef = """Definition par (ps : list Z) (i : nat) : Z := nth i ps 0.
Definition ok (c : Z * list Z * list float * list float) : bool :=
  let '(tag, ps, y, exp) := c in
  match tag with
  | 0 => fl_eqb (tophat Num_F (par ps 0) y) exp
  | 1 => fl_eqb (mor Num_F (par ps 0) y) exp
  | 2 => fl_eqb (imor Num_F (fun i _ _ => Z.of_nat i =? par ps 2) (par ps 0) (Z.to_nat (par ps 1)) y) exp
  | 3 => fl_eqb (snip Num_F snip_table (par ps 0) (par ps 1 =? 1) (par ps 2) (par ps 3) (par ps 4) y) exp
  | 5 => fl_eqb (mor2 Num_F (par ps 0) (par ps 1) (par ps 2) (par ps 3) y) exp
  | 6 => fl_eqb (imor_step2 Num_F (par ps 0) (par ps 1) (par ps 2) (par ps 3) y y) exp
  | _ => false
  end."""
    return run_cases(ctx, 'correspondence:float-model==tophat/mor/imor/snip(all orders,directions,asymmetric windows,5 paddings)/2-D mor,imor (bit for bit)',
                     'meth', HEAD_F, 'Z * list Z * list float * list float', okdef, lits, per=300,
                     describe=lambda i: str(meta[i]))


# ------------------------------------------------------------------------------------------------
# correspondence D: rubberband vertex selection vs the returned mask (qhull output captured)

class CaptureHull:
    def __enter__(self):
        import pybaselines.classification as C
        self.mod = C
        self.orig = C.ConvexHull
        self.rec = []
        self.points = []
        rec, orig = self.rec, self.orig

        def wrapper(points, *a, **k):
            hull = orig(points, *a, **k)
            rec.append([int(v) for v in hull.vertices])
            self.points.append(np.array(points, dtype=float, copy=True))
            return hull
        C.ConvexHull = wrapper
        return self

    def __exit__(self, *a):
        self.mod.ConvexHull = self.orig


def gen_x(rng, n, kind):
    if kind == 'uniform':
        return np.linspace(-1, 1, n)
    if kind == 'integer':
        return np.cumsum(rng.integers(1, 4, n)).astype(float)
    return np.sort(rng.uniform(0, 100, n) + np.arange(n) * 1e-3)


def affine_image(pts, x, y):
    """True when pts[:, 0] / pts[:, 1] are increasing affine images of x / y (the hull of such points has the same
    lower vertices as the hull of (x, y): C14_rubberband_affine_invariant)."""
    pts = np.asarray(pts, dtype=float)
    if pts.shape != (len(x), 2):
        return False
    eps = float(np.finfo(float).eps)
    for col, v in ((pts[:, 0], np.asarray(x, dtype=float)), (pts[:, 1], np.asarray(y, dtype=float))):
        lo, hi = int(np.argmin(v)), int(np.argmax(v))
        if v[hi] == v[lo]:
            if np.ptp(col) != 0:
                return False
            continue
        a = (col[hi] - col[lo]) / (v[hi] - v[lo])
        if not (a > 0):
            return False
        dev = np.max(np.abs(col - (col[lo] + a * (v - v[lo]))))
        if dev > 1e-6 * np.ptp(col) + 256 * eps * a * float(np.max(np.abs(v))):
            return False
    return True


RB_K = 1000.0      # rubberband tolerance in calibrated units (unchanged code: < 30)
ASPECT_X = ['uniform', 'random', 'neargap_first', 'neargap_last']


def gen_aspect(rng, n=None):
    """(x, y, meta): x-extent 1e-12..1e12, amplitude 1e-9..1e8, offsets of a few extents / amplitudes, evenly spaced,
    random, or with a first / last gap 1e-13..1e-9 of the extent below a raised end point (near-vertical end edges)."""
    if n is None:
        n = int(rng.choice([12, 50, 300, 1000, 1000, 5000]))
    xr = 10.0 ** rng.uniform(-12, 12)
    amp = 10.0 ** rng.uniform(-9, 8)
    xk = ASPECT_X[int(rng.integers(0, len(ASPECT_X)))]
    if xk == 'uniform':
        u = np.linspace(0, 1, n)
    else:
        u = np.sort(rng.uniform(0, 1, n))
        u = (u - u[0]) / (u[-1] - u[0])
        if np.any(np.diff(u) <= 0):
            u = np.linspace(0, 1, n)
    if xk == 'neargap_first':
        u[1:] = u[1:] * (1 - 1e-3) + 1e-3
        u[1] = 10.0 ** rng.uniform(-13, -9)
    elif xk == 'neargap_last':
        u[:-1] = u[:-1] * (1 - 1e-3)
        u[-2] = 1 - 10.0 ** rng.uniform(-13, -9)
    x = float(rng.choice([0.0, 1.0, -0.5, 5.0, 10.0])) * xr + xr * u
    t = u
    feat = rng.uniform(0.3, 1.5) * (t - rng.uniform(0.2, 0.8)) ** 2 + rng.uniform(-1, 1) * t
    for _ in range(int(rng.integers(0, 4))):
        feat = feat + rng.uniform(0.2, 1.0) * np.exp(-0.5 * ((t - rng.uniform(0, 1)) / rng.uniform(0.005, 0.05)) ** 2)
    if rng.random() < 0.5:
        feat = feat + rng.normal(0, 1e-3, n)
    if xk == 'neargap_first':
        feat[0] += rng.uniform(1, 20)
    elif xk == 'neargap_last':
        feat[-1] += rng.uniform(1, 20)
    y = amp * (feat + float(rng.choice([0.0, 0.0, 3.0, -2.0, 50.0])))
    if np.any(np.diff(x) <= 0):
        x = float(x[0]) + xr * np.linspace(0, 1, n)
    shift = amp * float(rng.choice([1.0, -3.0, 100.0, 1e4]))
    return x, y, {'xkind': xk, 'x_extent': xr, 'amplitude': amp, 'shift': shift}


def badly_scaled_witness():
    """The input on which rubberband was not the lower hull before /repo 0f85b1f (Qhull merged points: max|y| / x-extent
    ~ 1e12): x in metres over 40 nm, y of size 6e4.  Deterministic."""
    n = 1000
    t = np.linspace(0, 1, n)
    x = np.linspace(4e-7, 4.4e-7, n)
    y = 6e4 * (0.5 + 0.8 * (t - 0.45) ** 2 + 0.3 * t + 0.6 * np.exp(-0.5 * ((t - 0.3) / 0.02) ** 2)
               + 0.4 * np.exp(-0.5 * ((t - 0.7) / 0.04) ** 2) + 0.01 * np.sin(37 * t))
    return {'method': 'rubberband', 'y': y.tolist(), 'x': x.tolist(), 'shift': 1.0e4, 'data': 'badly-scaled-witness',
            'xkind': 'metres', 'aspect': True}


def corr_rubberband(ctx):
    rng = np.random.default_rng(ctx.seed + 1403)
    lits = []
    pts_ok = True
    ob_pts = 'correspondence:rubberband-qhull-input==increasing-affine-image-per-axis-of-column_stack((x,y))'
    ctx.obligations.append(ob_pts)
    for c in range(ctx.n(60, 300)):
        n = int(rng.integers(3, 60))
        segs = 1 if c % 3 else int(rng.integers(1, max(2, n // 3 + 1)))
        kind = KINDS[c % len(KINDS)]
        y = gen_data(rng, n, kind)
        x = gen_x(rng, n, ['uniform', 'integer', 'random'][c % 3])
        try:
            with CaptureHull() as ch:
                base, params = quiet(fitter(x).rubberband, y, segments=segs)
        except Exception:
            ctx.case(('rb', c), nontrivial=False, kind='corr:rubberband:exception')
            continue
        edges = np.linspace(0, n, segs + 1, dtype=np.intp)
        if len(ch.rec) != segs:
            ctx.broke('correspondence:rubberband-capture', f'{len(ch.rec)} hulls for {segs} segments')
            continue
        for i, pts in enumerate(ch.points):
            if not affine_image(pts, x[edges[i]:edges[i + 1]], y[edges[i]:edges[i + 1]]):
                pts_ok = False
                ctx.fail('rubberband:hull-points', 'rubberband hands qhull points that are not (an increasing affine image per axis of) '
                         'column_stack((x, y)) of the segment (the hull of other points is not the hull of the data)',
                         {'method': 'rubberband', 'y': y.tolist(), 'x': x.tolist(), 'shift': 1.0, 'segments': segs})
        mask = np.flatnonzero(params['mask'])
        segl = '[' + '; '.join(f'({int(edges[i])}, {zlist(v)})' for i, v in enumerate(ch.rec)) + ']'
        lits.append(f'({segl}, {zlist(mask)})')
        ctx.case(('rb', n, segs, y.tobytes(), x.tobytes()), nontrivial=len(ch.rec[0]) >= 3, kind='corr:rubberband-selection')
    okdef = """Definition subset (a b : list Z) : bool := forallb (fun x => existsb (Z.eqb x) b) a.
Definition ok (c : list (Z * list Z) * list Z) : bool :=
  let '(segs, mask) := c in
  let sel := flat_map (fun ov => map (Z.add (fst ov)) (rb_select_off rb_max_offset (snd ov))) segs in
  subset sel mask && subset mask sel."""
    if pts_ok:
        ctx.discharged.append(ob_pts)
    else:
        ctx.broke(ob_pts, 'the point array handed to ConvexHull differs from column_stack((x, y))')
    return run_cases(ctx, 'correspondence:rubberband-vertex-selection==mask(qhull vertices captured)',
                     'rb', HEAD_Z.replace('C14.Model.', 'C14.Model gen.GenRubber.'), 'list (Z * list Z) * list Z', okdef, lits, per=400)


# ------------------------------------------------------------------------------------------------
# correspondence E (appended cells): the cast model of C14/Cast.v vs the wrapper's cast back to the input dtype

CAST_CELLS = [(dt, [0, 0, 0, 1, 0], 'snip', {'max_half_window': 2}) for dt in ('uint8', 'uint16', 'uint32', 'uint64')] + [
    ('int8', [-128, -128, -128, -127, -128], 'snip', {'max_half_window': 2}),
    ('int16', [-2 ** 15, -2 ** 15, -2 ** 15, -2 ** 15 + 1, -2 ** 15], 'snip', {'max_half_window': 2}),
    ('int64', [2, 0, -1, -2], 'rubberband', {}),
] + [(dt, [3, 1, 4, 1, 5, 9, 2, 6], 'snip', {'max_half_window': 2, 'filter_order': 4})
     for dt in ('uint8', 'int8', 'uint16', 'int16', 'uint32', 'int32', 'uint64', 'int64')] + [
    (dt, [-3, 1, -4, 1, -5, 9, -2, 6], 'snip', {'max_half_window': 3}) for dt in ('int8', 'int16', 'int32', 'int64')] + [
    (dt, [-3, 1, -4, 1, -5, 9, -2, 6], 'mor', {'half_window': 1}) for dt in ('int8', 'int32')]


def corr_cast(ctx):
    lits = []
    for dtn, vals, meth, kw in CAST_CELLS:
        dt = np.dtype(dtn)
        y = np.array(vals, dtype=dt)
        got = np.asarray(quiet(getattr(fitter(), meth), y, **kw)[0])
        fb = np.asarray(quiet(getattr(fitter(), meth), y.astype(float), **kw)[0])
        qs = []
        for v in fb:
            fr = Fraction(float(v))
            qs.append(f'(({fr.numerator}) # {fr.denominator})%Q')
        lits.append(f'({coqbool(dt.kind == "i")}, {8 * dt.itemsize}, [{"; ".join(qs)}], {zlist([int(v) for v in got])})')
        ctx.case(('cast', dtn, meth, tuple(vals)), nontrivial=True, kind=f'corr:cast:{dtype_class(dt)}')
    okdef = """Definition ok (c : bool * Z * list Q * list Z) : bool :=
  let '(signed, w, bs, exp) := c in
  zl_eqb (map (fun b => if signed then cast_s w b else cast_u w b) bs) exp."""
    head = """From Coq Require Import ZArith List Bool QArith.
From PB Require Import lib.CaseUtil C14.Cast.
Import ListNotations.
Open Scope Z_scope.
"""
    return run_cases(ctx, 'correspondence:cast-model(truncate towards zero, wrap mod 2^w)==returned integer baseline(enumerated cells)',
                     'cast', head, 'bool * Z * list Q * list Z', okdef, lits, per=100)


# ------------------------------------------------------------------------------------------------
# direct oracle on the implementation

def lower_hull(x, y):
    """Indices of the strict lower convex hull (Andrew's monotone chain, exact rationals)."""
    pts = [(Fraction(float(a)), Fraction(float(b))) for a, b in zip(x, y)]
    hull = []
    for i, p in enumerate(pts):
        while len(hull) >= 2:
            o, a = pts[hull[-2]], pts[hull[-1]]
            if (a[0] - o[0]) * (p[1] - o[1]) - (a[1] - o[1]) * (p[0] - o[0]) <= 0:
                hull.pop()
            else:
                break
        hull.append(i)
    return hull


def check_le(ctx, key, what, base, y, case):
    base = np.asarray(base)
    if base.shape != np.shape(y):
        ctx.fail(key + ':shape', f'{what}: baseline shape {base.shape} differs from the data shape {np.shape(y)}', case)
        return False
    if not np.all(base <= y):
        k = int(np.argmax(base - y))
        ctx.fail(key, f'{what}: baseline exceeds the data (max excess {float(np.max(base - y)):.6g} at flat index {k})', case)
        return False
    return True


def oracle_one(ctx, case):
    """Evaluates every C14 statement applicable to `case` on the implementation; returns #failures."""
    before = len(ctx.violations) + len(ctx.known_hit)
    meth = case['method']
    y = np.array(case['y'], dtype=float)
    c = float(case.get('shift', 0.0))
    scale = float(np.max(np.abs(y))) + abs(c) + 1.0
    if meth in ('tophat', 'mor', 'imor'):
        h = case['half_window']
        two_d = y.ndim == 2
        f = fitter2() if two_d else fitter()
        dim = '2d' if two_d else '1d'
        kw = {'half_window': h}
        if meth == 'imor':
            kw.update(tol=case.get('tol', 1e-3), max_iter=case.get('max_iter', 200))
        base = quiet(getattr(f, meth), y, **kw)[0]
        check_le(ctx, f'le:{meth}:{dim}', f'{meth} ({dim}, half_window={h})', base, y, case)
        if meth == 'tophat':
            again = quiet(f.tophat, base, half_window=h)[0]
            if not np.array_equal(again, base):
                ctx.fail(f'idem:tophat:{dim}', f'tophat ({dim}, half_window={h}) applied to its own output changes it '
                         f'(max change {float(np.max(np.abs(again - base))):.6g})', case)
            shifted = quiet(f.tophat, y + c, half_window=h)[0]
            # bit-exact: the opening returns data values and x -> fl(x + c) is monotone (C14_monotone_commute)
            if not np.all(np.isin(base, y)):
                ctx.fail(f'values:tophat:{dim}', f'tophat ({dim}) returned a value that is not a data value', case)
            if not np.array_equal(shifted, base + c):
                ctx.fail(f'shift:tophat:{dim}', f'tophat ({dim}, half_window={h}): tophat(y + c) differs bit-for-bit from '
                         f'fl(tophat(y) + c), c={c!r} (max diff {float(np.max(np.abs(shifted - (base + c)))):.6g})', case)
        elif meth == 'mor':
            shifted = quiet(f.mor, y + c, half_window=h)[0]
            if not np.allclose(shifted, base + c, rtol=0, atol=1e-12 * scale):
                ctx.fail(f'shift:mor:{dim}', f'mor ({dim}, half_window={h}): mor(y + c) != mor(y) + c, c={c!r} '
                         f'(max diff {float(np.max(np.abs(shifted - base - c))):.6g})', case)
    elif meth == 'snip':
        kw = dict(max_half_window=case['max_half_window'], decreasing=case['decreasing'],
                  filter_order=case['filter_order'], pad_kwargs=case.get('pad_kwargs'))
        base = quiet(fitter().snip, y, **kw)[0]
        tagk = f'order{case["filter_order"]}:{"dec" if case["decreasing"] else "inc"}'
        check_le(ctx, f'le:snip:{tagk}', f'snip ({kw})', base, y, case)
        shifted = quiet(fitter().snip, y + c, **kw)[0]
        if base.shape == shifted.shape and not np.allclose(shifted, base + c, rtol=0, atol=1e-10 * scale):
            ctx.fail(f'shift:snip:{tagk}', f'snip ({kw}): snip(y + c) != snip(y) + c, c={c!r} '
                     f'(max diff {float(np.max(np.abs(shifted - base - c))):.6g})', case)
    elif meth == 'rubberband':
        x = np.array(case['x'], dtype=float)
        with CaptureHull() as ch:
            base, params = quiet(fitter(x).rubberband, y, segments=case.get('segments', 1))
        if case.get('segments', 1) == 1 and (len(ch.points) != 1 or not affine_image(ch.points[0], x, y)):
            ctx.fail('rubberband:hull-points', 'rubberband hands qhull points that are not an increasing affine image per axis of column_stack((x, y))', case)
        if case.get('segments', 1) != 1:
            return len(ctx.violations) + len(ctx.known_hit) - before
        mask = np.asarray(params['mask'])
        if base.shape != y.shape:
            ctx.fail('rubberband:shape', 'rubberband: baseline shape differs from the data', case)
            return 1
        # Calibrated, per-point tolerance.  qhull works on coordinates scaled to [0,1] and treats points within ~10 eps of
        # a facet (perpendicular distance) as coplanar; the vertical deviation that allows at a point is that distance times
        # (1 + |scaled slope|) of the hull segments around the point, times the data range.  Rounding of the data itself
        # (interp, y + c, the scaling) adds eps * max|y| and, through the slope, eps * max|x| / x-extent.  K = 1000 such units
        # (measured on the unchanged code: see the calibration note in the report; joggle / merge effects are >= 3e4 units).
        hull = lower_hull(x, y)
        ref = np.interp(x, x[hull], y[hull])
        eps = float(np.finfo(float).eps)
        xr = float(x[-1] - x[0])
        yr = float(np.ptp(y))
        hx, hy = x[hull], y[hull]
        if len(hull) > 1 and yr > 0:
            sseg = np.abs(np.diff(hy) / yr) / (np.diff(hx) / xr)
            spad = np.concatenate(([sseg[0]], sseg, [sseg[-1]]))
            sloc = np.maximum(np.maximum(spad[:-2], spad[1:-1]), spad[2:])        # per segment, with both neighbours
            seg_of = np.clip(np.searchsorted(np.asarray(hull), np.arange(len(x)), side='right') - 1, 0, len(sseg) - 1)
            s_k = sloc[seg_of]
        else:
            s_k = np.zeros(len(x))
        xfac = float(np.max(np.abs(x))) / xr
        ymax = float(np.max(np.abs(y)))
        tol = RB_K * eps * ((ymax + yr) * (1 + s_k) + s_k * yr * xfac)
        tol_s = RB_K * eps * ((ymax + float(np.max(np.abs(y + c))) + yr) * (1 + s_k) + s_k * yr * xfac)
        aspect = bool(case.get('aspect'))
        hkey = 'rubberband:badly-scaled:hull-vertices' if aspect else 'rubberband:hull'
        bkey = 'rubberband:badly-scaled:below' if aspect else 'rubberband:below'
        if np.any(base > y + tol):
            k = int(np.argmax((base - y) / np.maximum(tol, 1e-300)))
            ctx.fail(bkey, f'rubberband baseline exceeds the data by {float(base[k] - y[k]):.6g} at index {k} '
                     f'({float((base[k] - y[k]) / yr) if yr else 0:.3g} of the data range; tolerance {float(tol[k]):.3g})', case)
        if not np.array_equal(base[mask], y[mask]):
            ctx.fail('rubberband:touch', 'rubberband baseline does not pass through its hull vertices', case)
        if not (mask[0] and mask[-1]):
            ctx.fail('rubberband:ends', 'rubberband mask misses the first or last point (always vertices of the lower hull)', case)
        idx = np.flatnonzero(mask)
        if len(idx) >= 3:
            # convexity of the kept vertices, decided exactly (the data are exact binary rationals)
            P = [(Fraction(float(x[i])), Fraction(float(y[i]))) for i in idx]
            bad = [int(idx[j + 1]) for j in range(len(P) - 2)
                   if (P[j + 1][0] - P[j][0]) * (P[j + 2][1] - P[j + 1][1]) - (P[j + 2][0] - P[j + 1][0]) * (P[j + 1][1] - P[j][1]) < 0]
            # a reflex kept vertex must be within the tolerance of the hull (qhull keeps nearly-coplanar points)
            bad = [i for i in bad if y[i] - ref[i] > tol[i]]
            if bad:
                ctx.fail('rubberband:convex', f'rubberband baseline is not convex at kept vertices {bad[:5]}', case)
        dev = np.abs(base - ref)
        if np.any(dev > tol):
            k = int(np.argmax(dev / np.maximum(tol, 1e-300)))
            ctx.fail(hkey, f'rubberband baseline differs from the lower convex hull computed in exact rationals by {float(dev[k]):.6g} '
                     f'at index {k} ({float(dev[k] / yr) if yr else 0:.3g} of the data range; tolerance {float(tol[k]):.3g}); '
                     f'{int(mask.sum())} kept vertices, exact hull has {len(hull)}', case)
        shifted = quiet(fitter(x).rubberband, y + c)[0]
        dev = np.abs(shifted - base - c)
        if np.any(dev > tol_s):
            k = int(np.argmax(dev / np.maximum(tol_s, 1e-300)))
            ctx.fail('rubberband:badly-scaled:shift' if aspect else 'rubberband:shift',
                     f'rubberband(y + c) != rubberband(y) + c, c={c!r} (diff {float(dev[k]):.6g} at index {k}, tolerance {float(tol_s[k]):.3g})', case)
    return len(ctx.violations) + len(ctx.known_hit) - before


def oracle(ctx, budget):
    rng = np.random.default_rng(ctx.seed + 1404)
    ncase = 260 * budget
    exc = 0
    # fixed replayed input: rubberband was not the lower hull on it before /repo 0f85b1f
    wit = badly_scaled_witness()
    try:
        oracle_one(ctx, wit)
        ctx.case(('oracle', 'witness', 'badly-scaled'), nontrivial=True, kind='oracle:rubberband:badly-scaled-witness')
    except Exception as e:
        ctx.fail('rubberband:badly-scaled:raised', f'rubberband raised {type(e).__name__}: {e} on x = linspace(4e-7, 4.4e-7, 1000), y ~ 6e4', wit)
    for cidx in range(ncase):
        kind = KINDS[cidx % len(KINDS)]
        slot = (cidx // len(KINDS)) % 8
        shift = float(rng.choice([1.0, -3.0, 0.1, 1e6 / 7, -123.456, 1e6, -1e6, float(rng.normal(0, 100))]))
        if slot in (0, 1, 2):
            meth = ('tophat', 'mor', 'imor')[slot]
            n = int(rng.choice([1, 2, 3, 5, 8, 13, 30, 64, 151]))
            h = max(1, int(rng.choice([1, 2, 3, n // 2, n // 2 + 1, n, 2 * n + 1, int(rng.integers(1, 40))])))
            case = {'method': meth, 'y': gen_data(rng, n, kind).tolist(), 'half_window': h, 'shift': shift, 'data': kind}
            if meth == 'imor':
                case.update(tol=float(rng.choice([1e-3, 1e-6, 0.2])), max_iter=int(rng.choice([0, 1, 5, 50])))
            nontriv = n >= 2
            label = f'oracle:{meth}:1d:{"window>n" if 2 * h + 1 > n else "window<=n"}'
        elif slot == 3:
            meth = ('tophat', 'mor', 'imor')[cidx % 3]
            nr, nc = int(rng.integers(2, 12)), int(rng.integers(2, 12))
            hw = [max(1, int(rng.choice([1, 2, nr, nr + 3]))), max(1, int(rng.choice([1, 3, nc // 2 + 1, 2 * nc])))]
            case = {'method': meth, 'y': gen_data(rng, nr * nc, kind).reshape(nr, nc).tolist(), 'half_window': hw,
                    'shift': shift, 'data': kind}
            if meth == 'imor':
                case.update(tol=1e-3, max_iter=int(rng.choice([0, 3, 20])))
            nontriv = nr * nc >= 2
            label = f'oracle:{meth}:2d'
        elif slot in (4, 5, 6):
            n = int(rng.choice([3, 4, 5, 8, 13, 30, 64, 151]))
            cap = (n - 1) // 2
            hw = int(rng.choice([1, 2, cap, cap + 1, 3 * cap + 2, int(rng.integers(1, cap + 2))]))
            mhw = max(1, hw) if rng.random() < 0.6 else [max(1, hw), int(rng.integers(1, 2 * cap + 3))]
            case = {'method': 'snip', 'y': gen_data(rng, n, kind).tolist(), 'max_half_window': mhw,
                    'decreasing': bool(rng.integers(0, 2)), 'filter_order': int(rng.choice([2, 4, 6, 8])),
                    'pad_kwargs': PAD_KW[int(rng.integers(0, len(PAD_KW)))], 'shift': shift, 'data': kind}
            nontriv = True
            label = f'oracle:snip:order{case["filter_order"]}:{"dec" if case["decreasing"] else "inc"}'
        elif cidx % 3 == 0:
            # aspect-ratio stress: x-extent and amplitude across 24 / 17 decades, near-vertical end edges, N up to 5000
            xs_, ys_, meta = gen_aspect(rng)
            case = {'method': 'rubberband', 'y': ys_.tolist(), 'x': xs_.tolist(), 'shift': meta['shift'],
                    'data': 'aspect', 'xkind': meta['xkind'], 'x_extent': meta['x_extent'], 'amplitude': meta['amplitude'],
                    'aspect': True}
            nontriv = True
            label = f'oracle:rubberband:aspect:{meta["xkind"]}'
        elif cidx % 3 == 1:
            # scale-ratio data: largest coordinate 1e5..1e9 times the depth of the shallow convex parts
            sk = SCALE_KINDS[(cidx // 2) % len(SCALE_KINDS)]
            n = int(rng.choice([300, 600, 1000]))
            xs_, ys_ = gen_scale(rng, sk, n)
            case = {'method': 'rubberband', 'y': ys_.tolist(), 'x': xs_.tolist(),
                    'shift': float(rng.choice([1e6, -1e6, 1e5, 12345.678, 1.0])), 'data': sk, 'xkind': sk}
            nontriv = True
            label = f'oracle:rubberband:scale-ratio:{sk}'
        else:
            n = int(rng.choice([3, 4, 6, 10, 25, 80, 200]))
            xk = ['uniform', 'integer', 'random'][cidx % 3]
            case = {'method': 'rubberband', 'y': gen_data(rng, n, kind).tolist(), 'x': gen_x(rng, n, xk).tolist(),
                    'shift': shift, 'data': kind, 'xkind': xk}
            nontriv = True
            label = f'oracle:rubberband:{xk}'
        try:
            oracle_one(ctx, case)
        except Exception as e:     # a raised exception is a permitted outcome here (C01/C15 own it)
            exc += 1
            nontriv = False
            label += ':exception'
            ctx.extra.setdefault('oracle_exceptions', {}).setdefault(type(e).__name__, 0)
            ctx.extra['oracle_exceptions'][type(e).__name__] += 1
        ctx.case(('oracle', cidx, label, repr(case['y'])[:2000]), nontrivial=nontriv and np.ptp(np.array(case['y'])) > 0, kind=label)
    ctx.sample({'kind': 'oracle-case', 'example': {k: (v if k not in ('y', 'x') else str(v)[:120]) for k, v in case.items()}})
    return exc


# ------------------------------------------------------------------------------------------------
# data dtypes: integer (signed / unsigned, 8..64 bit) and float32 inputs.  The wrappers return the baseline in the
# dtype of the input data, so the statements are judged on the RETURNED arrays converted exactly (int / Fraction).

DTYPES = ['uint8', 'int8', 'uint16', 'int16', 'uint32', 'int32', 'uint64', 'int64', 'float32']
DT_KINDS = ['mid', 'edge', 'peaks', 'near-min', 'near-max']


def dtype_class(dt):
    dt = np.dtype(dt)
    return 'unsigned' if dt.kind == 'u' else 'signed' if dt.kind == 'i' else dt.name


def dtype_span(dt):
    """Usable integer range: the dtype's range, cut to +-2**53 so that every value is exact in binary64."""
    ii = np.iinfo(dt)
    return max(int(ii.min), -2 ** 53), min(int(ii.max), 2 ** 53)


def gen_dtype_data(rng, n, dt, kind):
    """Python numbers (ints for integer dtypes) representable in `dt`, and a representable shift c with y + c in range."""
    dt = np.dtype(dt)
    if dt.kind == 'f':
        t = np.arange(n)
        v = rng.integers(-40, 61, n) + rng.normal(0, 0.3, n)
        if kind == 'peaks':
            v = 5 + 40 * np.exp(-0.5 * ((t - n / 2) / (n / 15 + 1)) ** 2) + rng.normal(0, 0.3, n)
        v = v.astype(dt)
        c = float(np.asarray(rng.choice([1.0, 0.5, 60.0, -7.25])).astype(dt))
        return [float(q) for q in v], c
    lo, hi = dtype_span(dt)
    cmax = 60
    if kind == 'near-min':
        base = lo
    elif kind == 'near-max':
        base = hi - 100 - cmax
    else:
        base = 0 if lo == 0 else -40
    v = [base + int(q) for q in rng.integers(0, 101, n)]
    if kind == 'edge':
        for i in list(range(max(1, n // 10))) + list(range(n - max(1, n // 12), n)):
            v[i] = base
    elif kind == 'peaks':
        t = np.arange(n)
        v = [base + int(q) for q in np.round(5 + 40 * np.exp(-0.5 * ((t - n / 2) / (n / 15 + 1)) ** 2) + rng.integers(0, 3, n))]
    c = int(rng.choice([1, 7, cmax]))
    if kind == 'mid' and lo < 0 and rng.random() < 0.5:
        c = -c
    return v, c


def exact_values(arr):
    arr = np.asarray(arr)
    if arr.dtype.kind in 'iu':
        return [int(q) for q in arr.ravel()]
    return [Fraction(float(q)) for q in arr.ravel()]


def oracle_dtype_one(ctx, case):
    """C14 on data of an integer / float32 dtype, judged on the returned arrays converted exactly."""
    before = len(ctx.violations) + len(ctx.known_hit)
    dt = np.dtype(case['dtype'])
    y = np.array(case['y'], dtype=dt)
    meth, kw, c = case['method'], dict(case['kwargs']), case['shift']
    cls = dtype_class(dt)
    dim = '2d' if y.ndim == 2 else '1d'
    f = fitter2() if y.ndim == 2 else fitter()
    base = np.asarray(quiet(getattr(f, meth), y, **kw)[0])
    if base.shape != y.shape:
        ctx.fail(f'le:{meth}:{dim}:{cls}-data:shape', f'{meth} ({dim}, {dt.name} data): baseline shape differs from the data', case)
        return 1
    by, yy = exact_values(base), exact_values(y)
    excess = [(p - q, i) for i, (p, q) in enumerate(zip(by, yy)) if p > q]
    if excess:
        worst, where = max(excess)
        if dt.kind in 'iu' and worst >= 2 ** (8 * dt.itemsize - 1):
            key, how = f'{meth}:{cls}-data:wraps-above', ('the float baseline is outside the range of the data dtype there and wraps '
                                                           'when the result is cast back to the dtype of the input data')
        elif dt.kind in 'iu' and worst == 1:
            key, how = f'{meth}:{cls}-int-data:above-by-one-count', 'the cast back to the integer dtype truncates a negative value towards zero'
        else:
            key, how = f'le:{meth}:{dim}:{cls}-data', ''
        ctx.fail(key, f'{meth} ({dim}) on {dt.name} data returns a {base.dtype.name} baseline above the data at {len(excess)} points '
                      f'(e.g. baseline {by[where]} > data {yy[where]} at flat index {where}; kwargs {kw}) {how}', case)
        return len(ctx.violations) + len(ctx.known_hit) - before
    if meth == 'tophat':
        again = np.asarray(quiet(f.tophat, base, **kw)[0])
        if exact_values(again) != by:
            ctx.fail(f'idem:tophat:{dim}:{cls}-data', f'tophat ({dim}, {dt.name} data) applied to its own output changes it', case)
    if meth != 'imor':
        if dt.kind in 'iu':
            ii = np.iinfo(dt)
            if not all(int(ii.min) <= q + c <= int(ii.max) for q in yy):
                return len(ctx.violations) + len(ctx.known_hit) - before
            ysh = np.array([q + c for q in yy], dtype=dt).reshape(y.shape)
            expect = [p + c for p in by]
        else:
            ysh = (y + dt.type(c)).astype(dt)
            expect = exact_values((base.astype(dt) + dt.type(c)).astype(dt))
        shifted = exact_values(quiet(getattr(f, meth), ysh, **kw)[0])
        diff = max(abs(p - q) for p, q in zip(shifted, expect))
        scale = float(max(abs(float(q)) for q in yy)) + abs(float(c)) + 1.0
        if meth == 'tophat':
            tol = 0            # pure min / max: exact in every dtype
        elif dt.kind in 'iu':
            # the cast truncates towards zero (one count) and a rounding of the float baseline can move one more count
            tol = 2 + 256 * float(np.finfo(float).eps) * scale
        else:
            tol = 64 * float(np.finfo(dt).eps) * scale
        if diff > tol:
            key, how = f'shift:{meth}:{dim}:{cls}-data', ''
            if dt.kind in 'iu':
                # diagnosis only (names the key): is the float baseline of y or of y + c outside the range of the dtype?
                ii = np.iinfo(dt)
                fb = [np.asarray(quiet(getattr(f, meth), a.astype(float), **kw)[0]) for a in (y, ysh)]
                if any(q.min() < float(ii.min) or q.max() > float(ii.max) for q in fb):
                    key, how = f'{meth}:{cls}-data:out-of-range-cast:shift', (' -- the float baseline leaves the range of the data dtype and is cast '
                                                                              'back to it (wraps or saturates)')
            ctx.fail(key, f'{meth} ({dim}) on {dt.name} data: m(y + c) != m(y) + c for c={c!r} '
                     f'(max difference {float(diff):.6g}, allowed {float(tol):.3g}; kwargs {kw}){how}', case)
    return len(ctx.violations) + len(ctx.known_hit) - before


# smallest inputs found for the dtype classes that fail on /repo 2151459; replayed on every run
DTYPE_WITNESSES = [
    ('snip:unsigned-data:wraps-above',
     {'method': 'snip', 'dtype': 'uint8', 'y': [0, 0, 0, 1, 0], 'kwargs': {'max_half_window': 2}, 'shift': 1, 'data': 'witness'}),
    ('snip:signed-data:wraps-above',
     {'method': 'snip', 'dtype': 'int8', 'y': [-128, -128, -128, -127, -128], 'kwargs': {'max_half_window': 2}, 'shift': 1, 'data': 'witness'}),
    ('snip:signed-data:out-of-range-cast:shift',
     {'method': 'snip', 'dtype': 'int32', 'y': [-2 ** 31, -2 ** 31, -2 ** 31, -2 ** 31 + 9, -2 ** 31],
      'kwargs': {'max_half_window': 2, 'filter_order': 2, 'decreasing': False}, 'shift': 60, 'data': 'witness'}),
    ('rubberband:signed-int-data:above-by-one-count',
     {'method': 'rubberband', 'dtype': 'int64', 'y': [2, 0, -1, -2], 'kwargs': {}, 'shift': 1, 'data': 'witness'}),
]


def oracle_dtypes(ctx, budget):
    rng = np.random.default_rng(ctx.seed + 1405)
    exc = 0
    ctx.known_replayed = set(getattr(ctx, 'known_replayed', None) or ())
    for key, wcase in DTYPE_WITNESSES:
        ctx.known_replayed.add(key)
        try:
            oracle_dtype_one(ctx, dict(wcase))
        except Exception:
            exc += 1
        ctx.case(('oracle-dtype-witness', key), nontrivial=True, kind=f'oracle:dtype:witness:{key}')
    reps = 2 * budget
    for rep in range(reps):
        for di, dtn in enumerate(DTYPES):
            for mi, (meth, dim) in enumerate([('tophat', 1), ('mor', 1), ('imor', 1), ('snip', 1), ('rubberband', 1),
                                               ('tophat', 2), ('mor', 2), ('imor', 2)]):
                kind = DT_KINDS[(rep * 3 + di + mi) % len(DT_KINDS)]
                if dim == 1:
                    n = int(rng.choice([8, 20, 60]))
                    vals, c = gen_dtype_data(rng, n, dtn, kind)
                    yl = vals
                    h = int(rng.integers(1, 6))
                else:
                    nr, nc = int(rng.integers(2, 8)), int(rng.integers(2, 8))
                    vals, c = gen_dtype_data(rng, nr * nc, dtn, kind)
                    yl = [vals[r * nc:(r + 1) * nc] for r in range(nr)]
                    n = nr * nc
                    h = [int(rng.integers(1, 4)), int(rng.integers(1, 4))]
                if meth == 'snip':
                    kw = {'max_half_window': int(rng.integers(1, max(2, n // 2))), 'filter_order': int(rng.choice([2, 4, 6, 8])),
                          'decreasing': bool(rng.integers(0, 2))}
                elif meth == 'rubberband':
                    kw = {}
                elif meth == 'imor':
                    kw = {'half_window': h, 'max_iter': int(rng.choice([0, 3, 20]))}
                else:
                    kw = {'half_window': h}
                case = {'method': meth, 'dtype': dtn, 'y': yl, 'kwargs': kw, 'shift': c, 'data': kind}
                label = f'oracle:dtype:{meth}:{dim}d:{dtype_class(dtn)}'
                nontriv = len(set(vals)) > 1
                try:
                    oracle_dtype_one(ctx, case)
                except Exception as e:
                    exc += 1
                    nontriv = False
                    label += ':exception'
                    ctx.extra.setdefault('oracle_exceptions', {}).setdefault(type(e).__name__, 0)
                    ctx.extra['oracle_exceptions'][type(e).__name__] += 1
                ctx.case(('oracle-dtype', rep, dtn, meth, dim, repr(vals)[:1500]), nontrivial=nontriv, kind=label)
    return exc


def run(ctx):
    ctx.rule = ('data kinds random/integer/ties/plateau/monotone increasing/decreasing/negative/peaks/constant/offset_big (order-one features '
                'on +-1e5..1e6)/tiny (1e-3 features, shifts up to +-1e6); rubberband additionally scale-ratio kinds (N 300..1000): smooth noise-free '
                'shallow-convex backgrounds with x in wavenumbers 400..4000 and y ~1e-3, the same with 1e-9 noise, order-one data on offsets '
                '1e5..1e6, unevenly spaced x in 1000..4000, compared with an exact-rational lower hull within 1000 eps max|coordinate| '
                '(1 + local scaled hull slope) per point; aspect-ratio stress: x-extent 1e-12..1e12, amplitude 1e-9..1e8, uniform / random / near-vertical '
                'first or last edge (gap 1e-13..1e-9 of the extent under a raised end point), N 12..5000, plus the fixed badly-scaled witness '
                'x = linspace(4e-7, 4.4e-7, 1000), y ~ 6e4; '
                'operator correspondence: N 1..30 with half windows 1..N+3 (40) plus large cases up to N=200, h=150 '
                '(2h+1 > N included), 2-D up to 8x9 with half windows up to 10; float correspondence: tophat/mor/imor '
                '(N 1..40, exit and no-exit runs), snip (N 3..40, orders 2/4/6/8, both directions, asymmetric and clipped '
                'windows, 5 paddings), 2-D mor/imor pass; rubberband selection with captured qhull vertices, 1..N//3 segments; '
                'oracle: N 1..151 (1-D), up to 11x11 (2-D), half windows 1..2N+1, random shifts; '
                'data dtypes: uint8/int8/uint16/int16/uint32/int32/uint64/int64 (values within +-2**53) and float32, kinds mid / runs of the '
                'lowest value at the edges / peaks / within 100 of the dtype minimum / maximum, N 8..60 (1-D: tophat, mor, imor, snip, rubberband) '
                'and up to 7x7 (2-D: tophat, mor, imor), judged on the returned arrays converted exactly (below: exact; idempotence: exact; shift: exact '
                'for tophat, 2 counts for averaging methods on integers, 64 eps32 on float32), plus four fixed witnesses; '
                'non-trivial = at least two points and non-constant data, returning call')
    ctx.trusted += [
        'scipy.ndimage.grey_erosion/grey_dilation/grey_opening (C code): modelled by C14/Model.v (reflect index map + window min/max), '
        'sampled exactly on integer data on every run, not verified',
        'qhull (scipy.spatial.ConvexHull): its contract (counter-clockwise, containing, strictly convex, vertices are data points) is the hypothesis of '
        'C14_rubberband_lower_hull, sampled by the oracle (exact-rational lower hull); np.interp modelled as piecewise-linear interpolation; pad_edges '
        '(the padded array enters the snip model as an input; only "data sits in the middle" is used by C14_snip_le)',
        'IEEE: the order theorems hold for every total order; binary64 <= restricted to non-NaN values is one (not proved in Coq); '
        'the shift theorems for mor/snip are over exact rationals, the float statement is tested with a tolerance',
    ]
    ctx.gate()
    ctx.translate(['GenSnip', 'GenRubber'])
    ok = ctx.build_props(extra=['C14/Float.vo', 'C14/Cast.vo', 'gen/GenSnip.vo', 'gen/GenRubber.vo'])
    good = True
    if ok:
        import traceback
        for part in (corr_operators, corr_methods, corr_rubberband, corr_cast):
            try:
                good &= bool(part(ctx))
            except Exception:
                good = False
                ctx.broke(f'correspondence:{part.__name__}:raised', traceback.format_exc()[-1200:])
    budget = 1 if (ok and good and not ctx.broken and ctx.tier == 'quick') else 5
    exc = oracle(ctx, budget)
    exc += oracle_dtypes(ctx, budget)
    ctx.note(f'oracle budget x{budget}, {exc} oracle calls raised (skipped: exceptions are a permitted outcome); '
             'NOT covered: snip with smooth_half_window > 0 (not claimed: the smoothed previous baseline can exceed the data), '
             'rubberband with smoothing / lam / several segments (only the vertex selection is tied for segments > 1), '
             'half_window=None (optimize_window, C18), NaN/inf data, 2-D imor beyond one pass in the bit-exact tie')


def replay(rep):
    case = rep.get('case') or {}
    print('replay:', rep.get('key'), rep.get('what'))
    if 'method' not in case:
        print('no replayable implementation case in this file (broken obligation only)')
        return 1

    class R:
        violations, known_hit, known = [], {}, []

        def fail(self, key, what, case):
            self.violations.append((key, what))
            print('STILL FAILS:', key, what)
    r = R()
    try:
        (oracle_dtype_one if 'dtype' in case else oracle_one)(r, case)
    except Exception as e:
        print('raised', type(e).__name__, e)
        return 0
    return 1 if r.violations else 0
