"""C02 -- results do not depend on the order in which x (and z) are supplied.
See DESIGN.md section 4 / C02.

run = gate -> translate GenOrderFlow -> build props/C02.v -> correspondence (Perm/wrapper model evaluated inside
Coq vs the implementation, exact integers; dynamic cross-validation of the order-flow table) -> metamorphic
oracle on the implementation (random non-involutive permutations, max_iter in {0,1}, tol=0, user weights/alpha,
1-D and 2-D)."""
import inspect
import warnings

import numpy as np

from . import methods as M
from .common import zl, zlist, zlist2

PROP = 'C02'

# per-point outputs: must come back in the order of the supplied data
PERPOINT = {'weights', 'mask', 'alpha', 'signal', 'average_weights', 'average_alpha', 'constrained_weights',
            'baseline_rows', 'baseline_columns'}
# custom_bc: every array it reports refers to the truncated/sampled data set (x_fit, which is reported in
# ascending order itself), not to the input points; they are compared un-permuted
XFIT_ORDER_METHODS = {'custom_bc'}
RTOL = {False: 1e-10, True: 1e-8}   # 1-D runs are bit-identical in practice; 2-D differs by <= 3e-13 (strided reductions)


# ------------------------------------------------------------------------------------------------ utilities
def rand_perm(rng, n):
    """A random permutation that is neither the identity, the reversal, nor an involution."""
    while True:
        p = list(range(n))
        rng.shuffle(p)
        p = np.array(p, dtype=np.intp)
        if n < 3:
            return p
        if np.array_equal(p[p], np.arange(n)) or np.array_equal(p, np.arange(n)[::-1]):
            continue
        if np.all(p[1:] > p[:-1]):
            continue
        return p


def distinct_x(rng, n, lo=0.0, hi=100.0):
    """Strictly increasing, non-uniform x (ties would make the stable sort order-dependent)."""
    step = (hi - lo) / max(n - 1, 1)
    x = lo + step * np.arange(n) + np.array([rng.uniform(-0.35, 0.35) for _ in range(n)]) * step
    assert np.all(np.diff(x) > 0)
    return x


def nprng(rng):
    return np.random.RandomState(rng.randrange(2 ** 31))


def sig_params(name, two_d=False):
    from pybaselines import Baseline, Baseline2D
    return inspect.signature(getattr(Baseline2D if two_d else Baseline, name)).parameters


_TABLE = {}


def sort_keys_of(name, two_d):
    """sort_keys of a registered method, read from the decorators of the CURRENT source by the translator."""
    if not _TABLE:
        import os
        import sys
        from .common import REPO, VERIF
        tools = os.path.join(VERIF, 'tools')
        if tools not in sys.path:
            sys.path.insert(0, tools)
        import gen_orderflow
        _TABLE.update(gen_orderflow.method_table(REPO))
    return tuple(_TABLE.get(('2d' if two_d else '1d', name), ((), False))[0])


def take_leading(a, perm, two_d):
    """gather along the leading axis (1-D) / the two leading axes (2-D), whatever follows."""
    a = np.asarray(a)
    if not two_d:
        return a[perm]
    px, pz = perm
    return a[px[:, None], pz[None, :]]


def take(a, perm, two_d):
    """a in sorted order -> the same per-point array in the supplied (permuted) order."""
    a = np.asarray(a)
    if not two_d:
        return a[..., perm]
    px, pz = perm
    return a[..., px[:, None], pz[None, :]]


def per_point_shape(a, shape):
    a = np.asarray(a)
    return a.ndim >= len(shape) and tuple(a.shape[-len(shape):]) == tuple(shape)


def close(a, b, rtol=1e-10):
    a = np.asarray(a)
    b = np.asarray(b)
    if a.shape != b.shape:
        return False, 'shape %s vs %s' % (a.shape, b.shape)
    if a.dtype.kind not in 'fc' and b.dtype.kind not in 'fc':
        ok = np.array_equal(a, b)
        return ok, None if ok else 'values differ'
    a = a.astype(float)
    b = b.astype(float)
    fin = np.isfinite(a)
    if not np.array_equal(fin, np.isfinite(b)) or not np.array_equal(a[~fin], b[~fin], equal_nan=True):
        return False, 'non-finite pattern differs'
    if not fin.any():
        return True, None
    scale = 1.0 + float(np.max(np.abs(a[fin])))
    err = float(np.max(np.abs(a[fin] - b[fin])))
    if err <= rtol * scale:
        return True, err
    return False, 'max abs difference %.3g (scale %.3g)' % (err, scale)


_EXTRA = {}


def compare(ref, got, perm, shape, two_d, method, path='', out=None, stats=None, skeys=(), rtol=None):
    """ref: result on sorted inputs; got: result on permuted inputs.  Collects (path, message)."""
    out = [] if out is None else out
    if method == 'individual_axes' and path in ('/params/params_rows', '/params/params_columns') \
            and isinstance(ref, dict) and isinstance(got, dict) and set(ref) == set(got):
        # one 1-D result per column (rows: fits along x) or per row (columns: fits along z), listed in the
        # order of the supplied data; per-point entries run along the fitted axis
        px, pz = perm
        along, other = (px, pz) if path.endswith('rows') else (pz, px)
        for k in ref:
            if len(ref[k]) != len(got[k]):
                out.append((path + '/' + k, 'length differs'))
                continue
            for j in range(len(got[k])):
                r = np.asarray(ref[k][other[j]])
                exp = r[along] if (k in PERPOINT and r.shape == (len(along),)) else r
                ok, info = close(exp, got[k][j], RTOL[True])
                if stats is not None:
                    stats['leaves'] = stats.get('leaves', 0) + 1
                if not ok:
                    out.append(('%s/%s[%d]' % (path, k, j), 'per-row/column parameter is not the correspondingly '
                                'permuted one: ' + str(info)))
                    break
        return out
    if isinstance(ref, dict):
        if not isinstance(got, dict) or set(ref) != set(got):
            out.append((path, 'params keys differ: %s' % sorted(set(ref) ^ set(got if isinstance(got, dict) else ()))))
            return out
        for k in ref:
            compare(ref[k], got[k], perm, shape, two_d, method, path + '/' + str(k), out, stats, skeys, rtol)
        return out
    if isinstance(ref, (list, tuple)) and not (len(ref) and np.isscalar(ref[0])):
        if not isinstance(got, (list, tuple)) or len(ref) != len(got):
            out.append((path, 'length differs'))
            return out
        for i, (u, v) in enumerate(zip(ref, got)):
            compare(u, v, perm, shape, two_d, method, path + '[%d]' % i, out, stats, skeys, rtol)
        return out
    if ref is None or got is None:
        if ref is not got:
            out.append((path, 'None vs value'))
        return out
    key = path.rstrip(']').split('/')[-1].split('[')[0]
    a = np.asarray(ref)
    if (method == 'optimize_extended_range' and path.startswith('/params/method_params/') and key in PERPOINT
            and not two_d and a.ndim == 1 and a.shape[0] > shape[0] and _EXTRA.get('oer_side')):
        # a per-point output of the wrapped method that optimize_extended_range does not cut back (e.g. 'mask'):
        # it covers the EXTENDED data = [added left part, the supplied points, added right part]; the added parts
        # stay in place, the middle must follow the supplied order
        extra_len = a.shape[0] - shape[0]
        lo = {'left': extra_len, 'right': 0, 'both': extra_len // 2}[_EXTRA['oer_side']]
        exp = np.concatenate((a[:lo], a[lo:lo + shape[0]][perm], a[lo + shape[0]:]))
        ok, info = close(exp, got, rtol if rtol is not None else RTOL[False])
        if stats is not None:
            stats['leaves'] = stats.get('leaves', 0) + 1
        if not ok:
            out.append((path, 'per-point output of the wrapped method over the extended data (added parts fixed, the '
                              'supplied points in between) is not the correspondingly permuted one: ' + str(info)))
        return out
    is_pp = (path == '/baseline' or key in PERPOINT) and per_point_shape(a, shape)
    if method in XFIT_ORDER_METHODS and path != '/baseline':
        is_pp = False
    if a.dtype == object:
        return out
    lead = (path.count('/') == 2 and path.startswith('/params/') and key in skeys and a.ndim >= len(shape)
            and tuple(a.shape[:len(shape)]) == tuple(shape) and method not in XFIT_ORDER_METHODS)
    if lead:
        # listed in the method's sort_keys: per-point along the LEADING axis/axes whatever the trailing shape
        is_pp = True
        exp = take_leading(a, perm, two_d)
    else:
        exp = take(a, perm, two_d) if is_pp else a
    ok, info = close(exp, got, rtol if rtol is not None else RTOL[bool(two_d)])
    if stats is not None:
        stats['leaves'] = stats.get('leaves', 0) + 1
        if ok and info not in (None, 0.0):
            stats['inexact'] = stats.get('inexact', 0) + 1
            rel = info / (1.0 + float(np.max(np.abs(np.asarray(exp, dtype=float)[np.isfinite(np.asarray(exp, dtype=float))]))))
            if rel > stats.get('max_rel', 0.0):
                stats['max_rel'] = rel
                stats['max_rel_at'] = method + path
    if not ok:
        out.append((path, ('per-point output is not the correspondingly permuted one: ' if is_pp
                           else 'order-independent output differs: ') + str(info)))
    return out


# ------------------------------------------------------------------------------------------------ variants
def output_flags(pars):
    """every optional OUTPUT switch of the signature (return_coef, return_dof, ...), switched on"""
    return {k: True for k, v in pars.items() if k.startswith('return_') and v.default is False}


def variants_1d(name, wseed, n, budget, rng=None):
    """[(label, class, kwargs-builder)] ; builder(perm or None) -> extra kwargs (per-point ones permuted)."""
    pars = sig_params(name)
    r = np.random.RandomState(wseed)
    w = r.uniform(0.05, 1.0, n)
    al = r.uniform(0.2, 1.0, n)
    out = [('default', 'default', lambda p: {})]
    flags = output_flags(pars)
    if flags:
        out.append(('outputs:' + ','.join(sorted(flags)), 'outputs', lambda p: dict(flags)))
        if 'weights' in pars and name != 'collab_pls':
            out.append(('outputs+weights', 'outputs', lambda p: dict(flags, weights=w if p is None else w[p])))
    iters = []
    if 'max_iter' in pars:
        iters = [{'max_iter': 0}, {'max_iter': 1}]
        if 'tol' in pars:
            iters.append({'max_iter': 2, 'tol': 0.0})
    for it in iters:
        out.append(('iter:%s' % sorted(it.items()), 'default', lambda p, it=it: dict(it)))
    if 'weights' in pars and name not in ('collab_pls',):
        def wk(p, extra=None):
            kw = {'weights': w if p is None else w[p]}
            kw.update(extra or {})
            return kw
        out.append(('weights', 'weights', wk))
        for it in iters[:2]:
            out.append(('weights+%s' % sorted(it.items()), 'weights', lambda p, it=it: wk(p, it)))
    if name in ('aspls', 'pspline_aspls'):
        def ak(p, extra=None):
            kw = {'alpha': al if p is None else al[p], 'weights': w if p is None else w[p]}
            kw.update(extra or {})
            return kw
        out.append(('alpha+weights', 'alpha', ak))
        out.append(('alpha+weights+max_iter=0', 'alpha', lambda p: ak(p, {'max_iter': 0})))
        out.append(('alpha only', 'alpha', lambda p: {'alpha': al if p is None else al[p], 'max_iter': 1}))
    if name == 'fabc':
        out.append(('weights_as_mask', 'weights',
                    lambda p: {'weights': (w > 0.4) if p is None else (w > 0.4)[p], 'weights_as_mask': True}))
    if name == 'adaptive_minmax':
        for meth in ('modpoly', 'imodpoly', 'poly'):
            for cf in (0.1, (0.2, 0.05)):
                out.append(('method=%s cf=%s' % (meth, cf), 'default',
                            lambda p, meth=meth, cf=cf: {'method': meth, 'constrained_fraction': cf, 'poly_order': 2}))
                out.append(('weights method=%s cf=%s' % (meth, cf), 'weights',
                            lambda p, meth=meth, cf=cf: {'method': meth, 'constrained_fraction': cf,
                                                         'weights': w if p is None else w[p]}))
    if name == 'collab_pls':
        for meth in ('asls', 'arpls', 'mpls', 'aspls', 'pspline_asls', 'fabc', 'pspline_aspls'):
            base = {'lam': 1e3} if not meth.startswith('pspline') else {'lam': 10, 'num_knots': 8}
            if meth in ('mpls',):
                base['half_window'] = 4
            for avg in (True, False):
                out.append(('method=%s average=%s' % (meth, avg), 'default',
                            lambda p, meth=meth, avg=avg, base=base: {'method': meth, 'average_dataset': avg,
                                                                      'method_kwargs': dict(base)}))
            if meth not in ('fabc',):
                out.append(('method=%s method_kwargs.weights' % meth, 'weights',
                            lambda p, meth=meth, base=base: {'method': meth, 'method_kwargs': dict(
                                base, weights=w if p is None else w[p], max_iter=1)}))
    if name == 'optimize_extended_range':
        for sd in ('both', 'left', 'right'):
            for meth, base in (('asls', {}), ('modpoly', {}), ('pspline_asls', {'num_knots': 8}), ('aspls', {}),
                               ('mpls', {'half_window': 4})):
                mn, mx = (1, 3) if meth == 'modpoly' else (2, 4)
                out.append(('side=%s method=%s' % (sd, meth), 'default',
                            lambda p, sd=sd, meth=meth, base=base, mn=mn, mx=mx: {
                                'side': sd, 'method': meth, 'min_value': mn, 'max_value': mx,
                                'method_kwargs': dict(base)}))
                if meth != 'mpls':
                    out.append(('side=%s method=%s weights' % (sd, meth), 'weights',
                                lambda p, sd=sd, meth=meth, base=base, mn=mn, mx=mx: {
                                    'side': sd, 'method': meth, 'min_value': mn, 'max_value': mx, 'width_scale': 0.2,
                                    'method_kwargs': dict(base, weights=w if p is None else w[p])}))
    if name == 'custom_bc':
        out.append(('regions+sampling', 'default',
                    lambda p: {'method': 'asls', 'regions': ((5, 20),), 'sampling': 3, 'method_kwargs': {'lam': 1e2}}))
        out.append(('lam smoothing', 'default',
                    lambda p: {'method': 'modpoly', 'regions': ((0, 10), (30, n)), 'sampling': (2, 4), 'lam': 10.0}))
    if budget <= 1 and len(out) > 14 and rng is not None:
        keep = out[:6]
        rest = out[6:]
        rng.shuffle(rest)
        out = keep + rest[:10]
    return out


def variants_2d(name, wseed, shape, budget):
    pars = sig_params(name, True)
    r = np.random.RandomState(wseed)
    w = r.uniform(0.05, 1.0, shape)
    al = r.uniform(0.2, 1.0, shape)
    out = [('default', 'default', lambda p: {})]
    flags = output_flags(pars)
    if flags:
        out.append(('outputs:' + ','.join(sorted(flags)), 'outputs', lambda p: dict(flags)))
        if 'weights' in pars and name != 'collab_pls':
            out.append(('outputs+weights', 'outputs',
                        lambda p: dict(flags, weights=w if p is None else take(w, p, True))))
    iters = []
    if 'max_iter' in pars:
        iters = [{'max_iter': 0}, {'max_iter': 1}]
    for it in iters:
        out.append(('iter:%s' % sorted(it.items()), 'default', lambda p, it=it: dict(it)))
    if 'weights' in pars and name != 'collab_pls':
        def wk(p, extra=None):
            kw = {'weights': w if p is None else take(w, p, True)}
            kw.update(extra or {})
            return kw
        out.append(('weights', 'weights', wk))
        if iters:
            out.append(('weights+max_iter=0', 'weights', lambda p: wk(p, {'max_iter': 0})))
    if name == 'aspls':
        out.append(('alpha+weights', 'alpha',
                    lambda p: {'alpha': al if p is None else take(al, p, True),
                               'weights': w if p is None else take(w, p, True), 'max_iter': 1}))
    if name == 'adaptive_minmax':
        for meth in ('modpoly', 'imodpoly'):
            out.append(('method=%s' % meth, 'default',
                        lambda p, meth=meth: {'method': meth, 'constrained_fraction': (0.1, 0.2, 0.15, 0.1), 'poly_order': 1}))
            out.append(('weights method=%s' % meth, 'weights',
                        lambda p, meth=meth: {'method': meth, 'constrained_fraction': 0.15,
                                              'weights': w if p is None else take(w, p, True), 'poly_order': 1}))
    if name == 'collab_pls':
        for meth, base in (('asls', {'lam': 1e2}), ('pspline_asls', {'lam': 10, 'num_knots': 5}), ('aspls', {'lam': 1e2})):
            for avg in (True, False):
                out.append(('method=%s average=%s' % (meth, avg), 'default',
                            lambda p, meth=meth, avg=avg, base=base: {'method': meth, 'average_dataset': avg,
                                                                      'method_kwargs': dict(base)}))
    if name == 'individual_axes':
        for axes in (0, 1, (1, 0)):
            for meth, base in (('asls', {'lam': 1e2}), ('modpoly', {}), ('mor', {'half_window': 2})):
                out.append(('axes=%s method=%s' % (axes, meth), 'default',
                            lambda p, axes=axes, meth=meth, base=base: {'axes': axes, 'method': meth,
                                                                        'method_kwargs': dict(base)}))
    return out


# ------------------------------------------------------------------------------------------------ runners
def call_1d(name, x, y, extra):
    from pybaselines import Baseline
    fitter = Baseline(x)
    kw = M.call_kwargs(name, **extra) if name != 'interp_pts' else dict(extra)
    if 'method' in extra:
        kw['method_kwargs'] = extra.get('method_kwargs', {})
    if name == 'collab_pls':
        return fitter.collab_pls(np.vstack([y, y * 1.1 + 1]), **kw)
    return getattr(fitter, name)(y, **kw)


def call_2d(name, x, z, y, extra):
    from pybaselines import Baseline2D
    fitter = Baseline2D(x, z)
    kw = M.call_kwargs(name, True, **extra)
    if 'method' in extra:
        kw['method_kwargs'] = extra.get('method_kwargs', {})
    if name == 'collab_pls':
        return fitter.collab_pls(np.array([y, y * 1.1 + 1]), **kw)
    return getattr(fitter, name)(y, **kw)


def run_pair_1d(name, x, y, perm, build, with_logs=False):
    """(reference result or exception name, permuted-run result or exception name[, log difference])."""
    res = []
    logs = []
    for p in (None, perm):
        try:
            with warnings.catch_warnings(), SetupLog() as sl:
                logs.append(sl.log)
                warnings.simplefilter('ignore')
                extra = build(p)
                if name == 'interp_pts':
                    i = [0, len(x) // 3, len(x) // 2, len(x) - 1]
                    extra = dict(extra, baseline_points=np.array([[x[k], y[k]] for k in i]))
                if p is None:
                    b, prm = call_1d(name, x, y, extra)
                else:
                    b, prm = call_1d(name, x[p], y[p], extra)
            res.append({'baseline': np.array(b), 'params': prm})
        except Exception as exc:   # noqa
            res.append('raises ' + type(exc).__name__)
    if with_logs:
        ld = None
        if not isinstance(res[0], str) and not isinstance(res[1], str) and not _uses_fabc(name, build):
            ld = compare_logs(logs[0], logs[1], False)
        return res[0], res[1], ld
    return res


def run_pair_2d(name, x, z, y, perm, build, with_logs=False, log_rtol=None):
    res = []
    logs = []
    px, pz = perm
    for p in (None, perm):
        try:
            with warnings.catch_warnings(), SetupLog() as sl:
                logs.append(sl.log)
                warnings.simplefilter('ignore')
                extra = build(p)
                if p is None:
                    b, prm = call_2d(name, x, z, y, extra)
                else:
                    b, prm = call_2d(name, x[px], z[pz], take(y, p, True), extra)
            res.append({'baseline': np.array(b), 'params': prm})
        except Exception as exc:   # noqa
            res.append('raises ' + type(exc).__name__)
    if with_logs:
        ld = None
        if not isinstance(res[0], str) and not isinstance(res[1], str) and not _uses_fabc(name, build):
            ld = compare_logs(logs[0], logs[1], True, log_rtol)
        return res[0], res[1], ld
    return res


def judge(ref, got, perm, shape, two_d, name, stats=None, skeys=None, rtol=None, extra=None):
    """None when the property holds on this input, else a description."""
    if isinstance(ref, str) or isinstance(got, str):
        if isinstance(ref, str) and isinstance(got, str):
            return None if ref == got else 'sorted input %s but permuted input %s' % (ref, got)
        return 'sorted input %s but permuted input %s' % (
            ref if isinstance(ref, str) else 'returns', got if isinstance(got, str) else 'returns')
    if skeys is None:
        skeys = sort_keys_of(name, two_d)
    _EXTRA.clear()
    _EXTRA.update(extra or {})
    diffs = compare(ref, got, perm, shape, two_d, name, stats=stats, skeys=skeys, rtol=rtol)
    _EXTRA.clear()
    if diffs:
        return '; '.join('%s: %s' % d for d in diffs[:3])
    return None


def y_1d(rng, x):
    return M.make_y(nprng(rng), x)


def oracle_1d(ctx, budget, names=None, stats=None):
    rng = ctx.rng
    found = 0
    for name in (names or M.method_names()):
        for rep in range(budget):
            n = rng.choice([41, 47, 53])
            x = distinct_x(rng, n, rng.choice([0.0, -50.0]), rng.choice([100.0, 2000.0]))
            y = y_1d(rng, x)
            perm = rand_perm(rng, n)
            wseed = rng.randrange(2 ** 31)
            for label, cls, build in variants_1d(name, wseed, n, budget, rng):
                ref, got, ld = run_pair_1d(name, x, y, perm, build, with_logs=True)
                nontrivial = not isinstance(ref, str)
                if stats is not None and nontrivial:
                    stats['logs'] = stats.get('logs', 0) + 1
                ctx.case(('o1', name, label, n, tuple(perm[:6]), rep), nontrivial=nontrivial, kind='oracle1d:' + cls)
                err = judge(ref, got, perm, (n,), False, name, stats) or ld
                if err:
                    found += 1
                    ctx.fail('order:1d:%s:%s' % (name, cls),
                             'Baseline(x[perm]).%s(y[perm], %s) is not the permuted result of the sorted call (N=%d): %s'
                             % (name, label, n, err),
                             {'kind': 'oracle1d', 'method': name, 'label': label, 'n': n, 'x': [float(v) for v in x],
                              'y': [float(v) for v in y], 'perm': [int(v) for v in perm],
                              'wseed': wseed})
    return found


def oracle_2d(ctx, budget, names=None, stats=None):
    rng = ctx.rng
    found = 0
    for name in (names or M.method_names(True)):
        for rep in range(budget):
            m, n = rng.choice([(11, 14), (13, 12), (12, 15)])
            x = distinct_x(rng, m, -3.0, 8.0)
            z = distinct_x(rng, n, 10.0, 50.0)
            _, _, y = M.make_z2d(nprng(rng), m, n)
            modes = ['x', 'z', 'xz']
            if budget <= 1:
                modes = [modes[(rep + len(name) + rng.randrange(3)) % 3], 'xz'] if name not in (
                    'individual_axes', 'adaptive_minmax', 'iasls', 'pspline_iasls', 'collab_pls') else modes
            wseed = rng.randrange(2 ** 31)
            vs = variants_2d(name, wseed, (m, n), budget)
            for mode in dict.fromkeys(modes):
                px = rand_perm(rng, m) if 'x' in mode else np.arange(m)
                pz = rand_perm(rng, n) if 'z' in mode else np.arange(n)
                for label, cls, build in vs:
                    ref, got, ld = run_pair_2d(name, x, z, y, (px, pz), build, with_logs=True)
                    ctx.case(('o2', name, label, mode, m, n, tuple(px[:4]), tuple(pz[:4])),
                             nontrivial=not isinstance(ref, str), kind='oracle2d:%s:%s' % (mode, cls))
                    err = judge(ref, got, (px, pz), (m, n), True, name, stats) or ld
                    if err:
                        found += 1
                        ctx.fail('order:2d:%s:%s' % (name, cls),
                                 'Baseline2D(x[px], z[pz]).%s(y[px][:, pz], %s) is not the permuted result of the sorted '
                                 'call (shape %dx%d, permuted axes: %s): %s' % (name, label, m, n, mode, err),
                                 {'kind': 'oracle2d', 'method': name, 'label': label, 'mode': mode, 'shape': [m, n],
                                  'x': [float(v) for v in x], 'z': [float(v) for v in z],
                                  'y': [[float(v) for v in row] for row in y],
                                  'px': [int(v) for v in px], 'pz': [int(v) for v in pz], 'wseed': wseed})
    return found


def oracle_functional(ctx, budget):
    """The functional interface (module-level functions with x_data=...): the optimizers go through
    _Algorithm._get_function's `else` branch there (a sub-fitter class is built on the re-ordered x)."""
    import pybaselines.optimizers as O
    import pybaselines.whittaker as W
    import pybaselines.polynomial as P
    import pybaselines.spline as S
    import pybaselines.classification as C
    import pybaselines.morphological as Mo
    rng = ctx.rng
    found = 0
    calls = [
        ('optimizers.collab_pls:asls', lambda x, y, w: O.collab_pls(np.vstack([y, 1.1 * y + 1]), x_data=x, method='asls', method_kwargs={'lam': 1e3})),
        ('optimizers.collab_pls:pspline_asls', lambda x, y, w: O.collab_pls(np.vstack([y, 1.1 * y + 1]), x_data=x, method='pspline_asls', method_kwargs={'lam': 10, 'num_knots': 8})),
        ('optimizers.collab_pls:weights', lambda x, y, w: O.collab_pls(np.vstack([y, 1.1 * y + 1]), x_data=x, method='arpls', method_kwargs={'lam': 1e3, 'weights': w, 'max_iter': 1})),
        ('optimizers.optimize_extended_range:asls', lambda x, y, w: O.optimize_extended_range(y, x_data=x, method='asls', min_value=2, max_value=4)),
        ('optimizers.optimize_extended_range:modpoly+weights', lambda x, y, w: O.optimize_extended_range(y, x_data=x, method='modpoly', min_value=1, max_value=3, side='left', method_kwargs={'weights': w})),
        ('optimizers.adaptive_minmax', lambda x, y, w: O.adaptive_minmax(y, x_data=x, constrained_fraction=(0.1, 0.2))),
        ('optimizers.adaptive_minmax:weights', lambda x, y, w: O.adaptive_minmax(y, x_data=x, weights=w, method='imodpoly')),
        ('optimizers.custom_bc:mor', lambda x, y, w: O.custom_bc(y, x_data=x, method='mor', regions=((5, 20),), sampling=3, method_kwargs={'half_window': 3})),
        ('optimizers.custom_bc:modpoly', lambda x, y, w: O.custom_bc(y, x_data=x, method='modpoly', regions=((0, 10), (30, len(y))), sampling=(2, 4))),
        ('whittaker.iasls', lambda x, y, w: W.iasls(y, x_data=x, lam=1e3, max_iter=0)),
        ('whittaker.aspls:alpha', lambda x, y, w: W.aspls(y, x_data=x, lam=1e3, alpha=w, weights=w, max_iter=1)),
        ('polynomial.imodpoly:weights', lambda x, y, w: P.imodpoly(y, x_data=x, weights=w)),
        ('polynomial.loess', lambda x, y, w: P.loess(y, x_data=x, fraction=0.3)),
        ('spline.pspline_iasls', lambda x, y, w: S.pspline_iasls(y, x_data=x, lam=10, num_knots=8, max_iter=0)),
        ('spline.mixture_model:weights', lambda x, y, w: S.mixture_model(y, x_data=x, lam=10, num_knots=8, weights=w, max_iter=1)),
        ('classification.fabc', lambda x, y, w: C.fabc(y, x_data=x, lam=1e3, scale=3)),
        ('morphological.mpls', lambda x, y, w: Mo.mpls(y, x_data=x, half_window=4, lam=1e3)),
    ]
    for rep in range(budget):
        n = rng.choice([41, 47, 53])
        x = distinct_x(rng, n)
        y = y_1d(rng, x)
        perm = rand_perm(rng, n)
        w = np.random.RandomState(rng.randrange(2 ** 31)).uniform(0.05, 1.0, n)
        for label, fn in calls:
            res = []
            for p in (None, perm):
                try:
                    with warnings.catch_warnings():
                        warnings.simplefilter('ignore')
                        b, prm = fn(x, y, w) if p is None else fn(x[p], y[p], w[p])
                    res.append({'baseline': np.array(b), 'params': prm})
                except Exception as exc:   # noqa
                    res.append('raises ' + type(exc).__name__)
            ctx.case(('of', label, n, tuple(perm[:6]), rep), nontrivial=not isinstance(res[0], str), kind='oracle1d:functional')
            name = 'custom_bc' if 'custom_bc' in label else label
            err = judge(res[0], res[1], perm, (n,), False, name)
            if err:
                found += 1
                ctx.fail('order:1d:functional:%s' % label.split(':')[0],
                         'pybaselines.%s(y[perm], x_data=x[perm]) [%s] is not the permuted result of the sorted call (N=%d): %s'
                         % (label.split(':')[0], label, n, err),
                         {'kind': 'functional', 'label': label, 'x': [float(v) for v in x], 'y': [float(v) for v in y],
                          'perm': [int(v) for v in perm], 'w': [float(v) for v in w]})
    return found


RTOL_OPTIONS = {False: 1e-10, True: 1e-6}   # see oracle_options; observed maxima are recorded in the evidence notes
EXTRA_PARAM_VALUES = {
    'pad_kwargs': [{'mode': 'edge'}, {'mode': 'extrapolate', 'extrapolate_window': 5}],
    'alpha_factor': [0.9], 'asymmetry': [3.0], 'height_scale': [0.5], 'constrained_weight': [10.0],
}


def option_variants(name, two_d):
    """One-at-a-time NON-DEFAULT option variants of a method: harness/methods.py PARAM_VALUES applied to the
    signature, plus a few options it does not list (pad_kwargs, ...)."""
    out = list(M.param_variants(name, two_d))
    pars = sig_params(name, two_d)
    for par, vals in EXTRA_PARAM_VALUES.items():
        if par in pars:
            out += [{par: v} for v in vals]
    return out


def oracle_options(ctx, two_d, per_method, stats=None, with_weights=False):
    """Every method under one-at-a-time non-default options (per_method=None: all of them; else a seeded sample),
    random non-involutive permutation, compared with the sorted run."""
    rng = ctx.rng
    found = 0
    dim = '2d' if two_d else '1d'
    for name in M.method_names(two_d):
        if name == 'interp_pts':
            continue
        vs = option_variants(name, two_d)
        if per_method is not None and len(vs) > per_method:
            vs = rng.sample(vs, per_method)
        if not vs:
            continue
        if two_d:
            m, n = rng.choice([(11, 14), (13, 12)])
            x = distinct_x(rng, m, -3.0, 8.0)
            z = distinct_x(rng, n, 10.0, 50.0)
            _, _, y = M.make_z2d(nprng(rng), m, n)
            mode = rng.choice(['x', 'z', 'xz', 'xz'])
            perm = (rand_perm(rng, m) if 'x' in mode else np.arange(m), rand_perm(rng, n) if 'z' in mode else np.arange(n))
            shape = (m, n)
            wseed = rng.randrange(2 ** 31)
            w = np.random.RandomState(wseed).uniform(0.05, 1.0, shape)
        else:
            n = rng.choice([41, 47, 53])
            x = distinct_x(rng, n, rng.choice([0.0, -50.0]), rng.choice([100.0, 2000.0]))
            y = y_1d(rng, x)
            perm = rand_perm(rng, n)
            shape = (n,)
            wseed = rng.randrange(2 ** 31)
            w = np.random.RandomState(wseed).uniform(0.05, 1.0, n)
        pars = sig_params(name, two_d)
        has_w = 'weights' in pars and name != 'collab_pls'
        for opt in vs:
            if two_d and 'max_iter' in pars and 'max_iter' not in opt:
                # 2-D runs are not bit-identical (strided views): keep ill-conditioned / long iterations from
                # amplifying the rounding noise; an ordering defect shows in the first passes
                opt = dict(opt, max_iter=2)
                if 'max_iter_2' in pars:
                    opt['max_iter_2'] = 2
            for use_w in ((False, True) if (with_weights and has_w) else (False,)):
                def build(p, opt=opt, use_w=use_w):
                    kw = dict(opt)
                    if use_w:
                        kw['weights'] = w if p is None else (take(w, p, True) if two_d else w[p])
                    return kw
                if two_d:
                    ref, got, ld = run_pair_2d(name, x, z, y, perm, build, with_logs=True, log_rtol=RTOL_OPTIONS[True])
                else:
                    ref, got, ld = run_pair_1d(name, x, y, perm, build, with_logs=True)
                label = 'option:%s%s' % (sorted(opt.items()), '+weights' if use_w else '')
                ctx.case(('opt', dim, name, label, shape, tuple(np.asarray(perm[0] if two_d else perm)[:5])),
                         nontrivial=not isinstance(ref, str), kind='oracle%s:options' % dim)
                err = judge(ref, got, perm, shape, two_d, name, stats, rtol=RTOL_OPTIONS[two_d]) or ld
                if err:
                    found += 1
                    par = sorted(k for k in opt if not (two_d and k in ('max_iter', 'max_iter_2') and len(opt) > 1))[0]
                    case = {'kind': 'options', 'two_d': two_d, 'method': name, 'opt': {k: repr(v) for k, v in opt.items()},
                            'weights': use_w, 'wseed': wseed, 'x': [float(v) for v in x], 'y': np.asarray(y).tolist(),
                            'perm': [[int(v) for v in q] for q in perm] if two_d else [int(v) for v in perm]}
                    if two_d:
                        case['z'] = [float(v) for v in z]
                    ctx.fail('order:%s:%s:option:%s' % (dim, name, par),
                             '%s(...).%s(y[perm], %s%s) is not the permuted result of the sorted call (shape %s): %s'
                             % ('Baseline2D' if two_d else 'Baseline', name, ', '.join('%s=%r' % kv for kv in opt.items()),
                                ', weights=w[perm]' if use_w else '', shape, err), case)
    return found


# wrapped methods, by module, with small-data kwargs; `pp` = the per-point keys the method reports
WRAPPED = [
    ('whittaker', 'asls', {'lam': 1e3}), ('whittaker', 'aspls', {'lam': 1e3}), ('whittaker', 'iasls', {'lam': 1e3}),
    ('spline', 'pspline_asls', {'lam': 10, 'num_knots': 8}), ('spline', 'mixture_model', {'lam': 10, 'num_knots': 8}),
    ('polynomial', 'modpoly', {}), ('polynomial', 'imodpoly', {}), ('polynomial', 'loess', {'fraction': 0.3}),
    ('morphological', 'mpls', {'half_window': 4, 'lam': 1e3}), ('morphological', 'mor', {'half_window': 4}),
    ('morphological', 'jbcd', {'half_window': 4}),
    ('classification', 'fabc', {'lam': 1e3, 'scale': 3}), ('classification', 'dietrich', {'smooth_half_window': 2}),
    ('classification', 'cwt_br', {'scales': [2, 3, 4]}), ('classification', 'std_distribution', {'half_window': 4}),
    ('classification', 'rubberband', {'lam': 1.0}),
    ('smooth', 'snip', {'max_half_window': 5}), ('misc', 'beads', {'freq_cutoff': 0.05, 'max_iter': 5}),
]
POLY_PARAM = ('modpoly', 'imodpoly', 'loess', 'dietrich', 'cwt_br')     # optimize_extended_range varies poly_order


def wrapper_cases(n, w):
    """Deterministic enumeration [(label, two_d, wrapper, builder(p) -> kwargs, extra)] of every optimizer/wrapper
    method around wrapped methods of every module.  Combinations the wrapper does not support raise for both
    orders and are counted trivial."""
    out = []
    for mod, meth, base in WRAPPED:
        if mod in ('smooth', 'misc'):
            continue
        for sd in ('both', 'left', 'right'):
            mn, mx = (1, 3) if meth in POLY_PARAM else (2, 4)
            kw = {k: v for k, v in base.items() if k not in ('lam', 'poly_order')}
            out.append(('optimize_extended_range[%s] side=%s' % (meth, sd), False, 'optimize_extended_range',
                        lambda p, meth=meth, sd=sd, mn=mn, mx=mx, kw=kw: {
                            'method': meth, 'side': sd, 'min_value': mn, 'max_value': mx, 'method_kwargs': dict(kw)},
                        {'oer_side': sd}))
        if meth in ('asls', 'aspls', 'pspline_asls', 'modpoly', 'fabc', 'mixture_model'):
            kw = {k: v for k, v in base.items() if k not in ('lam', 'poly_order')}
            wk = 'weights'
            out.append(('optimize_extended_range[%s] side=both weights width_scale=0.2' % meth, False,
                        'optimize_extended_range',
                        lambda p, meth=meth, kw=kw: {
                            'method': meth, 'side': 'both', 'width_scale': 0.2,
                            'min_value': 1 if meth in POLY_PARAM else 2, 'max_value': 3 if meth in POLY_PARAM else 4,
                            'method_kwargs': dict(kw, weights=(w > 0.3) if meth == 'fabc' and p is None else
                                                  ((w > 0.3)[p] if meth == 'fabc' else (w if p is None else w[p])))},
                        {'oer_side': 'both'}))
    for mod, meth, base in WRAPPED:
        if mod in ('polynomial', 'smooth', 'misc'):
            continue
        for avg in (True, False):
            out.append(('collab_pls[%s] average_dataset=%s' % (meth, avg), False, 'collab_pls',
                        lambda p, meth=meth, avg=avg, base=base: {'method': meth, 'average_dataset': avg,
                                                                   'method_kwargs': dict(base)}, None))
    for meth in ('modpoly', 'imodpoly', 'poly', 'penalized_poly', 'loess', 'quant_reg'):
        for cf in (0.1, (0.2, 0.05)):
            out.append(('adaptive_minmax[%s] cf=%s' % (meth, cf), False, 'adaptive_minmax',
                        lambda p, meth=meth, cf=cf: {'method': meth, 'constrained_fraction': cf, 'poly_order': 2}, None))
            out.append(('adaptive_minmax[%s] cf=%s weights' % (meth, cf), False, 'adaptive_minmax',
                        lambda p, meth=meth, cf=cf: {'method': meth, 'constrained_fraction': cf,
                                                     'weights': w if p is None else w[p]}, None))
    for mod, meth, base in WRAPPED:
        out.append(('custom_bc[%s]' % meth, False, 'custom_bc',
                    lambda p, meth=meth, base=base: {'method': meth, 'regions': ((5, 20),), 'sampling': 3,
                                                     'method_kwargs': dict(base)}, None))
    return out


def wrapper_cases_2d():
    out = []
    for mod, meth, base in WRAPPED:
        if meth in ('beads', 'jbcd', 'loess', 'cwt_br'):
            continue
        for axes in (0, 1, (0, 1), (1, 0)):
            kw = dict(base)
            if 'half_window' in kw:
                kw['half_window'] = 2
            if 'num_knots' in kw:
                kw['num_knots'] = 5
            if meth == 'snip':
                kw = {'max_half_window': 3}
            out.append(('individual_axes[%s] axes=%s' % (meth, axes), True, 'individual_axes',
                        lambda p, meth=meth, axes=axes, kw=kw: {'method': meth, 'axes': axes, 'method_kwargs': dict(kw)},
                        None))
    return out


def oracle_wrappers(ctx, stats=None, reps=1):
    """optimize_extended_range, collab_pls, adaptive_minmax, custom_bc (1-D) and individual_axes (2-D) around
    wrapped methods of every module: EVERY per-point array nested anywhere inside params (method_params dicts and
    lists: weights, mask, alpha, signal, ...) must be the correspondingly permuted one."""
    rng = ctx.rng
    found = 0
    for rep in range(reps):
        n = rng.choice([41, 47, 53])
        x = distinct_x(rng, n, 0.0, rng.choice([100.0, 2000.0]))
        y = y_1d(rng, x)
        perm = rand_perm(rng, n)
        wseed = rng.randrange(2 ** 31)
        w = np.random.RandomState(wseed).uniform(0.05, 1.0, n)
        for label, _, wrapper, build, extra in wrapper_cases(n, w):
            ref, got, ld = run_pair_1d(wrapper, x, y, perm, build, with_logs=True)
            ctx.case(('wrap', label, n, tuple(perm[:6])), nontrivial=not isinstance(ref, str), kind='oracle1d:wrappers')
            err = judge(ref, got, perm, (n,), False, wrapper, stats, extra=extra) or ld
            if err:
                found += 1
                ctx.fail('order:1d:%s:wrapped:%s' % (wrapper, label.split('[')[1].split(']')[0]),
                         'Baseline(x[perm]).%s is not the permuted result of the sorted call (N=%d): %s' % (label, n, err),
                         {'kind': 'wrappers', 'two_d': False, 'label': label, 'x': [float(v) for v in x],
                          'y': [float(v) for v in y], 'perm': [int(v) for v in perm], 'wseed': wseed})
        m, nn = rng.choice([(11, 14), (13, 12)])
        x2 = distinct_x(rng, m, -3.0, 8.0)
        z2 = distinct_x(rng, nn, 10.0, 50.0)
        _, _, y2 = M.make_z2d(nprng(rng), m, nn)
        for mode in ('x', 'z', 'xz'):
            px = rand_perm(rng, m) if 'x' in mode else np.arange(m)
            pz = rand_perm(rng, nn) if 'z' in mode else np.arange(nn)
            for label, _, wrapper, build, extra in wrapper_cases_2d():
                ref, got, ld = run_pair_2d(wrapper, x2, z2, y2, (px, pz), build, with_logs=True)
                ctx.case(('wrap2', label, mode, m, nn, tuple(px[:4]), tuple(pz[:4])), nontrivial=not isinstance(ref, str),
                         kind='oracle2d:wrappers')
                err = judge(ref, got, (px, pz), (m, nn), True, wrapper, stats) or ld
                if err:
                    found += 1
                    ctx.fail('order:2d:%s:wrapped:%s' % (wrapper, label.split('[')[1].split(']')[0]),
                             'Baseline2D(x[px], z[pz]).%s is not the permuted result of the sorted call (shape %dx%d, '
                             'permuted axes: %s): %s' % (label, m, nn, mode, err),
                             {'kind': 'wrappers', 'two_d': True, 'label': label, 'x': [float(v) for v in x2],
                              'z': [float(v) for v in z2], 'y': [[float(v) for v in row] for row in y2],
                              'perm': [[int(v) for v in px], [int(v) for v in pz]], 'wseed': 0})
    return found


def data_optional_methods(two_d=False):
    """registered methods whose `data` argument may be omitted (read from the signatures)"""
    out = []
    for name in M.method_names(two_d):
        d = sig_params(name, two_d).get('data')
        if d is not None and d.default is None:
            out.append(name)
    return out


def oracle_nodata(ctx):
    """FIXED grid: every method that may be called WITHOUT data (interp_pts), class and functional interface, on
    unsorted x; baseline_points supplied ascending / descending / shuffled; every interpolation kind; also the
    data-less call must agree with the call with data on the same fitter."""
    import pybaselines.misc as misc
    from pybaselines import Baseline
    rng = ctx.rng
    found = 0
    names = data_optional_methods()
    ctx.extra['data_optional_methods'] = names
    for name in names:
        if name != 'interp_pts':
            ctx.broke('oracle:nodata', 'method %s accepts data=None but the data-less oracle has no call recipe for it' % name)
            continue
        for n in (23, 41):
            x = distinct_x(rng, n, 0.0, 100.0)
            y = y_1d(rng, x)
            perms = [np.arange(n)[::-1].copy(), np.roll(np.arange(n), 5), rand_perm(rng, n)]
            pts0 = np.array([[x[0] - 1, 3.0], [30.0, 12.0], [47.5, -2.0], [62.5, 7.0], [x[-1] + 1, 40.0]])
            for pi, perm in enumerate(perms):
                for po, pts in (('ascending', pts0), ('descending', pts0[::-1]), ('shuffled', pts0[[2, 0, 4, 1, 3]])):
                    for kind in ('linear', 'quadratic', 'cubic', 'nearest'):
                        label = 'interp_pts(baseline_points %s, %s)' % (po, kind)
                        kw = {'baseline_points': pts, 'interp_method': kind}
                        runs = {}
                        for tag, fn in (
                                ('class,data', lambda xx, yy: Baseline(xx).interp_pts(yy, **kw)[0]),
                                ('class,no data', lambda xx, yy: Baseline(xx).interp_pts(**kw)[0]),
                                ('functional,no data', lambda xx, yy: misc.interp_pts(xx, **kw)[0]),
                                ('functional,data', lambda xx, yy: misc.interp_pts(xx, data=yy, **kw)[0])):
                            try:
                                with warnings.catch_warnings():
                                    warnings.simplefilter('ignore')
                                    runs[tag] = (np.asarray(fn(x, y)), np.asarray(fn(x[perm], y[perm])))
                            except Exception as exc:   # noqa
                                runs[tag] = 'raises ' + type(exc).__name__
                        for tag, r in runs.items():
                            ctx.case(('nodata', label, tag, n, pi), nontrivial=not isinstance(r, str), kind='oracle1d:nodata')
                            if isinstance(r, str):
                                continue
                            ok, info = close(r[0][perm], r[1], RTOL[False])
                            ok2, info2 = close(runs['class,data'][1], r[1], RTOL[False]) if not isinstance(
                                runs['class,data'], str) else (True, None)
                            if not ok or not ok2:
                                found += 1
                                what = ('is not the permuted result of the sorted call: %s' % info if not ok else
                                        'differs from the same call WITH data on the same fitter: %s' % info2)
                                ctx.fail('order:1d:interp_pts:%s' % tag.replace(',', '-').replace(' ', ''),
                                         '%s [%s] on x[perm] (N=%d) %s' % (label, tag, n, what),
                                         {'kind': 'nodata', 'tag': tag, 'interp_method': kind, 'points': pts.tolist(),
                                          'x': [float(v) for v in x], 'y': [float(v) for v in y],
                                          'perm': [int(v) for v in perm]})
    return found


ROBUST_1D = ['asls', 'iasls', 'aspls', 'modpoly', 'loess', 'pspline_asls', 'mixture_model', 'mor', 'mpls', 'fabc',
             'rubberband', 'snip', 'beads', 'optimize_extended_range', 'adaptive_minmax', 'collab_pls', 'custom_bc']
ROBUST_2D = ['asls', 'modpoly', 'pspline_asls', 'mor', 'individual_axes', 'adaptive_minmax']


def _neg_stride(a):
    return np.ascontiguousarray(a[..., ::-1])[..., ::-1]


def _strided(a):
    return np.repeat(a, 2, axis=-1)[..., ::2]


def call_on(fitter, name, y, extra, two_d=False):
    kw = M.call_kwargs(name, two_d, **extra)
    if name == 'collab_pls':
        return fitter.collab_pls(np.array([y, y * 1.1 + 1]), **kw)
    return getattr(fitter, name)(y, **kw)


def oracle_robust(ctx, stats=None):
    """FIXED grid over a cross-section of methods: (a) a fitter on unsorted x whose history contains REJECTED calls
    (raised up front and raised deep inside an optimizer) and an accepted call of another method, (b) non-default
    memory layouts of x, data and weights (negative strides, strided views, Fortran order / transposed views in 2-D),
    (c) data at extreme but finite magnitudes -- each compared with the permuted result of a FRESH fitter on sorted x."""
    from pybaselines import Baseline, Baseline2D
    rng = ctx.rng
    found = 0
    n = 47
    x = distinct_x(rng, n, 0.0, 100.0)
    y = y_1d(rng, x)
    perm = rand_perm(rng, n)
    w = np.random.RandomState(11).uniform(0.05, 1.0, n)

    def history(fit, yy):
        for bad in (lambda: fit.asls(yy[:-3]), lambda: fit.asls(yy, diff_order=0),
                    lambda: fit.optimize_extended_range(yy, method='asls', method_kwargs={'lam': -1.0}),
                    lambda: fit.adaptive_minmax(yy, constrained_fraction=2.0),
                    lambda: fit.collab_pls(yy), lambda: fit.not_a_method(yy)):
            try:
                bad()
            except Exception:   # noqa
                pass
        fit.modpoly(yy, poly_order=3)
        fit.pspline_asls(yy, num_knots=6, lam=10)

    variants = [
        ('history with rejected calls', lambda xx, yy, ww: (xx, yy, ww), history, 1.0),
        ('negative strides', lambda xx, yy, ww: (_neg_stride(xx), _neg_stride(yy), _neg_stride(ww)), None, 1.0),
        ('strided views', lambda xx, yy, ww: (_strided(xx), _strided(yy), _strided(ww)), None, 1.0),
        ('python lists', lambda xx, yy, ww: (list(xx), list(yy), list(ww)), None, 1.0),
        ('data * 1e-150', lambda xx, yy, ww: (xx, yy, ww), None, 1e-150),
        ('data * 1e+150', lambda xx, yy, ww: (xx, yy, ww), None, 1e150),
    ]
    for name in ROBUST_1D:
        has_w = 'weights' in sig_params(name) and name != 'collab_pls'
        for use_w in ((False, True) if has_w else (False,)):
            for label, layout, hist, scale in variants:
                res = []
                for p in (None, perm):
                    try:
                        with warnings.catch_warnings():
                            warnings.simplefilter('ignore')
                            xx, yy, ww = (x, y * scale, w) if p is None else layout(x[p], (y * scale)[p], w[p])
                            fit = Baseline(xx)
                            if p is not None and hist is not None:
                                hist(fit, np.asarray(yy))
                            extra = {'weights': ww} if use_w else {}
                            b, prm = call_on(fit, name, np.asarray(yy) if name == 'collab_pls' else yy, extra)
                        res.append({'baseline': np.array(b), 'params': prm})
                    except Exception as exc:   # noqa
                        res.append('raises ' + type(exc).__name__)
                full = '%s%s, %s' % (name, ' +weights' if use_w else '', label)
                ctx.case(('rob', full), nontrivial=not isinstance(res[0], str), kind='oracle1d:robust')
                err = judge(res[0], res[1], perm, (n,), False, name, stats)
                if err:
                    found += 1
                    ctx.fail('order:1d:%s:robust:%s' % (name, label.split(' ')[0]),
                             'Baseline(x[perm]).%s [%s] is not the permuted result of a fresh sorted call (N=%d): %s'
                             % (name, full, n, err),
                             {'kind': 'robust', 'label': full, 'x': [float(v) for v in x], 'y': [float(v) for v in y],
                              'perm': [int(v) for v in perm]})
    # 2-D
    m, nn = 11, 14
    x2 = distinct_x(rng, m, -3.0, 8.0)
    z2 = distinct_x(rng, nn, 10.0, 50.0)
    _, _, y2 = M.make_z2d(nprng(rng), m, nn)
    px, pz = rand_perm(rng, m), rand_perm(rng, nn)

    def hist2(fit, yy):
        for bad in (lambda: fit.asls(yy[:-1]), lambda: fit.asls(yy, diff_order=0),
                    lambda: fit.individual_axes(yy, method='nope'), lambda: fit.adaptive_minmax(yy, constrained_fraction=3.0)):
            try:
                bad()
            except Exception:   # noqa
                pass
        fit.modpoly(yy, poly_order=2)

    variants2 = [
        ('history with rejected calls', lambda a: a, hist2, 1.0),
        ('Fortran order', lambda a: np.asfortranarray(a), None, 1.0),
        ('transposed view', lambda a: np.ascontiguousarray(a.T).T, None, 1.0),
        ('negative strides', lambda a: np.ascontiguousarray(a[::-1, ::-1])[::-1, ::-1], None, 1.0),
        ('data * 1e+150', lambda a: a, None, 1e150),
    ]
    for name in ROBUST_2D:
        for label, layout, hist, scale in variants2:
            res = []
            for p in (None, (px, pz)):
                try:
                    with warnings.catch_warnings():
                        warnings.simplefilter('ignore')
                        if p is None:
                            fit, yy = Baseline2D(x2, z2), y2 * scale
                        else:
                            fit, yy = Baseline2D(_neg_stride(x2[px]) if 'strides' in label else x2[px], z2[pz]), \
                                layout(take(y2 * scale, p, True))
                            if hist is not None:
                                hist(fit, yy)
                        b, prm = call_on(fit, name, yy, {}, True)
                    res.append({'baseline': np.array(b), 'params': prm})
                except Exception as exc:   # noqa
                    res.append('raises ' + type(exc).__name__)
            full = '%s, %s' % (name, label)
            ctx.case(('rob2', full), nontrivial=not isinstance(res[0], str), kind='oracle2d:robust')
            err = judge(res[0], res[1], (px, pz), (m, nn), True, name, stats, rtol=1e-7)
            if err:
                found += 1
                ctx.fail('order:2d:%s:robust:%s' % (name, label.split(' ')[0]),
                         'Baseline2D(x[px], z[pz]).%s [%s] is not the permuted result of a fresh sorted call: %s' % (name, full, err),
                         {'kind': 'robust', 'label': full})
    return found


def zero_patterns(n):
    """FIXED asymmetric zero patterns for user weights over n points (indices in x order)."""
    blk = np.ones(n)
    blk[3:9] = 0                                   # a block near the left edge only
    sc = np.ones(n)
    sc[[1, 5, 6, n // 2 - 3, n - 4]] = 0           # scattered, not mirror symmetric
    rs = np.random.RandomState(20260802)
    rnd = (rs.uniform(0, 1, n) > 0.35).astype(float)
    rnd[0] = rnd[-1] = 1.0
    val = rs.uniform(0.2, 1.0, n)
    return [('left block of zeros (0/1)', blk), ('scattered zeros (0/1)', sc), ('random mask (bool)', rnd.astype(bool)),
            ('scattered zeros x positive values', sc * val)]


def oracle_zero_weights(ctx, stats=None):
    """FIXED grid: every method that takes user weights (classification methods use them as a MASK: only zero vs
    non-zero matters, so all-positive weights cannot show a wrong order), with weights containing zeros placed
    asymmetrically, on reversed / rolled / shuffled x; 1-D and 2-D; plus the wrappers handing such weights on."""
    rng = ctx.rng
    found = 0
    n = 47
    x = distinct_x(rng, n, 0.0, 100.0)
    y = y_1d(rng, x)
    perms = [('reversed', np.arange(n)[::-1].copy()), ('rolled by 7', np.roll(np.arange(n), 7)),
             ('shuffled', rand_perm(random_fixed(8), n))]
    pats = zero_patterns(n)
    names = [nm for nm in M.method_names() if 'weights' in sig_params(nm) and nm != 'collab_pls']
    cells = [(nm, {}) for nm in names]
    cells += [('fabc', {'weights_as_mask': True}), ('rubberband', {'lam': 1.0}), ('rubberband', {'segments': 2}),
              ('cwt_br', {'poly_order': 3}), ('dietrich', {'interp_half_window': 2})]
    for name, extra in cells:
        for plabel, perm in perms:
            for wlabel, w in pats:
                def build(p, w=w, extra=extra):
                    return dict(extra, weights=w if p is None else w[p])
                ref, got, ld = run_pair_1d(name, x, y, perm, build, with_logs=True)
                label = '%s(%sweights: %s), x %s' % (name, ''.join('%s=%r, ' % kv for kv in extra.items()), wlabel, plabel)
                ctx.case(('zw', label), nontrivial=not isinstance(ref, str), kind='oracle1d:zero-weights')
                err = judge(ref, got, perm, (n,), False, name, stats) or ld
                if err:
                    found += 1
                    ctx.fail('order:1d:%s:zero-weights' % name,
                             'Baseline(x[perm]).%s is not the permuted result of the sorted call (N=%d): %s' % (label, n, err),
                             {'kind': 'zero-weights', 'two_d': False, 'method': name, 'extra': {k: repr(v) for k, v in extra.items()},
                              'x': [float(v) for v in x], 'y': [float(v) for v in y], 'perm': [int(v) for v in perm],
                              'w': [float(v) for v in np.asarray(w, dtype=float)], 'bool': bool(np.asarray(w).dtype == bool)})
    # wrappers handing user weights with zeros on to a mask-using method
    for meth, base, mn, mx in (('cwt_br', {'scales': [2, 3, 4]}, 1, 3), ('dietrich', {'smooth_half_window': 2}, 1, 3),
                               ('fabc', {'scale': 3}, 2, 4), ('rubberband', {}, 2, 4)):
        for plabel, perm in perms[1:]:
            for wlabel, w in pats[:3]:
                def build(p, w=w, meth=meth, base=base, mn=mn, mx=mx):
                    return {'method': meth, 'min_value': mn, 'max_value': mx, 'side': 'both',
                            'method_kwargs': dict(base, weights=w if p is None else w[p])}
                ref, got, ld = run_pair_1d('optimize_extended_range', x, y, perm, build, with_logs=True)
                label = 'optimize_extended_range[%s](method_kwargs weights: %s), x %s' % (meth, wlabel, plabel)
                ctx.case(('zw', label), nontrivial=not isinstance(ref, str), kind='oracle1d:zero-weights')
                err = judge(ref, got, perm, (n,), False, 'optimize_extended_range', stats, extra={'oer_side': 'both'}) or ld
                if err:
                    found += 1
                    ctx.fail('order:1d:optimize_extended_range:zero-weights:%s' % meth,
                             'Baseline(x[perm]).%s is not the permuted result of the sorted call (N=%d): %s' % (label, n, err),
                             {'kind': 'zero-weights-wrapper', 'label': label})
    # 2-D
    m, nn = 11, 14
    x2 = distinct_x(rng, m, -3.0, 8.0)
    z2 = distinct_x(rng, nn, 10.0, 50.0)
    _, _, y2 = M.make_z2d(nprng(rng), m, nn)
    w2a = np.ones((m, nn))
    w2a[1:4, 2:9] = 0                                # a block in one corner region
    w2b = (np.random.RandomState(77).uniform(0, 1, (m, nn)) > 0.3).astype(float)
    perms2 = [('x rolled', (np.roll(np.arange(m), 3), np.arange(nn))), ('z reversed', (np.arange(m), np.arange(nn)[::-1].copy())),
              ('x and z shuffled', (rand_perm(random_fixed(9), m), rand_perm(random_fixed(10), nn)))]
    for name in [nm for nm in M.method_names(True) if 'weights' in sig_params(nm, True) and nm != 'collab_pls']:
        for plabel, perm in perms2:
            for wlabel, w in (('corner block of zeros', w2a), ('random 0/1', w2b)):
                def build(p, w=w):
                    return {'weights': w if p is None else take(w, p, True)}
                ref, got, ld = run_pair_2d(name, x2, z2, y2, perm, build, with_logs=True)
                label = '%s(weights: %s), %s' % (name, wlabel, plabel)
                ctx.case(('zw2', label), nontrivial=not isinstance(ref, str), kind='oracle2d:zero-weights')
                err = judge(ref, got, perm, (m, nn), True, name, stats) or ld
                if err:
                    found += 1
                    ctx.fail('order:2d:%s:zero-weights' % name,
                             'Baseline2D(x[px], z[pz]).%s is not the permuted result of the sorted call: %s' % (label, err),
                             {'kind': 'zero-weights-wrapper', 'label': label})
    return found


def random_fixed(k):
    import random as _r
    return _r.Random('C02-fixed-%d' % k)


# ------------------------------------------------------------------------------------------------ setup log
class SetupLog:
    """Records the weight array every _setup_* call returns (the array that reaches the solves).  On permuted
    inputs the sequence must be identical to the one of the sorted run: dynamic counterpart of C02_flow_sound."""
    NAMES = ('_setup_whittaker', '_setup_polynomial', '_setup_spline', '_setup_classification')

    def __init__(self):
        self.log = []
        self.saved = []

    def __enter__(self):
        from pybaselines._algorithm_setup import _Algorithm
        from pybaselines.two_d._algorithm_setup import _Algorithm2D
        for cls in (_Algorithm, _Algorithm2D):
            for name in self.NAMES:
                orig = cls.__dict__.get(name)
                if orig is None:
                    continue
                self.saved.append((cls, name, orig))
                setattr(cls, name, self._wrap(name, orig))
        return self

    def _wrap(self, name, orig):
        log = self.log

        def patched(obj, *a, **k):
            out = orig(obj, *a, **k)
            if isinstance(out, tuple) and len(out) >= 2 and isinstance(out[1], np.ndarray):
                log.append((name, np.array(out[1], dtype=float)))
            return out
        return patched

    def __exit__(self, *exc):
        for cls, name, orig in self.saved:
            setattr(cls, name, orig)
        return False


LOG_EXEMPT = {'fabc', 'rubberband', 'cwt_br', 'individual_axes'}   # cwt_br: calls _setup_polynomial(y, weight_array, ...) on the
# already sorted mask only to build the Vandermonde and DISCARDS the (doubly sorted) arrays it returns;   # individual_axes: one 1-D fit per row/column, run in the
# SUPPLIED order of the other axis, so the sequence of _setup_* calls is itself permuted (outputs and nested params are compared)


def _uses_fabc(name, build):
    """fabc and rubberband (lam > 0) hand an internally built mask, already in sorted order, to _setup_whittaker, which
    sorts it again as if it were user input; fabc un-sorts the returned array afterwards (rows [OSort; OUnsort] of the
    flow table), rubberband discards it and uses its own mask.  The array RETURNED by that setup call is legitimately
    not the one of the sorted run, so the log comparison does not apply there (the outputs are compared; using the
    returned array without compensation is what C02_flow_table rejects)."""
    return name in LOG_EXEMPT or build(None).get('method') in LOG_EXEMPT


def compare_logs(a, b, two_d, rtol=None):
    if len(a) != len(b):
        return 'number of _setup_* calls differs: %d vs %d' % (len(a), len(b))
    for i, ((n1, w1), (n2, w2)) in enumerate(zip(a, b)):
        if n1 != n2:
            return 'call %d: %s vs %s' % (i, n1, n2)
        ok, info = close(w1, w2, rtol if rtol is not None else RTOL[bool(two_d)])
        if not ok:
            return 'the weight array returned by %s (call %d) differs from the sorted run: %s' % (n1, i, info)
    return None


# ------------------------------------------------------------------------------------------------ correspondence
HEADER = """From Coq Require Import ZArith List Bool.
From PB Require Import lib.CaseUtil lib.Perm C02.Model.
Import ListNotations.
Open Scope Z_scope.
Definition nl_eqb (a b : list nat) : bool := zl_eqb (map Z.of_nat a) (map Z.of_nat b).
Definition on_eqb (a b : option (list nat * list nat)) : bool :=
  match a, b with
  | None, None => true
  | Some (s1, i1), Some (s2, i2) => nl_eqb s1 s2 && nl_eqb i1 i2
  | _, _ => false
  end.
"""


def nlist(v):
    return '[' + '; '.join('%d%%nat' % int(k) for k in v) + ']'


def ok_vals(vals):
    return bool(vals) and (vals[0].startswith('(0%nat, [])') or vals[0].startswith('(0, [])'))


def make_probe():
    from pybaselines._algorithm_setup import _Algorithm

    class Probe(_Algorithm):
        @_Algorithm._register(sort_keys=('weights', 'pos', 'rows', 'opt'))
        def echo(self, data, weights=None, use_whittaker=False, with_opt=False):
            if use_whittaker:
                y, w, _ = self._setup_whittaker(data, 1, 2, weights)
            else:
                y, w = self._setup_polynomial(data, weights)
            k = np.arange(len(y))
            prm = {'weights': 3 * w + 100 * k, 'pos': 2 * self.x + k, 'n': len(y),
                   'rows': np.stack([10 * k + 1, self.x + y], axis=1)}     # shape (N, 2), listed in sort_keys
            if with_opt:                                                   # a conditionally output sort_keys entry
                prm['opt'] = np.stack([k, k * k, y], axis=1)               # shape (N, 3)
            return y + 1000 * k + 7 * self.x, prm

        @_Algorithm._register(sort_keys=('pos',))
        def nodata(self, data=None, weights=None):
            # data=None reaches the body as np.asarray(None, dtype=float): a 0-d nan
            k = np.arange(self._size)
            base = 7 * self.x + 1000 * k
            if np.ndim(data) == 1:
                base = base + data
            return base, {'pos': 2 * self.x + k}
    return Probe


def correspondence(ctx):
    rng = ctx.rng
    from pybaselines import utils
    # A. _determine_sorts / _inverted_sort on integer keys (ties included)
    lits = []
    for _ in range(ctx.n(150, 600)):
        n = rng.choice([0, 1, 2, 3, 4, 5, 6, 8, 11, 17])
        kind = rng.random()
        if kind < 0.3:
            x = sorted(rng.sample(range(-50, 50), n))
            if rng.random() < 0.5 and n >= 2:
                i = rng.randrange(n - 1)
                x[i + 1] = x[i]    # sorted with a tie
        elif kind < 0.7:
            x = rng.sample(range(-50, 50), n)
        else:
            x = [rng.randint(-3, 3) for _ in range(n)]
        s, inv = utils._determine_sorts(np.array(x, dtype=float))
        exp = 'None' if s is None else '(Some (%s, %s))' % (nlist(s), nlist(inv))
        lits.append('(%s, %s)' % (zlist(x), exp))
        ctx.case(('ds', tuple(x)), nontrivial=s is not None, kind='corr:determine_sorts')
    text = HEADER + """
Definition cases : list (list Z * option (list nat * list nat)) := [
%s
].
Definition ok (c : list Z * option (list nat * list nat)) : bool := on_eqb (determine_sorts (fst c)) (snd c).
Eval vm_compute in (bad ok cases).
""" % ';\n'.join('  ' + l for l in lits)
    vals = ctx.coq_eval('sorts', text)
    ctx.obligations.append('correspondence:_determine_sorts/_inverted_sort')
    if vals is not None:
        if ok_vals(vals):
            ctx.discharged.append('correspondence:_determine_sorts/_inverted_sort')
        else:
            ctx.broke('correspondence:sorts', 'model and utils._determine_sorts disagree: %s' % vals)

    # B. the real wrapper (_register.inner + _setup_* + _return_results) around a probe body
    Probe = make_probe()
    lits = []
    for _ in range(ctx.n(120, 500)):
        n = rng.choice([1, 2, 3, 4, 5, 7, 9, 12])
        x = rng.sample(range(-40, 40), n)
        if rng.random() < 0.25:
            x = sorted(x)
        y = [rng.randint(-9, 9) for _ in range(n)]
        w = [rng.randint(1, 5) for _ in range(n)] if rng.random() < 0.6 else None
        uw = n >= 4 and rng.random() < 0.5
        wo = rng.random() < 0.5
        with warnings.catch_warnings():
            warnings.simplefilter('ignore')
            b, p = Probe(np.array(x, dtype=float)).echo(np.array(y, dtype=float),
                                                        weights=None if w is None else np.array(w, dtype=float),
                                                        use_whittaker=uw, with_opt=wo)
        if ('opt' in p) != wo:
            ctx.broke('correspondence:wrapper', 'optional sort_keys entry appeared/disappeared')
            continue
        ents = [np.asarray(p[k]).reshape(n, -1) for k in ('weights', 'pos', 'rows', 'opt') if k in p]
        if not all(np.all(a == np.round(a)) for a in [b] + ents):
            ctx.broke('correspondence:wrapper', 'non-integer probe output')
            continue
        lits.append('(%s, %s, %s, %s, %s, [%s])' % (zlist(x), zlist(y), 'None' if w is None else '(Some %s)' % zlist(w),
                                                    'true' if wo else 'false', zlist(int_rows(b)),
                                                    '; '.join(zlist2(int_rows(e)) for e in ents)))
        ctx.case(('wr', tuple(x), tuple(y), None if w is None else tuple(w)), nontrivial=x != sorted(x),
                 kind='corr:wrapper')
    text = HEADER + """
Fixpoint zlll_eqb (a b : list (list (list Z))) : bool :=
  match a, b with [], [] => true | u :: a', v :: b' => zll_eqb u v && zlll_eqb a' b' | _, _ => false end.
(* sort_keys entries as lists of ROWS: shape (N,) = rows of one number, (N,2), (N,3); 'opt' only when requested *)
Definition probe_body (opt : bool) (xs ys : list Z) (ws : option (list Z)) : list Z * list (list (list Z)) :=
  let n := length xs in
  let w := match ws with Some w => w | None => repeat 1 n end in
  (map (fun k => nth k ys 0 + 1000 * Z.of_nat k + 7 * nth k xs 0) (seq 0 n),
   [map (fun k => [3 * nth k w 0 + 100 * Z.of_nat k]) (seq 0 n);
    map (fun k => [2 * nth k xs 0 + Z.of_nat k]) (seq 0 n);
    map (fun k => [10 * Z.of_nat k + 1; nth k xs 0 + nth k ys 0]) (seq 0 n)]
   ++ (if opt then [map (fun k => [Z.of_nat k; Z.of_nat k * Z.of_nat k; nth k ys 0]) (seq 0 n)] else [])).
Definition cases : list (list Z * list Z * option (list Z) * bool * list Z * list (list (list Z))) := [
%s
].
Definition ok (c : list Z * list Z * option (list Z) * bool * list Z * list (list (list Z))) : bool :=
  let '(x, y, w, opt, eb, ee) := c in
  let r := wrapperG Z (list Z) 0 [] (probe_body opt) x y w in
  zl_eqb (fst r) eb && zlll_eqb (snd r) ee.
Eval vm_compute in (bad ok cases).
""" % ';\n'.join('  ' + l for l in lits)
    vals = ctx.coq_eval('wrapper', text)
    ctx.obligations.append('correspondence:wrapper(_register.inner,_setup_*,_return_results)')
    if vals is not None:
        if ok_vals(vals):
            ctx.discharged.append('correspondence:wrapper(_register.inner,_setup_*,_return_results)')
        else:
            ctx.broke('correspondence:wrapper', 'wrapper model and the real _register wrapper disagree: %s' % vals)

    # B2. the data-less entry of the real wrapper (data=None) against wrapperN
    lits = []
    for _ in range(ctx.n(60, 250)):
        n = rng.choice([2, 3, 4, 5, 7, 9])
        x = rng.sample(range(-40, 40), n)
        if rng.random() < 0.2:
            x = sorted(x)
        y = [rng.randint(-9, 9) for _ in range(n)] if rng.random() < 0.5 else None
        with warnings.catch_warnings():
            warnings.simplefilter('ignore')
            fit = Probe(np.array(x, dtype=float))
            b, p = fit.nodata() if y is None else fit.nodata(np.array(y, dtype=float))
        lits.append('(%s, %s, %s, %s)' % (zlist(x), 'None' if y is None else '(Some %s)' % zlist(y),
                                          zlist(int_rows(b)), zlist(int_rows(p['pos']))))
        ctx.case(('nd', tuple(x), None if y is None else tuple(y)), nontrivial=x != sorted(x) and y is None,
                 kind='corr:wrapper-nodata')
    text = HEADER + """
Definition nbody (xs : list Z) (ys ws : option (list Z)) : list Z * list (list Z) :=
  let n := length xs in
  (map (fun k => 7 * nth k xs 0 + 1000 * Z.of_nat k + match ys with Some y => nth k y 0 | None => 0 end) (seq 0 n),
   [map (fun k => 2 * nth k xs 0 + Z.of_nat k) (seq 0 n)]).
Definition cases : list (list Z * option (list Z) * list Z * list Z) := [
%s
].
Definition ok (c : list Z * option (list Z) * list Z * list Z) : bool :=
  let '(x, y, eb, ep) := c in
  let r := wrapperN Z Z 0 0 nbody false x y None in
  zl_eqb (fst r) eb && zll_eqb (snd r) [ep].
Eval vm_compute in (bad ok cases).
""" % ';\n'.join('  ' + l for l in lits)
    vals = ctx.coq_eval('nodata', text)
    ctx.obligations.append('correspondence:wrapper-without-data(_register.inner data=None)')
    if vals is not None:
        if ok_vals(vals) and lits:
            ctx.discharged.append('correspondence:wrapper-without-data(_register.inner data=None)')
        else:
            ctx.broke('correspondence:nodata', 'wrapperN and the real _register wrapper disagree when data is None: %s' % vals)

    # C. the four 2-D layouts of _sort_order/_inverted_order with utils._sort_array2d
    from pybaselines.two_d._algorithm_setup import _Algorithm2D
    lits = []
    for _ in range(ctx.n(80, 300)):
        m, n = rng.choice([1, 2, 3, 4, 5]), rng.choice([1, 2, 3, 4, 6])
        x = rng.sample(range(-20, 20), m)
        z = rng.sample(range(-20, 20), n)
        r = rng.random()
        if r < 0.25:
            x = sorted(x)
        elif r < 0.5:
            z = sorted(z)
        elif r < 0.6:
            x, z = sorted(x), sorted(z)
        y = [[rng.randint(-99, 99) for _ in range(n)] for _ in range(m)]
        with warnings.catch_warnings():
            warnings.simplefilter('ignore')
            obj = _Algorithm2D(np.array(x, dtype=float), np.array(z, dtype=float))
        ys = utils._sort_array2d(np.array(y, dtype=float), obj._sort_order)
        yu = utils._sort_array2d(np.array(y, dtype=float), obj._inverted_order)
        back = utils._sort_array2d(ys, obj._inverted_order)
        if not np.array_equal(back, np.array(y, dtype=float)):
            ctx.fail('sort2d:roundtrip', '_sort_array2d(_sort_array2d(y, order), inverted) != y', {'kind': 'sort2d', 'x': x, 'z': z})
        lits.append('(%s, %s, %s, %s, %s)' % (zlist(x), zlist(z), zlist2(y), zlist2(ys.astype(int).tolist()),
                                              zlist2(yu.astype(int).tolist())))
        ctx.case(('s2', tuple(x), tuple(z)), nontrivial=obj._sort_order is not None, kind='corr:sort2d')
    text = HEADER + """
Definition cases : list (list Z * list Z * list (list Z) * list (list Z) * list (list Z)) := [
%s
].
Definition ok (c : list Z * list Z * list (list Z) * list (list Z) * list (list Z)) : bool :=
  let '(x, z, y, es, eu) := c in
  let ox := determine_sorts x in
  let oz := determine_sorts z in
  zll_eqb (sort_array2d Z 0 y (mk_order2 (option_map fst ox) (option_map fst oz))) es
  && zll_eqb (sort_array2d Z 0 y (mk_order2 (option_map snd ox) (option_map snd oz))) eu.
Eval vm_compute in (bad ok cases).
""" % ';\n'.join('  ' + l for l in lits)
    vals = ctx.coq_eval('sort2d', text)
    ctx.obligations.append('correspondence:_Algorithm2D-order-layouts/_sort_array2d')
    if vals is not None:
        if ok_vals(vals):
            ctx.discharged.append('correspondence:_Algorithm2D-order-layouts/_sort_array2d')
        else:
            ctx.broke('correspondence:sort2d', '2-D order model and _sort_array2d disagree: %s' % vals)

    # D. the extended sort order of optimize_extended_range (captured at _override_x)
    from pybaselines import Baseline
    from pybaselines._algorithm_setup import _Algorithm
    lits = []
    captured = []
    orig = _Algorithm._override_x

    def spy(self, new_x, new_sort_order=None):
        captured.append(None if new_sort_order is None else [int(v) for v in new_sort_order])
        return orig(self, new_x, new_sort_order=new_sort_order)
    _Algorithm._override_x = spy
    try:
        for _ in range(ctx.n(30, 120)):
            n = rng.choice([10, 13, 20, 31])
            xs = distinct_x(rng, n)
            perm = rand_perm(rng, n)
            sd = rng.choice(['left', 'right', 'both'])
            ws = rng.choice([0.1, 0.2, 0.34])
            fit = Baseline(xs[perm])
            del captured[:]
            with warnings.catch_warnings():
                warnings.simplefilter('ignore')
                fit.optimize_extended_range(y_1d(rng, xs)[perm], method='asls', side=sd, width_scale=ws,
                                            min_value=2, max_value=2)
            aw = int(n * ws)
            if len(captured) != 1 or captured[0] is None:
                ctx.broke('correspondence:extended-order', 'no extended sort order captured')
                continue
            lits.append('(%s, %s, %d%%nat, %d%%nat, %s)' % ({'left': 'SLeft', 'right': 'SRight', 'both': 'SBoth'}[sd],
                                                            nlist(fit._sort_order), n, aw, nlist(captured[0])))
            ctx.case(('ext', n, sd, ws, tuple(perm[:5])), nontrivial=aw > 0, kind='corr:extended_order')
    finally:
        _Algorithm._override_x = orig
    text = HEADER + """
Definition cases : list (side * list nat * nat * nat * list nat) := [
%s
].
Definition ok (c : side * list nat * nat * nat * list nat) : bool :=
  let '(sd, s, n, aw, e) := c in nl_eqb (extended_order sd s n aw) e.
Eval vm_compute in (bad ok cases).
""" % ';\n'.join('  ' + l for l in lits)
    vals = ctx.coq_eval('extorder', text)
    ctx.obligations.append('correspondence:optimize_extended_range-new_sort_order')
    if vals is not None:
        if ok_vals(vals) and lits and not any(nm == 'correspondence:extended-order' for nm, _ in ctx.broken):
            ctx.discharged.append('correspondence:optimize_extended_range-new_sort_order')
        else:
            ctx.broke('correspondence:extended-order', 'extended_order model and optimizers.py disagree: %s' % vals)


HEADER2 = HEADER.replace('C02.Model.', 'C02.Model C02.OptModel.') + """
Definition onl_eqb (a b : option (list nat)) : bool :=
  match a, b with None, None => true | Some p, Some q => nl_eqb p q | _, _ => false end.
(* integer probe body shared by the optimizer correspondences: position dependent, uses x *)
Definition pbody (xs ys : list Z) (ws : option (list Z)) : list Z * list (list Z) :=
  let n := length ys in
  let w := match ws with Some w => w | None => repeat 1 n end in
  (map (fun k => nth k ys 0 + 1000 * Z.of_nat k + nth 0 ys 0 + 2 * nth (n - 1) ys 0) (seq 0 n),
   [map (fun k => 3 * nth k w 0 + 100 * Z.of_nat k) (seq 0 n)]).
Definition xbody (xs ys : list Z) (ws : option (list Z)) : list Z * list (list Z) :=
  (map (fun k => nth k ys 0 + 10 * Z.of_nat k + 3 * nth k xs 0) (seq 0 (length xs)), []).
"""


def olist(v):
    return 'None' if v is None else '(Some %s)' % nlist(v)


def frac(k, n):
    """a fraction f with ceil(n * f) == k exactly (0 <= k <= n)"""
    import math
    f = 0.0 if k == 0 else (k - 0.5) / n
    assert math.ceil(n * f) == k
    return f


def int_rows(a):
    a = np.asarray(a, dtype=float)
    if not np.all(a == np.round(a)):
        raise ValueError('non-integer value')
    return a.astype(int).tolist()


def make_probe_baseline():
    from pybaselines import Baseline
    from pybaselines._algorithm_setup import _Algorithm

    class ProbeBaseline(Baseline):
        made = []

        def __init__(self, x_data=None, check_finite=True, assume_sorted=False, output_dtype=None):
            ProbeBaseline.made.append((None if x_data is None else [float(v) for v in np.asarray(x_data)],
                                       bool(assume_sorted)))
            super().__init__(x_data, check_finite=check_finite, assume_sorted=assume_sorted,
                             output_dtype=output_dtype)

        @_Algorithm._register(sort_keys=('weights',))
        def echo(self, data, weights=None, lam=None):
            y, w = self._setup_polynomial(data, weights)
            k = np.arange(len(y))
            return y + 1000 * k + y[0] + 2 * y[-1], {'weights': 3 * w + 100 * k}

        @_Algorithm._register(sort_keys=('weights',))
        def cecho(self, data, weights=None, tol=None, lam=None):
            y, w = self._setup_polynomial(data, weights)
            k = np.arange(len(y))
            return y + 1000 * k, {'weights': 3 * w + 100 * k + y}

        @_Algorithm._register
        def xecho(self, data):
            y, _ = self._setup_polynomial(data, None)
            return y + 10 * np.arange(len(y)) + 3 * self.x, {}
    return ProbeBaseline


def make_probe2d():
    from pybaselines.two_d._algorithm_setup import _Algorithm2D

    class Probe2D(_Algorithm2D):
        @_Algorithm2D._register(sort_keys=('weights', 'stack'))
        def echo(self, data, weights=None, with_stack=True):
            y, w = self._setup_polynomial(data, weights)
            y = y.reshape(self._shape)
            w = w.reshape(self._shape)
            i = np.arange(self._shape[0])[:, None]
            j = np.arange(self._shape[1])[None, :]
            prm = {'weights': 3 * w + 100 * i + 10 * j}
            if with_stack:
                prm['stack'] = np.stack([y + i, 10 * i + j + 0 * y], axis=2)      # shape (M, N, 2) in sort_keys
            return y + 1000 * i + 100 * j + 7 * self.x[:, None] + 3 * self.z[None, :], prm
    return Probe2D


def eval_cases(ctx, name, ob, header, types, lits, okdef, what):
    text = header + """
Definition cases : list (%s) := [
%s
].
%s
Eval vm_compute in (bad ok cases).
""" % (types, ';\n'.join('  ' + l for l in lits), okdef)
    vals = ctx.coq_eval(name, text)
    ctx.obligations.append(ob)
    if vals is not None:
        if ok_vals(vals) and lits:
            ctx.discharged.append(ob)
        else:
            ctx.broke('correspondence:' + name, '%s: %s' % (what, vals))


def correspondence_opt(ctx):
    """Exact-integer ties of the optimizer models (C02/OptModel.v) and of the 2-D wrapper to the code."""
    rng = ctx.rng
    from pybaselines import Baseline, Baseline2D
    import pybaselines.optimizers as opt1
    import pybaselines.two_d.optimizers as opt2
    import pybaselines.whittaker as whit

    def rand_keys(n, lo=-40, hi=40):
        x = rng.sample(range(lo, hi), n)
        return sorted(x) if rng.random() < 0.2 else x

    # E. adaptive_minmax 1-D: the arrays handed to the polynomial method + the order used at each _sort_array site
    lits = []
    orig = opt1._sort_array
    seen = []

    def spy(array, sort_order=None):
        seen.append(None if sort_order is None else [int(v) for v in sort_order])
        return orig(array, sort_order)
    opt1._sort_array = spy
    try:
        for _ in range(ctx.n(60, 250)):
            n = rng.choice([5, 6, 7, 9, 12])
            x = rand_keys(n)
            w = [rng.randint(1, 5) for _ in range(n)] if rng.random() < 0.6 else None
            kl, kr = rng.randint(0, n), rng.randint(0, n)
            wl, wr = rng.randint(10, 99), rng.randint(100, 999)
            y = np.array([rng.uniform(0, 10) for _ in range(n)])
            del seen[:]
            with warnings.catch_warnings():
                warnings.simplefilter('ignore')
                _, prm = Baseline(np.array(x, dtype=float)).adaptive_minmax(
                    y, poly_order=1, method='poly', weights=None if w is None else np.array(w, dtype=float),
                    constrained_fraction=(frac(kl, n), frac(kr, n)), constrained_weight=(wl, wr))
            lits.append('(%s, %s, %d%%nat, %d%%nat, %d, %d, %s, %s, [%s])' % (
                zlist(x), zlist(w if w is not None else [1] * n), kl, kr, wl, wr,
                zlist(int_rows(prm['weights'])), zlist(int_rows(prm['constrained_weights'])),
                '; '.join(olist(o) for o in seen)))
            ctx.case(('amm1', tuple(x), None if w is None else tuple(w), kl, kr), nontrivial=x != sorted(x),
                     kind='corr:adaptive_minmax')
    finally:
        opt1._sort_array = orig
    eval_cases(ctx, 'amm1', 'correspondence:adaptive_minmax-1d(weights,constrained_weights,orders)', HEADER2,
               'list Z * list Z * nat * nat * Z * Z * list Z * list Z * list (option (list nat))', lits, """
Definition ok (c : list Z * list Z * nat * nat * Z * Z * list Z * list Z * list (option (list nat))) : bool :=
  let '(x, w, kl, kr, wl, wr, ew, ec, orders) := c in
  let r := amm_weights Z 0 x w kl kr wl wr in
  let o := determine_sorts x in
  zl_eqb (fst r) ew && zl_eqb (snd r) ec &&
  match orders with
  | [o1; o2; o3] => onl_eqb o1 (option_map fst o) && onl_eqb o2 (option_map snd o) && onl_eqb o3 (option_map snd o)
  | [] => match o with None => true | Some _ => false end   (* `if sort_weights:` skips the three calls *)
  | _ => false
  end.""", 'adaptive_minmax model and optimizers.py disagree')

    # F. adaptive_minmax 2-D
    lits = []
    for _ in range(ctx.n(40, 150)):
        m, n = rng.choice([3, 4, 5]), rng.choice([3, 4, 6])
        x, z = rand_keys(m, -20, 20), rand_keys(n, -20, 20)
        w = [[rng.randint(1, 5) for _ in range(n)] for _ in range(m)] if rng.random() < 0.6 else None
        k = [rng.randint(0, m), rng.randint(0, m), rng.randint(0, n), rng.randint(0, n)]
        cw = [rng.randint(10, 19), rng.randint(20, 29), rng.randint(30, 39), rng.randint(40, 49)]
        y = np.array([[rng.uniform(0, 10) for _ in range(n)] for _ in range(m)])
        with warnings.catch_warnings():
            warnings.simplefilter('ignore')
            _, prm = Baseline2D(np.array(x, dtype=float), np.array(z, dtype=float)).adaptive_minmax(
                y, poly_order=1, method='poly', weights=None if w is None else np.array(w, dtype=float),
                constrained_fraction=(frac(k[0], m), frac(k[1], m), frac(k[2], n), frac(k[3], n)),
                constrained_weight=tuple(cw))
        lits.append('(%s, %s, %s, %s, %s, %s, %s)' % (
            zlist(x), zlist(z), zlist2(w if w is not None else [[1] * n] * m),
            '[' + '; '.join('%d%%nat' % v for v in k) + ']', zlist(cw),
            zlist2(int_rows(prm['weights'])), zlist2(int_rows(prm['constrained_weights']))))
        ctx.case(('amm2', tuple(x), tuple(z), tuple(k)), nontrivial=x != sorted(x) or z != sorted(z),
                 kind='corr:adaptive_minmax2d')
    eval_cases(ctx, 'amm2', 'correspondence:adaptive_minmax-2d(weights,constrained_weights)', HEADER2,
               'list Z * list Z * list (list Z) * list nat * list Z * list (list Z) * list (list Z)', lits, """
Definition ok (c : list Z * list Z * list (list Z) * list nat * list Z * list (list Z) * list (list Z)) : bool :=
  let '(x, z, w, k, cw, ew, ec) := c in
  let r := amm_weights2 Z 0 x z w (nth 0 k 0%nat) (nth 1 k 0%nat) (nth 2 k 0%nat) (nth 3 k 0%nat)
                        (nth 0 cw 0) (nth 1 cw 0) (nth 2 cw 0) (nth 3 cw 0) in
  zll_eqb (fst r) ew && zll_eqb (snd r) ec.""", '2-D adaptive_minmax model and two_d/optimizers.py disagree')

    # G. optimize_extended_range + _override_x around an integer probe method; edges/gaussian replaced by integer
    #    functions of what they are given (so that "edges come from the SORTED data" is observable)
    PB = make_probe_baseline()
    lits = []
    saved = (opt1._get_edges, opt1.gaussian, getattr(whit, 'echo', None))
    opt1._get_edges = lambda data, pad_length, **kw: (10 * data[0] + np.arange(pad_length),
                                                      10 * data[-1] + 2 * np.arange(pad_length))
    opt1.gaussian = lambda xv, *a, **k: 5.0 * np.arange(len(xv))
    whit.echo = True
    try:
        for _ in range(ctx.n(60, 250)):
            n = rng.choice([10, 11, 13, 16])
            x = rand_keys(n)
            y = [rng.randint(-9, 9) for _ in range(n)]
            w = [rng.randint(1, 5) for _ in range(n)] if rng.random() < 0.6 else None
            sd = rng.choice(['left', 'right', 'both'])
            ws = rng.choice([0.1, 0.2, 0.3])
            aw = int(n * ws)
            with warnings.catch_warnings():
                warnings.simplefilter('ignore')
                b, prm = PB(np.array(x, dtype=float)).optimize_extended_range(
                    np.array(y, dtype=float), method='echo', side=sd, width_scale=ws, min_value=2, max_value=2,
                    method_kwargs={} if w is None else {'weights': np.array(w, dtype=float)})
            lits.append('(%s, %d%%nat, %s, %s, %s, %s, %s)' % (
                {'left': 'SLeft', 'right': 'SRight', 'both': 'SBoth'}[sd], aw, zlist(x), zlist(y),
                'None' if w is None else '(Some %s)' % zlist(w), zlist(int_rows(b)),
                zlist(int_rows(prm['method_params']['weights']))))
            ctx.case(('oer', sd, aw, tuple(x), tuple(y)), nontrivial=x != sorted(x), kind='corr:extended_range')
    finally:
        opt1._get_edges, opt1.gaussian = saved[0], saved[1]
        if saved[2] is None:
            del whit.echo
        else:
            whit.echo = saved[2]
    eval_cases(ctx, 'oer', 'correspondence:optimize_extended_range+_override_x(baseline,weights)', HEADER2,
               'side * nat * list Z * list Z * option (list Z) * list Z * list Z', lits, """
Definition ok (c : side * nat * list Z * list Z * option (list Z) * list Z * list Z) : bool :=
  let '(sd, aw, x, y, w, eb, ew) := c in
  let el := fun ys : list Z => map (fun j => 10 * nth 0 ys 0 + 6 * Z.of_nat j) (seq 0 aw) in
  let er := fun ys : list Z => map (fun j => 10 * nth (length ys - 1) ys 0 + 7 * Z.of_nat j) (seq 0 aw) in
  let r := oer Z 0 pbody el er (fun _ => []) (fun _ => []) 1 sd aw x y w in
  zl_eqb (fst r) eb && zll_eqb (snd r) [ew].""", 'optimize_extended_range model and optimizers.py disagree')

    # H. individual_axes: Baseline replaced by the probe subclass (records x_data / assume_sorted)
    lits = []
    saved_b = opt2.Baseline
    opt2.Baseline = PB
    try:
        for _ in range(ctx.n(50, 200)):
            m, n = rng.choice([2, 3, 4, 5]), rng.choice([2, 3, 4, 6])
            x, z = rand_keys(m, -20, 20), rand_keys(n, -20, 20)
            if rng.random() < 0.15:
                x, z = sorted(x), sorted(z)
            y = [[rng.randint(-9, 9) for _ in range(n)] for _ in range(m)]
            axes = rng.choice([(0, 1), (1, 0), (0,), (1,)])
            del PB.made[:]
            with warnings.catch_warnings():
                warnings.simplefilter('ignore')
                b, prm = Baseline2D(np.array(x, dtype=float), np.array(z, dtype=float)).individual_axes(
                    np.array(y, dtype=float), axes=axes if len(axes) > 1 else axes[0], method='xecho')
            parts = [prm['baseline_rows' if a == 0 else 'baseline_columns'] for a in axes]
            made = PB.made[:len(axes)]
            vals = '[' + '; '.join(zlist(int_rows(v)) for v, _ in made) + ']'
            flags = '[' + '; '.join('true' if f else 'false' for _, f in made) + ']'
            lits.append('(%s, %s, %s, [%s], %s, [%s], %s, %s)' % (
                zlist(x), zlist(z), zlist2(y), '; '.join('true' if a else 'false' for a in axes),
                zlist2(int_rows(b)), '; '.join(zlist2(int_rows(pp)) for pp in parts), vals, flags))
            ctx.case(('ia', tuple(x), tuple(z), axes), nontrivial=x != sorted(x) or z != sorted(z),
                     kind='corr:individual_axes')
    finally:
        opt2.Baseline = saved_b
    eval_cases(ctx, 'ia', 'correspondence:individual_axes(baseline,partials,axis values,assume_sorted)', HEADER2,
               'list Z * list Z * list (list Z) * list bool * list (list Z) * list (list (list Z)) * list (list Z) * list bool',
               lits, """
Fixpoint zlll_eqb (a b : list (list (list Z))) : bool :=
  match a, b with [], [] => true | u :: a', v :: b' => zll_eqb u v && zlll_eqb a' b' | _, _ => false end.
Definition ok (c : list Z * list Z * list (list Z) * list bool * list (list Z) * list (list (list Z)) * list (list Z) * list bool) : bool :=
  let '(x, z, y, axes, eb, ep, vals, flags) := c in
  let r := individual_axes Z 0 0 Z.add Z.sub xbody xbody x z y axes in
  let '(xin, zin, srt) := axis_values x z in
  zll_eqb (fst r) eb && zlll_eqb (snd r) ep
  && zll_eqb vals (map (fun a : bool => if a then zin else xin) axes)
  && bl_eqb flags (map (fun _ => srt) axes).""", 'individual_axes model and two_d/optimizers.py disagree')

    # I. the real 2-D wrapper (_Algorithm2D._register.inner + _setup_polynomial + _return_results) around a probe body
    P2 = make_probe2d()
    lits = []
    for _ in range(ctx.n(60, 250)):
        m, n = rng.choice([2, 3, 4, 5]), rng.choice([2, 3, 4, 6])
        x, z = rand_keys(m, -20, 20), rand_keys(n, -20, 20)
        r = rng.random()
        if r < 0.2:
            x = sorted(x)
        elif r < 0.4:
            z = sorted(z)
        y = [[rng.randint(-9, 9) for _ in range(n)] for _ in range(m)]
        w = [[rng.randint(1, 5) for _ in range(n)] for _ in range(m)] if rng.random() < 0.6 else None
        with warnings.catch_warnings():
            warnings.simplefilter('ignore')
            # in the z-only layout (..., z_order) the code indexes the LAST axis, so an (M, N, k) entry is only
            # supported (and modelled) when x needs sorting or nothing does; no registered method has such an entry
            ws_ = not (x == sorted(x) and z != sorted(z))
            b, prm = P2(np.array(x, dtype=float), np.array(z, dtype=float)).echo(
                np.array(y, dtype=float), weights=None if w is None else np.array(w, dtype=float), with_stack=ws_)
        st = int_rows(prm['stack']) if ws_ else []
        lits.append('(%s, %s, %s, %s, %s, %s, %s, %s, %s)' % (
            zlist(x), zlist(z), zlist2(y), 'None' if w is None else '(Some %s)' % zlist2(w), 'true' if ws_ else 'false',
            zlist2(int_rows(b)), zlist2(int_rows(prm['weights'])),
            zlist2([[c[0] for c in row] for row in st]), zlist2([[c[1] for c in row] for row in st])))
        ctx.case(('wr2', tuple(x), tuple(z)), nontrivial=x != sorted(x) or z != sorted(z), kind='corr:wrapper2d')
    eval_cases(ctx, 'wrapper2', 'correspondence:wrapper2(_Algorithm2D._register.inner,_setup_*,_return_results)', HEADER2,
               'list Z * list Z * list (list Z) * option (list (list Z)) * bool * list (list Z) * list (list Z) * list (list Z) * list (list Z)', lits, """
(* entries as M x N arrays of ROWS: 'weights' (M,N) = rows of one number, 'stack' (M,N,2) *)
Definition body2 (st : bool) (xs zs : list Z) (ys : list (list Z)) (ws : option (list (list Z))) :=
  let n := length xs in let m := length zs in
  (tab2 Z n m (fun i j => nth2 Z 0 ys i j + 1000 * Z.of_nat i + 100 * Z.of_nat j + 7 * nth i xs 0 + 3 * nth j zs 0),
   [tab2 (list Z) n m (fun i j => [3 * (match ws with Some w => nth2 Z 0 w i j | None => 1 end) + 100 * Z.of_nat i + 10 * Z.of_nat j])]
   ++ (if st then [tab2 (list Z) n m (fun i j => [nth2 Z 0 ys i j + Z.of_nat i; 10 * Z.of_nat i + Z.of_nat j])] else [])).
Definition comp (k : nat) (a : list (list (list Z))) : list (list Z) := map (map (fun r => nth k r 0)) a.
Definition ok (c : list Z * list Z * list (list Z) * option (list (list Z)) * bool * list (list Z) * list (list Z) * list (list Z) * list (list Z)) : bool :=
  let '(x, z, y, w, st, eb, ew, es0, es1) := c in
  let r := wrapper2G Z (list Z) 0 [] (body2 st) x z y w in
  zll_eqb (fst r) eb &&
  match snd r with
  | [rw; rs] => st && zll_eqb (comp 0 rw) ew && zll_eqb (comp 0 rs) es0 && zll_eqb (comp 1 rs) es1
  | [rw] => negb st && zll_eqb (comp 0 rw) ew
  | _ => false
  end.""",
               '2-D wrapper model and the real _Algorithm2D._register wrapper disagree')


def correspondence_get_function(ctx):
    """_get_function (1-D and 2-D) with a module whose class the fitter does not provide: the x / z and the
    assume_sorted flag the sub-fitter class is constructed with, against get_function_x / axis_values."""
    import types
    rng = ctx.rng
    from pybaselines.optimizers import _Optimizers as Opt1
    from pybaselines.two_d.optimizers import _Optimizers as Opt2
    rec = []

    class _Fake:
        def __init__(self, *args, check_finite=True, assume_sorted=False, output_dtype=None):
            rec.append(([[float(v) for v in a] for a in args], bool(assume_sorted)))

        def c02_probe(self):
            return None
    mod = types.SimpleNamespace(__name__='pkg.fake', _Fake=_Fake, c02_probe=True)
    lits = []
    for _ in range(ctx.n(60, 200)):
        two_d = rng.random() < 0.5
        m, n = rng.choice([2, 3, 4, 6]), rng.choice([2, 3, 5])
        x = rng.sample(range(-30, 30), m)
        z = rng.sample(range(-30, 30), n)
        r = rng.random()
        if r < 0.25:
            x = sorted(x)
        elif r < 0.5:
            z = sorted(z)
        elif r < 0.6:
            x, z = sorted(x), sorted(z)
        del rec[:]
        with warnings.catch_warnings():
            warnings.simplefilter('ignore')
            if two_d:
                Opt2(np.array(x, dtype=float), np.array(z, dtype=float))._get_function('c02_probe', (mod,))
            else:
                Opt1(np.array(x, dtype=float))._get_function('c02_probe', (mod,))
        if len(rec) != 1 or len(rec[0][0]) != (2 if two_d else 1):
            ctx.broke('correspondence:get_function', 'sub-fitter class constructed %d times / unexpected arguments' % len(rec))
            continue
        args, flag = rec[0]
        lits.append('(%s, %s, %s, %s, %s, %s)' % ('true' if two_d else 'false', zlist(x), zlist(z if two_d else []),
                                                  zlist(int_rows(args[0])), zlist(int_rows(args[1]) if two_d else []),
                                                  'true' if flag else 'false'))
        ctx.case(('gf', two_d, tuple(x), tuple(z) if two_d else ()), nontrivial=not flag, kind='corr:get_function')
    eval_cases(ctx, 'getfunc', 'correspondence:_get_function(x,z,assume_sorted of the sub-fitter)', HEADER2,
               'bool * list Z * list Z * list Z * list Z * bool', lits, """
Definition ok (c : bool * list Z * list Z * list Z * list Z * bool) : bool :=
  let '(two_d, x, z, ex, ez, flag) := c in
  if two_d then
    let '(xin, zin, srt) := axis_values x z in zl_eqb xin ex && zl_eqb zin ez && Bool.eqb srt flag
  else
    let '(xin, srt) := get_function_x x in zl_eqb xin ex && Bool.eqb srt flag.""",
               '_get_function model and _algorithm_setup.py disagree')


def correspondence_collab(ctx):
    """collab_pls around an integer probe method against C02/CollabModel.v (own FIXED random stream)."""
    import pybaselines.whittaker as whit
    rng = random_fixed(21)
    PB = make_probe_baseline()
    lits = []
    saved = getattr(whit, 'cecho', None)
    whit.cecho = True
    try:
        for _ in range(ctx.n(40, 160)):
            n = rng.choice([3, 4, 5, 7, 9])
            x = rng.sample(range(-40, 40), n)
            if rng.random() < 0.15:
                x = sorted(x)
            ys = [[4 * rng.randint(-5, 5) for _ in range(n)] for _ in range(2)]
            avg = rng.random() < 0.5
            with warnings.catch_warnings():
                warnings.simplefilter('ignore')
                b, prm = PB(np.array(x, dtype=float)).collab_pls(np.array(ys, dtype=float), average_dataset=avg,
                                                                 method='cecho')
            lits.append('(%s, %s, %s, %s, %s, %s)' % ('true' if avg else 'false', zlist(x), zlist2(ys),
                                                      zlist(int_rows(prm['average_weights'])), zlist2(int_rows(b)),
                                                      zlist2([int_rows(v) for v in prm['method_params']['weights']])))
            ctx.case(('collab', avg, tuple(x), tuple(map(tuple, ys))), nontrivial=x != sorted(x), kind='corr:collab_pls')
    finally:
        if saved is None:
            del whit.cecho
        else:
            whit.cecho = saved
    eval_cases(ctx, 'collab', 'correspondence:collab_pls(average_weights,baselines,weights)',
               HEADER2.replace('C02.OptModel.', 'C02.OptModel C02.CollabModel.'),
               'bool * list Z * list (list Z) * list Z * list (list Z) * list (list Z)', lits, """
Definition cb (xs ys : list Z) (ws : option (list Z)) : list Z * list Z :=
  let n := length ys in
  let w := match ws with Some w => w | None => repeat 1 n end in
  (map (fun k => nth k ys 0 + 1000 * Z.of_nat k) (seq 0 n),
   map (fun k => 3 * nth k w 0 + 100 * Z.of_nat k + nth k ys 0) (seq 0 n)).
Definition zmean (l : list Z) : Z := fold_right Z.add 0 l / Z.of_nat (length l).
Definition ok (c : bool * list Z * list (list Z) * list Z * list (list Z) * list (list Z)) : bool :=
  let '(avg, x, ys, ew, eb, ews) := c in
  let r := collab_pls Z 0 zmean cb cb avg x ys in
  zl_eqb (fst r) ew && zll_eqb (map fst (snd r)) eb && zll_eqb (map snd (snd r)) ews.""",
               'collab_pls model and optimizers.py disagree')


# ------------------------------------------------------------------------------------------------ entry points
def run(ctx):
    ctx.rule = ('oracle cases: (method, variant, N or shape, permutation) with distinct non-uniform x/z, random permutations '
                'that are neither identity, reversal nor involutions; variants = default kwargs, max_iter in {0,1}, '
                'tol=0 with max_iter=2, user weights (and alpha for aspls), optimizer sub-methods/sides; 2-D: x only, z only, '
                'both; compared: baseline and every per-point params entry must be the permuted one, every other entry '
                'equal (1-D rtol 1e-10 -- bit-identical in practice --, 2-D rtol 1e-8), plus the weight array returned by '
                'every _setup_* call must equal the one of the sorted run.  non-trivial = the sorted call returned '
                '(cases where both raise are counted trivial).  correspondence cases: integer keys with ties, random '
                'integer data, compared exactly inside Coq')
    ctx.trusted += [
        'the method bodies are functions of the sorted x, the sorted data and the tracked per-point inputs only: '
        'classification by tools/gen_orderflow.py (abstract interpretation, fail-closed) for methods without skip_sorting; '
        'the wrappers (1-D, 2-D), _get_function, _override_x + optimize_extended_range, adaptive_minmax (1-D, 2-D) and '
        'individual_axes are Gallina models proved equivariant and tied to the code by exact-integer correspondences '
        '(probe bodies through the REAL wrappers / optimizers; utils._get_edges and gaussian replaced by integer functions '
        'of their arguments in the optimize_extended_range correspondence); collab_pls is modelled and proved likewise '
        '(C02/CollabModel.v); custom_bc (3 statements pinned as text) has no model and is covered by the oracle only',
        'numpy argsort(kind="mergesort") modelled as stable insertion sort (sampled with ties by the correspondence)',
        'float rounding: equality of sorted-run and permuted-run results is observed (bit-identical in 1-D), not proved',
        'ties in x/z are outside the equivariance theorem (the stable sort keeps the supplied order of equal keys)',
        'custom_bc: method_kwargs weights and every reported array refer to the sampled x_fit (ascending), not to the input points',
    ]
    ctx.gate()
    ctx.translate(['GenOrderFlow'])
    ok = ctx.build_props()
    try:
        correspondence(ctx)
        correspondence_opt(ctx)
        correspondence_get_function(ctx)
        correspondence_collab(ctx)
    except Exception:   # noqa  -- a changed implementation may raise inside the recorders; the search still runs
        import traceback
        ctx.broke('correspondence:exception', traceback.format_exc()[-1200:])
    stressed = not ok or bool(ctx.broken)
    b1 = ctx.n(4, 14) * (3 if stressed and ctx.tier == 'quick' else 1)
    b2 = ctx.n(2, 7) * (3 if stressed and ctx.tier == 'quick' else 1)
    stats = {}
    f1 = oracle_1d(ctx, b1, stats=stats)
    f2 = oracle_2d(ctx, b2, stats=stats)
    f3 = oracle_functional(ctx, b1)
    f7 = oracle_nodata(ctx)
    f9 = oracle_zero_weights(ctx, stats=stats)
    ctx.note('user weights containing ZEROS placed asymmetrically (4 fixed patterns incl. boolean masks; every method taking weights, '
             'fabc weights_as_mask, rubberband lam/segments, optimize_extended_range handing them to mask-using methods; reversed / '
             'rolled / shuffled x; 2-D corner block and random 0/1): %d failing' % f9)
    f8 = oracle_robust(ctx, stats=stats)
    ctx.note('calls WITHOUT data (methods whose data may be None: %s; class + functional interface, 3 permutations x 3 orders of '
             'baseline_points x 4 interpolation kinds x 2 sizes): %d failing; robustness grid (history with rejected calls, '
             'negative-stride / strided / list / Fortran / transposed inputs, data scaled by 1e-150 and 1e150) over %d 1-D and %d 2-D '
             'methods: %d failing' % (ctx.extra.get('data_optional_methods'), f7, len(ROBUST_1D), len(ROBUST_2D), f8))
    f6 = oracle_wrappers(ctx, stats=stats, reps=ctx.n(1, 4) * (2 if stressed else 1))
    ctx.note('optimizer/wrapper methods around wrapped methods of every module (whittaker, spline, polynomial, morphological, '
             'classification incl. mask-reporting fabc/dietrich/cwt_br/std_distribution/rubberband, smooth, misc): %d cases per '
             'repetition, every nested per-point array compared (%d failing)' % (len(wrapper_cases(41, np.ones(41))) + 3 * len(wrapper_cases_2d()), f6))
    thorough = ctx.tier == 'thorough' or stressed
    f4 = oracle_options(ctx, False, None, stats=stats, with_weights=thorough)
    f5 = oracle_options(ctx, True, None if thorough else 5, stats=stats, with_weights=ctx.tier == 'thorough')
    ctx.note('one-at-a-time non-default options (harness/methods.py PARAM_VALUES + pad_kwargs etc.): 1-D all %d variants%s '
             '(%d failing); 2-D %s (max_iter / max_iter_2 capped at 2, rtol 1e-6; observed maximum over 8 full sweeps 8.5e-12) '
             '(%d failing)' % (sum(len(option_variants(nm, False)) for nm in M.method_names() if nm != 'interp_pts'),
                               ' x {without, with user weights}' if thorough else '', f4,
                               'all variants' if thorough else 'a seeded sample of 5 per method', f5))
    ctx.traces = stats.get('logs', 0)
    ctx.note('functional interface (x_data=...): %d failing' % f3)
    ctx.note('metamorphic oracle: 1-D budget x%d (%d failing), 2-D budget x%d (%d failing); %d compared leaves, %d not '
             'bit-identical (max relative difference %.2g at %s); %d _setup_* weight arrays compared with the sorted run'
             % (b1, f1, b2, f2, stats.get('leaves', 0), stats.get('inexact', 0), stats.get('max_rel', 0.0),
                stats.get('max_rel_at', '-'), stats.get('logs', 0)))
    ctx.note('not covered: ties in x/z; N > 53 (1-D) / shapes > 13x15 (2-D); 3-D stacks other than collab_pls; '
             'functional interface only for 17 representative calls; '
             'custom_bc method_kwargs weights (x_fit order by construction); quick tier samples optimizer variants')


def _find_variant(vs, label):
    for lab, cls, build in vs:
        if lab == label:
            return build
    return None


def replay(rep):
    case = rep.get('case') or {}
    kind = case.get('kind')
    if kind == 'oracle1d':
        x = np.array(case['x'])
        y = np.array(case['y'])
        perm = np.array(case['perm'], dtype=np.intp)
        build = _find_variant(variants_1d(case['method'], case['wseed'], case['n'], 99), case['label'])
        if build is None:
            print('replay: unknown variant', case['label'])
            return 1
        stats = {}
        ref, got, logs = run_pair_1d(case['method'], x, y, perm, build, with_logs=True)
        err = judge(ref, got, perm, (len(x),), False, case['method']) or logs
        print('replay 1-D %s(%s):' % (case['method'], case['label']), err or 'property holds on this input')
        return 1 if err else 0
    if kind == 'oracle2d':
        x = np.array(case['x'])
        z = np.array(case['z'])
        y = np.array(case['y'])
        px = np.array(case['px'], dtype=np.intp)
        pz = np.array(case['pz'], dtype=np.intp)
        build = _find_variant(variants_2d(case['method'], case['wseed'], tuple(case['shape']), 99), case['label'])
        if build is None:
            print('replay: unknown variant', case['label'])
            return 1
        ref, got, logs = run_pair_2d(case['method'], x, z, y, (px, pz), build, with_logs=True)
        err = judge(ref, got, (px, pz), tuple(case['shape']), True, case['method']) or logs
        print('replay 2-D %s(%s):' % (case['method'], case['label']), err or 'property holds on this input')
        return 1 if err else 0
    if kind == 'options':
        two_d = case['two_d']
        opt = {k: eval(v, {'inf': float('inf'), 'nan': float('nan')}) for k, v in case['opt'].items()}
        x = np.array(case['x'])
        y = np.array(case['y'])
        shape = y.shape
        w = np.random.RandomState(case['wseed']).uniform(0.05, 1.0, shape if two_d else shape[0])
        if two_d:
            perm = (np.array(case['perm'][0], dtype=np.intp), np.array(case['perm'][1], dtype=np.intp))
        else:
            perm = np.array(case['perm'], dtype=np.intp)

        def build(p):
            kw = dict(opt)
            if case['weights']:
                kw['weights'] = w if p is None else (take(w, p, True) if two_d else w[p])
            return kw
        if two_d:
            ref, got, ld = run_pair_2d(case['method'], x, np.array(case['z']), y, perm, build, with_logs=True,
                                       log_rtol=RTOL_OPTIONS[True])
        else:
            ref, got, ld = run_pair_1d(case['method'], x, y, perm, build, with_logs=True)
        err = judge(ref, got, perm, shape, two_d, case['method'], rtol=RTOL_OPTIONS[two_d]) or ld
        print('replay %s %s(%s):' % ('2-D' if two_d else '1-D', case['method'], opt), err or 'property holds on this input')
        return 1 if err else 0
    if kind == 'wrappers':
        two_d = case['two_d']
        x = np.array(case['x'])
        y = np.array(case['y'])
        if two_d:
            perm = (np.array(case['perm'][0], dtype=np.intp), np.array(case['perm'][1], dtype=np.intp))
            cases = wrapper_cases_2d()
        else:
            perm = np.array(case['perm'], dtype=np.intp)
            cases = wrapper_cases(len(x), np.random.RandomState(case['wseed']).uniform(0.05, 1.0, len(x)))
        hit = [c for c in cases if c[0] == case['label']]
        if not hit:
            print('replay: unknown wrapper case', case['label'])
            return 1
        label, _, wrapper, build, extra = hit[0]
        if two_d:
            ref, got, ld = run_pair_2d(wrapper, x, np.array(case['z']), y, perm, build, with_logs=True)
        else:
            ref, got, ld = run_pair_1d(wrapper, x, y, perm, build, with_logs=True)
        err = judge(ref, got, perm, y.shape, two_d, wrapper, extra=extra) or ld
        print('replay %s:' % label, err or 'property holds on this input')
        return 1 if err else 0
    if kind == 'zero-weights':
        x = np.array(case['x'])
        y = np.array(case['y'])
        perm = np.array(case['perm'], dtype=np.intp)
        w = np.array(case['w']).astype(bool) if case['bool'] else np.array(case['w'])
        extra = {k: eval(v) for k, v in case['extra'].items()}
        ref, got, ld = run_pair_1d(case['method'], x, y, perm, lambda p: dict(extra, weights=w if p is None else w[p]),
                                   with_logs=True)
        err = judge(ref, got, perm, (len(x),), False, case['method']) or ld
        print('replay %s(weights with zeros%s):' % (case['method'], ', %s' % extra if extra else ''), err or 'property holds on this input')
        return 1 if err else 0
    if kind == 'zero-weights-wrapper':
        print('replay: fixed-grid case "%s"; re-run ./bin/check C02 quick to reproduce' % case.get('label'))
        return 1
    if kind == 'nodata':
        import pybaselines.misc as misc
        from pybaselines import Baseline
        x = np.array(case['x'])
        y = np.array(case['y'])
        perm = np.array(case['perm'], dtype=np.intp)
        kw = {'baseline_points': np.array(case['points']), 'interp_method': case['interp_method']}
        fn = {'class,data': lambda xx, yy: Baseline(xx).interp_pts(yy, **kw)[0],
              'class,no data': lambda xx, yy: Baseline(xx).interp_pts(**kw)[0],
              'functional,no data': lambda xx, yy: misc.interp_pts(xx, **kw)[0],
              'functional,data': lambda xx, yy: misc.interp_pts(xx, data=yy, **kw)[0]}[case['tag']]
        with warnings.catch_warnings():
            warnings.simplefilter('ignore')
            ref, got = np.asarray(fn(x, y)), np.asarray(fn(x[perm], y[perm]))
            withdata = np.asarray(Baseline(x[perm]).interp_pts(y[perm], **kw)[0])
        ok, info = close(ref[perm], got, RTOL[False])
        ok2, info2 = close(withdata, got, RTOL[False])
        err = None if (ok and ok2) else ('not the permuted result of the sorted call: %s' % info if not ok
                                          else 'differs from the call with data: %s' % info2)
        print('replay interp_pts [%s, %s]:' % (case['tag'], case['interp_method']), err or 'property holds on this input')
        return 1 if err else 0
    if kind == 'robust':
        print('replay: robustness-grid case "%s" is part of the FIXED grid; re-run ./bin/check C02 quick to reproduce' % case.get('label'))
        return 1
    if kind == 'functional':
        print('replay: functional-interface case %s; re-run ./bin/check C02 quick to reproduce (inputs are in the file)' % case.get('label'))
        return 1
    print('replay: nothing concrete to replay; broken obligations were:', rep.get('broken_obligations'))
    return 1
