"""C01 -- trace validation of the methods with a NESTED convergence record (brpls, pspline_brpls in 1-D
and 2-D, goldindec) against the two-level loop skeleton of coq/C01/Nested.v.

A real call is run with the reweighting rule and the difference function wrapped by recorders (no
change of behaviour, except that a recorder can be told to report exit_early at a chosen call, which is
how the early-exit block of the hosts is reached at arbitrary positions).  The flat log of inner-pass
events, the recorded outer values and the tolerances drive the Coq skeleton (C01/NestedTrace.v), which
must consume the log exactly and reproduce the returned record -- shape and every cell -- bit-for-bit."""
import importlib
import random
import re
import warnings

import numpy as np

from . import methods as M
from .common import coqbool, hexf, zl

HEADER = """From Coq Require Import ZArith List Bool PrimFloat String.
From PB Require Import lib.CaseUtil C01.Nested C01.NestedTrace gen.GenNested.
Import ListNotations.
Open Scope string_scope.
"""

NEVER = -1.0
# method -> (generated-table key, module whose relative_difference it calls, goldindec-style outer part)
METHODS = [
    ('brpls', False, 'whittaker.brpls', 'pybaselines.whittaker', False),
    ('pspline_brpls', False, 'spline.pspline_brpls', 'pybaselines.spline', False),
    ('goldindec', False, 'polynomial.goldindec', 'pybaselines.polynomial', True),
    ('brpls', True, 'two_d.whittaker.brpls', 'pybaselines.two_d.whittaker', False),
    ('pspline_brpls', True, 'two_d.spline.pspline_brpls', 'pybaselines.two_d.spline', False),
]


def flist(fs):
    return '[' + '; '.join(hexf(f) for f in fs) + ']'


def logged_call(name, two_d, modname, data, kw, force_early_at=None):
    """Runs the method with recorders; returns (events, tol_history or None, exception or None)."""
    from pybaselines import Baseline, Baseline2D, _weighting
    mod = importlib.import_module(modname)
    log = []
    calls = [0]
    orig_rule = _weighting._brpls
    orig_diff = mod.relative_difference

    def rule(y, baseline, beta):
        k = calls[0]
        calls[0] += 1
        if force_early_at is not None and k == force_early_at:
            log.append(('w', True))
            return np.zeros_like(y), True         # what the rule itself returns on its early exit
        res = orig_rule(y, baseline, beta)
        log.append(('w', bool(res[-1])))
        return res

    def diff(*a, **k):
        v = orig_diff(*a, **k)
        log.append(('d', float(v)))
        return v

    _weighting._brpls = rule
    mod.relative_difference = diff
    try:
        with warnings.catch_warnings():
            warnings.simplefilter('ignore')
            if two_d:
                x, z, y = data
                fit = Baseline2D(x, z)
            else:
                x, y = data
                fit = Baseline(x)
            kwargs = M.call_kwargs(name, two_d, **kw)
            try:
                _, params = getattr(fit, name)(y, **kwargs)
                th, exc = np.asarray(params['tol_history'], dtype=float), None
            except Exception as e:  # noqa
                th, exc = None, e
    finally:
        _weighting._brpls = orig_rule
        mod.relative_difference = orig_diff
    return log, th, exc


def events_of(log, gold):
    """flat list of inner-pass events (early, value); None when the log is not of the expected form"""
    evs = []
    if gold:
        return [(False, v) for k, v in log if k == 'd'] if all(k == 'd' for k, _ in log) else None
    i = 0
    while i < len(log):
        if log[i][0] != 'w':
            return None
        if log[i][1]:
            evs.append((True, 0.0))
            i += 1
        else:
            if i + 1 >= len(log) or log[i + 1][0] != 'd':
                return None
            evs.append((False, log[i + 1][1]))
            i += 2
    return evs


def grid(gold, mid, mid2, budget):
    cases = []
    inf = float('inf')
    if gold:
        for m in (0, 1, 2, 3):
            for m2 in (0, 1, 2, 3):
                for tol in (NEVER, mid, inf):
                    for tol2 in (0.0, mid2, inf):
                        for tol3 in ((NEVER, inf) if (m + m2) % 2 else (1e-6,)):
                            cases.append(dict(max_iter=m, max_iter_2=m2, tol=tol, tol_2=tol2, tol_3=tol3))
        return [(c, None) for c in cases]
    for m in (-1, 0, 1, 2, 3):
        for m2 in (-1, 0, 1, 2):
            for tol in (NEVER, mid, inf):
                for tol2 in (NEVER, mid2, inf):
                    if (m < 0 or m2 < 0) and (tol != NEVER or tol2 != NEVER):
                        continue
                    cases.append((dict(max_iter=m, max_iter_2=m2, tol=tol, tol_2=tol2), None))
    # the early-exit block at chosen positions (call number of the reweighting rule)
    for k in ((0, 1, 2, 3, 5, 7) if budget == 1 else range(0, 12)):
        for (m, m2) in ((2, 2), (3, 1), (0, 2)):
            for tol in (NEVER, mid):
                for tol2 in (NEVER, mid2, inf):
                    cases.append((dict(max_iter=m, max_iter_2=m2, tol=tol, tol_2=tol2), k))
    return cases


def nested_trace_validation(ctx, budget=1):
    rng = np.random.default_rng(ctx.seed + 5)
    prng = random.Random(ctx.seed + 5)
    x = M.make_x(prng, ctx.n(48, 120))
    y = M.make_y(rng, x)
    x2, z2, y2 = M.make_z2d(rng, *ctx.n((10, 12), (14, 15)))
    xs = np.linspace(0.0, 1.0, 4)
    ys = np.array([1.0, 3.0, 2.0, 5.0]) + rng.normal(0, 0.1, 4)      # 4 points: the rule's own early exit
    lits = []
    for name, two_d, key, modname, gold in METHODS:
        datasets = [('std', (x2, z2, y2) if two_d else (x, y))]
        if not two_d and not gold and name == 'brpls':
            datasets.append(('tiny', (xs, ys)))
        for dname, data in datasets:
            extra = {'lam': 1.0} if dname == 'tiny' else {}
            # a free run for representative tolerances
            log, th, exc = logged_call(name, two_d, modname, data, dict(max_iter=3, max_iter_2=2, tol=NEVER,
                                                                        **({'tol_2': 0.0} if gold else {'tol_2': NEVER}), **extra))
            if exc is not None:
                ctx.fail(f'nested:{name}:{"2d" if two_d else "1d"}:raises',
                         f'{name} (max_iter=3, max_iter_2=2, tolerances never met) raised {type(exc).__name__}: {exc}',
                         {'kind': 'nested', 'method': name, 'two_d': two_d, 'data': dname, 'seed': ctx.seed})
                continue
            evs = events_of(log, gold) or []
            vals = sorted(v for e, v in evs if not e and np.isfinite(v))
            mid = vals[len(vals) // 2] if vals else 1.0
            r0 = sorted(abs(v) for v in th[0] if np.isfinite(v))
            mid2 = r0[len(r0) // 2] if r0 else 1.0
            cases = grid(gold, float(mid), float(mid2), budget)
            # exact ties with the strict comparisons `value < tol`, `value > tol_2`, `value < -tol_2`, `value < tol_3`
            d00 = next((v for e, v in evs if not e), None)
            if d00 is not None and th.size:
                base = dict(max_iter=3, max_iter_2=2)
                if gold:
                    cases += [(dict(base, tol=d00, tol_2=0.0, tol_3=NEVER), None),
                              (dict(base, tol=NEVER, tol_2=abs(float(th[0][0])), tol_3=NEVER), None)]
                    if th.shape[0] > 1:
                        cases += [(dict(base, tol=NEVER, tol_2=0.0, tol_3=float(th[1][0])), None)]
                else:
                    cases += [(dict(base, tol=d00, tol_2=NEVER), None), (dict(base, tol=NEVER, tol_2=float(th[0][0])), None)]
            for kw, force in cases:
                call = {'kind': 'nested', 'method': name, 'two_d': two_d, 'data': dname, 'kwargs': kw, 'force_early_at': force,
                        'seed': ctx.seed}
                log, th, exc = logged_call(name, two_d, modname, data, dict(kw, **extra), force)
                evs = events_of(log, gold)
                if evs is None:
                    ctx.fail(f'nested:{name}:{"2d" if two_d else "1d"}:event-order',
                             f'{name}: the reweighting rule and the difference are not called in the order rule, difference per inner pass', call)
                    continue
                raised = exc is not None
                if raised and not isinstance(exc, (UnboundLocalError, NameError)):
                    ctx.fail(f'nested:{name}:{"2d" if two_d else "1d"}:raises',
                             f'{name}({kw}) raised {type(exc).__name__}: {exc}', call)
                    continue
                if raised:
                    observed, row0 = [], []
                else:
                    if th.ndim != 2:
                        ctx.fail(f'nested:{name}:{"2d" if two_d else "1d"}:record-shape', f'{name}({kw}): tol_history is not 2-D', call)
                        continue
                    observed = [list(map(float, row)) for row in th]
                    row0 = observed[0] if observed else []
                early_seen = any(e for e, _ in evs)
                ctx.case(('nested', name, two_d, dname, repr(kw), force), nontrivial=not raised,
                         kind=f'nested:{"2d" if two_d else "1d"}' + (':early-exit' if early_seen else '') + (':raised' if raised else ''))
                ev_l = '[' + '; '.join(f'({coqbool(e)}, {hexf(v)})' for e, v in evs) + ']'
                obs_l = '[' + '; '.join(flist(r) for r in observed) + ']'
                lits.append((f'("{key}", {coqbool(gold)}, {zl(kw["max_iter"])}, {zl(kw["max_iter_2"])}, {hexf(kw["tol"])}, {hexf(kw["tol_2"])}, '
                             f'{hexf(kw.get("tol_3", 0.0))}, {ev_l}, {flist(row0)}, {coqbool(raised)}, {obs_l})', call))
    ctx.traces += len(lits)
    if lits:
        ctx.sample({'kind': 'nested-trace-case', 'coq_literal': lits[min(40, len(lits) - 1)][0][:400], 'call': lits[min(40, len(lits) - 1)][1]})
    ob = 'correspondence:nested-loop-skeleton-trace-validation'
    ctx.obligations.append(ob)
    bad = False
    per = 400
    for s in range(0, len(lits), per):
        sh = lits[s:s + per]
        text = HEADER + f"""
Fixpoint find (k : string) (l : list (string * ndesc)) : option ndesc :=
  match l with [] => None | (k', d) :: l' => if String.eqb k k' then Some d else find k l' end.
Definition case_t : Type := (string * bool * Z * Z * float * float * float * list ev * list float * bool * list (list float))%type.
Definition cases : list case_t := [
{chr(10).join('  ' + l[0] + (';' if i + 1 < len(sh) else '') for i, l in enumerate(sh))}
].
Definition ok (c : case_t) : bool :=
  let '(key, gold, m, m2, tol, tol2, tol3, evs, row0, raised, observed) := c in
  match find key nested_descs with
  | Some n => check_run n gold m m2 tol tol2 tol3 evs row0 raised observed
  | None => false
  end.
Eval vm_compute in (bad ok cases).
"""
        vals = ctx.coq_eval(f'nested{s // per}', text)
        if vals is None:
            bad = True
            continue
        mm = re.match(r'\((\d+)(?:%nat)?, \[(.*)\]\)', vals[0]) if vals else None
        if not mm:
            bad = True
            ctx.broke(ob, f'unparsable Coq output {vals}')
        elif int(mm.group(1)) != 0:
            bad = True
            idxs = [int(t.replace('%nat', '')) for t in mm.group(2).split(';') if t.strip()]
            ctx.broke(ob, f'{mm.group(1)} calls whose record differs from the two-level skeleton driven by their own event log')
            for i in idxs[:5]:
                call = sh[i][1]
                ctx.fail(f'nested:{call["method"]}:{"2d" if call["two_d"] else "1d"}:record',
                         f'{call["method"]}({call["kwargs"]}, early exit forced at rule call {call["force_early_at"]}): the returned tol_history '
                         '(shape / which cells are written / values) or the number of passes differs from the two-level loop skeleton '
                         'driven by the recorded events (stops earlier or later, slice cuts a value off, stale cell)', call)
    if not bad:
        ctx.discharged.append(ob)
    return len(lits)


def replay_nested(case):
    for name, two_d, key, modname, gold in METHODS:
        if name == case['method'] and two_d == case['two_d']:
            break
    else:
        return 1
    print('replay nested: re-run', case['method'], case['kwargs'], 'force_early_at', case.get('force_early_at'),
          '(the comparison itself is made inside Coq by ./bin/check C01)')
    return 1
