"""C01 -- well-formed (baseline, params) or an exception.  DESIGN.md section 4 / C01."""
import os
import random
import warnings

import numpy as np

from . import methods as M
from .common import COQ, coqbool, hexf

PROP = 'C01'

HEADER = """From Coq Require Import ZArith List Bool PrimFloat.
From PB Require Import lib.Loop lib.CaseUtil C01.Wrapper C01.Trace.
Import ListNotations.
"""

# parameter values outside the documented domain of a method (their rejection is C15's business)
OUT_OF_RANGE = {('mormol', ('smooth_half_window', 0))}   # documented: 1 means no smoothing

NEVER = -1.0   # tol that no recorded difference is below (differences are >= 0 or NaN)


def blist(bs):
    return '[' + '; '.join(coqbool(b) for b in bs) + ']'


def flist(fs):
    return '[' + '; '.join(hexf(f) for f in fs) + ']'


def same(a, b):
    a = np.asarray(a)
    b = np.asarray(b)
    return a.shape == b.shape and np.array_equal(a, b, equal_nan=True)


# ------------------------------------------------------------------ trace validation
def run_method(name, two_d, data, max_iter, tol):
    with warnings.catch_warnings():
        warnings.simplefilter('ignore')
        try:
            if two_d:
                x, z, y = data
                b, p = M.run_2d(name, x, z, y, max_iter=max_iter, tol=tol)
            else:
                x, y = data
                b, p = M.run_1d(name, x, y, max_iter=max_iter, tol=tol)
            return b, p, None
        except Exception as exc:  # noqa
            return None, None, exc


def trace_cases(ctx, name, two_d, sch, data, K):
    """Returns (list of Coq case literals, python-side failures)."""
    off = sch['budget']            # budget = max_iter + off
    skey = sch['state_key']
    # never-stopping runs with budgets 1..K+1 -> tables of baselines / states
    base_tab, state_tab = [], []   # base_tab[k] = baseline of pass k; state_tab[k] = state after k updates
    hist_long = None
    n_pts = data[-1].size
    base0 = None
    if sch['ret'] == 'state':
        b0, _, exc0 = run_method(name, two_d, data, 0, float('inf'))
        base0 = np.array(b0) if exc0 is None else None
    if skey:
        # state 0 = the weights in force at pass 0 (ones, or built internally by iasls / mixture_model ...):
        # a call that converges at pass 0 (tol = inf) returns exactly those
        _, p0, exc0 = run_method(name, two_d, data, 0, float('inf'))
        state_tab.append(np.array(p0[skey]) if exc0 is None else None)
    else:
        state_tab.append(None)
    for budget in range(1, K + 2):
        b, p, exc = run_method(name, two_d, data, budget - off, NEVER)
        if exc is not None:
            ctx.fail(f'loop:{name}:raises', f'{name} (max_iter={budget - off}, tol={NEVER}) raised {type(exc).__name__}: {exc}',
                     {'kind': 'trace', 'method': name, 'two_d': two_d, 'max_iter': budget - off, 'tol': NEVER, 'seed': ctx.seed})
            return []
        base_tab.append(np.array(b))
        state_tab.append(np.array(p[skey]) if skey else None)
        hist_long = np.array(p['tol_history'], dtype=float)
    ds = [float(v) for v in hist_long]
    early = []
    if len(ds) < K + 1:       # with tol never satisfied a shorter record means an early exit there
        early = [False] * len(ds) + [True]
    finite = [d for d in ds if np.isfinite(d)]
    mid = sorted(finite)[len(finite) // 2] if finite else 1.0
    tols = [0.0, float(mid), float(np.nextafter(mid, np.inf)), float('inf')]   # mid itself: `d < tol` is strict
    lits = []
    for max_iter in sorted({0 - off + 0, 0, 1, 2, 3, K - off}):
        if max_iter < 0:
            continue
        for tol in tols:
            budget = max_iter + off
            b, p, exc = run_method(name, two_d, data, max_iter, tol)
            raised = exc is not None
            if raised:
                olen, bmatch, smatch = 0, [], []
                if not isinstance(exc, Exception):
                    raise exc
            else:
                th = np.array(p['tol_history'], dtype=float)
                olen = len(th)
                if olen > len(ds) or not same(th, hist_long[:olen]):
                    ctx.fail(f'loop:{name}:record-not-prefix',
                             f'{name}(max_iter={max_iter}, tol={tol}): tol_history is not the prefix of the record of a longer run',
                             {'kind': 'trace', 'method': name, 'two_d': two_d, 'max_iter': max_iter, 'tol': tol, 'seed': ctx.seed})
                if sch['ret'] == 'state':
                    table = [base0] + base_tab     # state k = returned baseline of the budget-k run; state 0 from the (0, inf) run
                else:
                    table = base_tab
                bmatch = [t is not None and same(b, t) for t in table]
                smatch = [t is not None and same(p[skey], t) for t in state_tab] if skey else []
            nontriv = (not raised) and 0 < olen
            ctx.case(('trace', name, two_d, max_iter, tol), nontrivial=nontriv, kind=f'trace:{"2d" if two_d else "1d"}')
            lits.append((f'({budget}%nat, {flist(ds)}, {blist(early)}, {hexf(tol)}, {coqbool(sch["ret"] == "state")}, '
                         f'{coqbool(bool(skey))}, {{| o_raised := {coqbool(raised)}; o_len := {olen}%nat; '
                         f'o_base_match := {blist(bmatch)}; o_state_match := {blist(smatch)} |}})',
                         {'kind': 'trace', 'method': name, 'two_d': two_d, 'max_iter': max_iter, 'tol': tol, 'seed': ctx.seed}))
    return lits


def trace_validation(ctx):
    rng = np.random.default_rng(ctx.seed)
    prng = random.Random(ctx.seed)
    K = 5
    all_lits = []
    n1 = ctx.n(48, 150)
    x = M.make_x(prng, n1)
    y = M.make_y(rng, x)
    x2, z2, y2 = M.make_z2d(rng, *ctx.n((10, 12), (16, 21)))
    for name, sch in sorted(M.SCHEMA_1D.items()):
        all_lits += trace_cases(ctx, name, False, sch, (x, y), K)
    for name, sch in sorted(M.SCHEMA_2D.items()):
        all_lits += trace_cases(ctx, name, True, sch, (x2, z2, y2), K)
    ctx.traces += len(all_lits)
    if all_lits:
        ctx.sample({'kind': 'trace-case', 'coq_literal': all_lits[7][0][:400], 'call': all_lits[7][1]})
    ob = 'correspondence:loop-skeleton-trace-validation'
    ctx.obligations.append(ob)
    bad = False
    per = 300
    for s in range(0, len(all_lits), per):
        sh = all_lits[s:s + per]
        text = HEADER + f"""
Definition cases : list (nat * list float * list bool * float * bool * bool * obs) := [
{chr(10).join('  ' + l[0] + (';' if i + 1 < len(sh) else '') for i, l in enumerate(sh))}
].
Definition ok (c : nat * list float * list bool * float * bool * bool * obs) : bool :=
  let '(budget, ds, early, tol, ret_state, check_state, o) := c in
  agrees ret_state check_state (predict budget ds early tol) o.
Eval vm_compute in (bad ok cases).
"""
        vals = ctx.coq_eval(f'trace{s // per}', text)
        if vals is None:
            bad = True
            continue
        import re
        m = re.match(r'\((\d+)(?:%nat)?, \[(.*)\]\)', vals[0]) if vals else None
        if not m:
            bad = True
            ctx.broke(ob, f'unparsable Coq output {vals}')
        elif int(m.group(1)) != 0:
            bad = True
            idxs = [int(t.replace('%nat', '')) for t in m.group(2).split(';') if t.strip()]
            for i in idxs[:5]:
                call = sh[i][1]
                ctx.fail(f'loop:{call["method"]}:stop-rule',
                         f'{call["method"]}(max_iter={call["max_iter"]}, tol={call["tol"]}) {"2D" if call["two_d"] else "1D"}: length of tol_history / returned '
                         'baseline / returned weights differ from the loop skeleton prediction (stops earlier or later, or returns another pass)', call)
    if not bad:
        ctx.discharged.append(ob)


# ------------------------------------------------------------------ shape model correspondence
def shape_correspondence(ctx):
    from pybaselines._validation import _check_array
    dims = [1, 2, 3, 5]
    shapes = [()]
    for a in dims:
        shapes.append((a,))
        for b in dims:
            shapes.append((a, b))
            for c in dims:
                shapes.append((a, b, c))
    shapes += [(2, 3, 1, 1), (1, 1, 1, 5)]
    lits = []
    for s in shapes:
        arr = np.zeros(s)
        for mode in (0, 1, 2):
            kw = [dict(ensure_1d=True), dict(ensure_1d=False, two_d=True, ensure_2d=True),
                  dict(ensure_1d=False, two_d=True, ensure_2d=False)][mode]
            try:
                out = _check_array(arr, **kw)
                res = 'Ok [' + '; '.join(str(v) for v in out.shape) + ']'
            except TypeError:
                res = 'TypeErr'
            except ValueError:
                res = 'ValueErr'
            ctx.case(('shape', s, mode), nontrivial=len(s) >= 2, kind=f'shape:mode{mode}')
            lits.append(f'({mode}, [{"; ".join(str(v) for v in s)}], {res})')
    text = HEADER + f"""Open Scope Z_scope.
Definition res_eqb (a b : res) : bool :=
  match a, b with Ok x, Ok y => zl_eqb x y | TypeErr, TypeErr => true | ValueErr, ValueErr => true | _, _ => false end.
Definition cases : list (Z * list Z * res) := [
{chr(10).join('  ' + l + (';' if i + 1 < len(lits) else '') for i, l in enumerate(lits))}
].
Definition ok (c : Z * list Z * res) : bool :=
  let '(mode, s, exp) := c in
  res_eqb (if mode =? 0 then check_array_1d s else if mode =? 1 then check_array_2d s else check_array_2d_stack s) exp.
Eval vm_compute in (bad ok cases).
"""
    ob = 'correspondence:_check_array-shape-decisions'
    ctx.obligations.append(ob)
    vals = ctx.coq_eval('shapes', text)
    if vals is not None:
        if vals and vals[0].startswith('(0'):
            ctx.discharged.append(ob)
        else:
            ctx.broke(ob, f'model and _check_array disagree on shape decisions: {vals}')


# ------------------------------------------------------------------ direct oracle
def check_output(ctx, name, two_d, y_in, out_dtype, b, p, call, max_iter=None, noisy=True, tag=''):
    key = f'wellformed:{name}:{"2d" if two_d else "1d"}'
    want_shape = y_in.shape
    if not two_d:
        want_shape = (y_in.size,)
    else:
        want_shape = tuple(d for d in y_in.shape if d != 1) if y_in.ndim == 3 else y_in.shape
    if name == 'collab_pls':
        want_shape = y_in.shape
    if not isinstance(b, np.ndarray) or not isinstance(p, dict):
        ctx.fail(key + ':type', f'{name} did not return (ndarray, dict)', call)
        return
    if b.shape != want_shape:
        ctx.fail(key + ':shape', f'{name}: baseline shape {b.shape}, data shape {want_shape}', call)
    if b.dtype != (np.dtype(out_dtype) if out_dtype is not None else y_in.dtype):
        ctx.fail(key + ':dtype', f'{name}: baseline dtype {b.dtype}, expected {out_dtype or y_in.dtype}', call)
    for k in M.PER_POINT_KEYS:
        if k in p and isinstance(p[k], np.ndarray) and name not in ('collab_pls', 'custom_bc'):
            if p[k].shape != want_shape:
                ctx.fail(key + f':{k}-shape', f'{name}: params[{k!r}] shape {p[k].shape}, data shape {want_shape}', call)
    th = p.get('tol_history')
    if th is not None and max_iter is not None:
        th = np.asarray(th)
        if th.ndim == 1 and len(th) > max_iter + 1:
            ctx.fail(key + ':record-too-long', f'{name}: len(tol_history)={len(th)} > max_iter+1={max_iter + 1}', call)
    if noisy and not np.isfinite(b).all():
        ctx.fail(key + ':nonfinite' + tag, f'{name}: baseline contains non-finite values for noisy finite data ({tag.strip(":") or "catalogue arguments"})', call)


def oracle(ctx, budget):
    from pybaselines import Baseline, Baseline2D
    rng = np.random.default_rng(ctx.seed + 1)
    prng = random.Random(ctx.seed + 1)
    variants = [('noise', 'float64', 'flat', True), ('offset', 'float64', 'col', False), ('scale', 'float64', 'row', True),
                ('negative', 'float32', 'flat', False), ('integer', 'int64', 'flat', True), ('noise', 'float64', 'flat', False)]
    sizes = [40, 101] if budget == 1 else [30, 40, 64, 101, 250, 600]
    count = 0
    with warnings.catch_warnings():
        warnings.simplefilter('ignore')
        for name in M.method_names():
            for vi, (kind, dt, layout, sorted_x) in enumerate(variants):
                n = sizes[(vi + len(name)) % len(sizes)]
                x = M.make_x(prng, n, 'uniform' if vi % 2 == 0 else 'random')
                y = M.make_y(rng, x, kind).astype(dt)
                perm = np.arange(n) if sorted_x else rng.permutation(n)
                xs, ys = x[perm], y[perm]
                yin = ys if layout == 'flat' else (ys[:, None] if layout == 'col' else ys[None, :])
                out_dtype = None if vi != 5 else np.float32
                extra = {}
                mi = None
                if name in M.SCHEMA_1D:
                    mi = [0, 1, 4, 7][vi % 4] + (0 if M.SCHEMA_1D[name]['budget'] else 1)
                    extra = {'max_iter': mi}
                call = {'kind': 'oracle', 'method': name, 'two_d': False, 'n': n, 'data': kind, 'dtype': dt, 'layout': layout,
                        'sorted_x': sorted_x, 'output_dtype': str(out_dtype), 'extra': extra, 'seed': ctx.seed}
                if name in ('collab_pls',) and layout != 'flat':
                    continue
                try:
                    fit = Baseline(xs, output_dtype=out_dtype)
                    b, p = M.run_1d(name, xs, yin, fitter=fit, **extra)
                except Exception as exc:  # noqa  -- an ordinary exception is allowed by the property
                    ctx.case(('oracle-raise', name, vi), nontrivial=False, kind='oracle:raised:' + type(exc).__name__)
                    continue
                count += 1
                ctx.case(('oracle', name, vi, n), nontrivial=True, kind='oracle:1d')
                yref = np.vstack([ys, ys * 1.1 + 1]) if name == 'collab_pls' else yin
                check_output(ctx, name, False, np.asarray(yref), out_dtype, b, p, call, max_iter=mi,
                             noisy=kind != 'integer' or True)
        for name in M.method_names(True):
            for vi, (kind, dt, layout, sorted_x) in enumerate(variants[:4] if budget == 1 else variants):
                m, n = [(9, 11), (14, 8), (12, 12), (21, 17)][(vi + len(name)) % 4]
                x, z, y = M.make_z2d(rng, m, n)
                if kind == 'offset':
                    y = y + 1e4
                elif kind == 'negative':
                    y = -y
                elif kind == 'integer':
                    y = np.round(10 * y)
                y = y.astype(dt)
                px = np.arange(m) if sorted_x else rng.permutation(m)
                pz = np.arange(n) if (sorted_x or vi % 2) else rng.permutation(n)
                xs, zs, ys = x[px], z[pz], y[px][:, pz]
                yin = ys if layout == 'flat' else (ys[:, :, None] if layout == 'col' else ys[None, :, :])
                extra = {}
                mi = None
                if name in M.SCHEMA_2D:
                    mi = [0, 1, 3, 5][vi % 4] + (0 if M.SCHEMA_2D[name]['budget'] else 1)
                    extra = {'max_iter': mi}
                call = {'kind': 'oracle', 'method': name, 'two_d': True, 'shape': [m, n], 'data': kind, 'dtype': dt,
                        'layout': layout, 'sorted': sorted_x, 'extra': extra, 'seed': ctx.seed}
                if name == 'collab_pls' and layout != 'flat':
                    continue
                try:
                    b, p = M.run_2d(name, xs, zs, yin, **extra)
                except Exception as exc:  # noqa
                    ctx.case(('oracle-raise2', name, vi), nontrivial=False, kind='oracle:raised:' + type(exc).__name__)
                    continue
                count += 1
                ctx.case(('oracle2', name, vi, m, n), nontrivial=True, kind='oracle:2d')
                yref = np.array([ys, ys * 1.1 + 1]) if name == 'collab_pls' else yin
                check_output(ctx, name, True, np.asarray(yref), None, b, p, call, max_iter=mi)
        # one-at-a-time parameter variations (legal or borderline values) on small noisy data
        n = 41
        x = M.make_x(prng, n)
        y = M.make_y(rng, x)
        x2, z2, y2 = M.make_z2d(rng, 11, 13)
        for two_d in (False, True):
            for name in M.method_names(two_d):
                if name == 'interp_pts':
                    continue
                variants = M.param_variants(name, two_d)
                if budget == 1:
                    variants = variants[ctx.seed % 2::2] if len(variants) > 24 else variants
                for var in variants:
                    call = {'kind': 'oracle-param', 'method': name, 'two_d': two_d, 'variant': var, 'seed': ctx.seed}
                    if (name, tuple(var.items())[0]) in OUT_OF_RANGE:
                        continue
                    try:
                        with warnings.catch_warnings(record=True) as wlist:
                            warnings.simplefilter('always')
                            if two_d:
                                b, p = M.run_2d(name, x2, z2, y2, **var)
                            else:
                                b, p = M.run_1d(name, x, y, **var)
                        flagged = any(type(w.message).__name__ == 'ParameterWarning' for w in wlist)
                    except Exception as exc:  # noqa
                        ctx.case(('oracle-param-raise', name, two_d, repr(var)), nontrivial=False,
                                 kind='oracle:raised:' + type(exc).__name__)
                        continue
                    count += 1
                    ctx.case(('oracle-param', name, two_d, repr(var)), nontrivial=True, kind='oracle:param')
                    if name == 'collab_pls':
                        yref = np.array([y2, y2 * 1.1 + 1]) if two_d else np.vstack([y, y * 1.1 + 1])
                    else:
                        yref = y2 if two_d else y
                    mi = var.get('max_iter')
                    if mi is None and 'max_iter' in M.call_kwargs(name, two_d):
                        mi = M.call_kwargs(name, two_d)['max_iter']
                    check_output(ctx, name, two_d, yref, None, b, p, call,
                                 max_iter=mi if name in (M.SCHEMA_2D if two_d else M.SCHEMA_1D) else None,
                                 noisy=not flagged, tag=':' + ','.join(f'{k}={v}' for k, v in var.items()))
    return count


def schema_vs_source(ctx):
    """The hand-written schema that drives the trace validation (budget = max_iter + off) must agree
    with the loop bounds the translator reads from the current source (gen/GenLoops.v)."""
    import re
    ob = 'schema-vs-source:trace-validation budgets equal the translated range bounds'
    ctx.obligations.append(ob)
    path = os.path.join(COQ, 'gen', 'GenLoops.v')
    if not os.path.exists(path):
        ctx.broke(ob, 'gen/GenLoops.v missing (translator refused)')
        return
    src = {}
    for m in re.finditer(r'\("([\w.]+)", \{\| l_start := \(?(-?\d+)\)?; l_stop := \(?(-?\d+)\)?;', open(path).read()):
        src[m.group(1)] = int(m.group(3)) - int(m.group(2))
    bad = []
    n = 0
    for two_d, schema in ((False, M.SCHEMA_1D), (True, M.SCHEMA_2D)):
        for name, sch in schema.items():
            keys = [k for k in src if k.split('.')[-1] == name and k.startswith('two_d.') == two_d]
            if len(keys) != 1:
                bad.append(f'{name}({"2d" if two_d else "1d"}): {len(keys)} translated loops')
                continue
            n += 1
            if src[keys[0]] != sch['budget']:
                bad.append(f'{keys[0]}: source range gives budget max_iter{src[keys[0]]:+d}, schema says {sch["budget"]:+d}')
    if bad:
        ctx.broke(ob, '; '.join(bad[:8]))
    else:
        ctx.discharged.append(ob)
        ctx.note(f'{n} trace-validated methods have the budget the translator reads from the source; {len(src)} single-loop methods in gen/GenLoops.v')


def run(ctx):
    ctx.rule = ('trace validation: every single-loop iterative method (1-D and 2-D) on the (max_iter, tol) grid '
                '{0,1,2,3,5} x {0, mid, inf}; the recorded differences and early-exit flags of a never-stopping run feed the '
                'Coq loop skeleton whose predicted record length / returned pass / returned weights must equal the observed ones '
                'bit-for-bit; shape decisions of _check_array on all shapes with dims in {1,2,3,5} up to 3-D; direct oracle on all '
                '95 methods x data kinds x dtypes x layouts x sorted/unsorted; non-trivial = call returned with a non-empty record '
                '(trace) / call returned (oracle) / ndim>=2 (shapes)')
    ctx.trusted += [
        'the loop bookkeeping of every single-loop method (range bounds, np.empty size, store index, prefix slice, early-exit '
        'decrement, order store/test) is translated from the source on every run (tools/gen_loops.py, fail-closed) and proved to '
        'refine the skeleton; what the oracles solve/reweight/diff compute is tied by trace validation (not proved); nested-loop '
        'methods (brpls, pspline_brpls, goldindec) and beads are covered by the direct oracle only',
        'finite output for noisy data is sampled (LAPACK / conditioning), not proved',
    ]
    ctx.gate()
    ctx.translate(['GenLoops'])
    ok = ctx.build_props(extra=['C01/Trace.vo'])
    schema_vs_source(ctx)
    shape_correspondence(ctx)
    trace_validation(ctx)
    budget = 1 if (ok and not ctx.broken and ctx.tier == 'quick') else 3
    n = oracle(ctx, budget)
    ctx.note(f'direct oracle: {n} returning calls checked for shape/dtype/per-point keys/record length/finiteness (budget x{budget})')


def replay(rep):
    case = rep.get('case') or {}
    print('replay case:', case)
    if case.get('kind') == 'trace':
        from .common import Ctx
        ctx = Ctx(PROP, 'quick', case.get('seed', 0))
        name, two_d = case['method'], case['two_d']
        rng = np.random.default_rng(ctx.seed)
        prng = random.Random(ctx.seed)
        x = M.make_x(prng, 48)
        y = M.make_y(rng, x)
        x2, z2, y2 = M.make_z2d(rng, 10, 12)
        sch = (M.SCHEMA_2D if two_d else M.SCHEMA_1D)[name]
        lits = trace_cases(ctx, name, two_d, sch, (x2, z2, y2) if two_d else (x, y), 5)
        print(f'{len(lits)} trace cases regenerated for {name}; python-side failures: {ctx.violations}')
        return 1 if ctx.violations else 0
    return 1
