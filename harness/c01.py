"""C01 -- well-formed (baseline, params) or an exception.  DESIGN.md section 4 / C01."""
import os
import random
import warnings

import numpy as np

from . import methods as M
from .common import COQ, coqbool, hexf

PROP = 'C01'

HEADER = """From Coq Require Import ZArith List Bool PrimFloat.
From PB Require Import lib.Loop lib.CaseUtil C01.Wrapper C01.Trace.
Import ListNotations.
"""

# parameter values outside the documented domain of a method (their rejection is C15's business)
OUT_OF_RANGE = set()   # (mormol smooth_half_window=0 is documented as 'no smoothing' since repository commit 59445a2)

NEVER = -1.0   # tol that no recorded difference is below (differences are >= 0 or NaN)


def blist(bs):
    return '[' + '; '.join(coqbool(b) for b in bs) + ']'


def flist(fs):
    return '[' + '; '.join(hexf(f) for f in fs) + ']'


def same(a, b):
    a = np.asarray(a)
    b = np.asarray(b)
    return a.shape == b.shape and np.array_equal(a, b, equal_nan=True)


# ------------------------------------------------------------------ trace validation
def run_method(name, two_d, data, max_iter, tol):
    with warnings.catch_warnings():
        warnings.simplefilter('ignore')
        try:
            if two_d:
                x, z, y = data
                b, p = M.run_2d(name, x, z, y, max_iter=max_iter, tol=tol)
            else:
                x, y = data
                b, p = M.run_1d(name, x, y, max_iter=max_iter, tol=tol)
            return b, p, None
        except Exception as exc:  # noqa
            return None, None, exc


def trace_cases(ctx, name, two_d, sch, data, K):
    """Returns (list of Coq case literals, python-side failures)."""
    off = sch['budget']            # budget = max_iter + off
    skey = sch['state_key']
    # never-stopping runs with budgets 1..K+1 -> tables of baselines / states
    base_tab, state_tab = [], []   # base_tab[k] = baseline of pass k; state_tab[k] = state after k updates
    hist_long = None
    n_pts = data[-1].size
    base0 = None
    if sch['ret'] == 'state':
        b0, _, exc0 = run_method(name, two_d, data, 0, float('inf'))
        base0 = np.array(b0) if exc0 is None else None
    if skey:
        # state 0 = the weights in force at pass 0 (ones, or built internally by iasls / mixture_model ...):
        # a call that converges at pass 0 (tol = inf) returns exactly those
        _, p0, exc0 = run_method(name, two_d, data, 0, float('inf'))
        state_tab.append(np.array(p0[skey]) if exc0 is None else None)
    else:
        state_tab.append(None)
    for budget in range(1, K + 2):
        b, p, exc = run_method(name, two_d, data, budget - off, NEVER)
        if exc is not None:
            ctx.fail(f'loop:{name}:raises', f'{name} (max_iter={budget - off}, tol={NEVER}) raised {type(exc).__name__}: {exc}',
                     {'kind': 'trace', 'method': name, 'two_d': two_d, 'max_iter': budget - off, 'tol': NEVER, 'seed': ctx.seed})
            return []
        base_tab.append(np.array(b))
        state_tab.append(np.array(p[skey]) if skey else None)
        hist_long = np.array(p['tol_history'], dtype=float)
    ds = [float(v) for v in hist_long]
    early = []
    if len(ds) < K + 1:       # with tol never satisfied a shorter record means an early exit there
        early = [False] * len(ds) + [True]
    finite = [d for d in ds if np.isfinite(d)]
    mid = sorted(finite)[len(finite) // 2] if finite else 1.0
    tols = [0.0, float(mid), float(np.nextafter(mid, np.inf)), float('inf')]   # mid itself: `d < tol` is strict
    lits = []
    for max_iter in sorted({0 - off + 0, 0, 1, 2, 3, K - off}):
        if max_iter < 0:
            continue
        for tol in tols:
            budget = max_iter + off
            b, p, exc = run_method(name, two_d, data, max_iter, tol)
            raised = exc is not None
            if raised:
                olen, bmatch, smatch = 0, [], []
                if not isinstance(exc, Exception):
                    raise exc
            else:
                th = np.array(p['tol_history'], dtype=float)
                olen = len(th)
                if olen > len(ds) or not same(th, hist_long[:olen]):
                    ctx.fail(f'loop:{name}:record-not-prefix',
                             f'{name}(max_iter={max_iter}, tol={tol}): tol_history is not the prefix of the record of a longer run',
                             {'kind': 'trace', 'method': name, 'two_d': two_d, 'max_iter': max_iter, 'tol': tol, 'seed': ctx.seed})
                if sch['ret'] == 'state':
                    table = [base0] + base_tab     # state k = returned baseline of the budget-k run; state 0 from the (0, inf) run
                else:
                    table = base_tab
                bmatch = [t is not None and same(b, t) for t in table]
                smatch = [t is not None and same(p[skey], t) for t in state_tab] if skey else []
            nontriv = (not raised) and 0 < olen
            ctx.case(('trace', name, two_d, max_iter, tol), nontrivial=nontriv, kind=f'trace:{"2d" if two_d else "1d"}')
            lits.append((f'({budget}%nat, {flist(ds)}, {blist(early)}, {hexf(tol)}, {coqbool(sch["ret"] == "state")}, '
                         f'{coqbool(bool(skey))}, {{| o_raised := {coqbool(raised)}; o_len := {olen}%nat; '
                         f'o_base_match := {blist(bmatch)}; o_state_match := {blist(smatch)} |}})',
                         {'kind': 'trace', 'method': name, 'two_d': two_d, 'max_iter': max_iter, 'tol': tol, 'seed': ctx.seed}))
    return lits


def trace_validation(ctx):
    rng = np.random.default_rng(ctx.seed)
    prng = random.Random(ctx.seed)
    K = 5
    all_lits = []
    n1 = ctx.n(48, 150)
    x = M.make_x(prng, n1)
    y = M.make_y(rng, x)
    x2, z2, y2 = M.make_z2d(rng, *ctx.n((10, 12), (16, 21)))
    for name, sch in sorted(M.SCHEMA_1D.items()):
        all_lits += trace_cases(ctx, name, False, sch, (x, y), K)
    for name, sch in sorted(M.SCHEMA_2D.items()):
        all_lits += trace_cases(ctx, name, True, sch, (x2, z2, y2), K)
    ctx.traces += len(all_lits)
    if all_lits:
        ctx.sample({'kind': 'trace-case', 'coq_literal': all_lits[7][0][:400], 'call': all_lits[7][1]})
    ob = 'correspondence:loop-skeleton-trace-validation'
    ctx.obligations.append(ob)
    bad = False
    per = 300
    for s in range(0, len(all_lits), per):
        sh = all_lits[s:s + per]
        text = HEADER + f"""
Definition cases : list (nat * list float * list bool * float * bool * bool * obs) := [
{chr(10).join('  ' + l[0] + (';' if i + 1 < len(sh) else '') for i, l in enumerate(sh))}
].
Definition ok (c : nat * list float * list bool * float * bool * bool * obs) : bool :=
  let '(budget, ds, early, tol, ret_state, check_state, o) := c in
  agrees ret_state check_state (predict budget ds early tol) o.
Eval vm_compute in (bad ok cases).
"""
        vals = ctx.coq_eval(f'trace{s // per}', text)
        if vals is None:
            bad = True
            continue
        import re
        m = re.match(r'\((\d+)(?:%nat)?, \[(.*)\]\)', vals[0]) if vals else None
        if not m:
            bad = True
            ctx.broke(ob, f'unparsable Coq output {vals}')
        elif int(m.group(1)) != 0:
            bad = True
            idxs = [int(t.replace('%nat', '')) for t in m.group(2).split(';') if t.strip()]
            for i in idxs[:5]:
                call = sh[i][1]
                ctx.fail(f'loop:{call["method"]}:stop-rule',
                         f'{call["method"]}(max_iter={call["max_iter"]}, tol={call["tol"]}) {"2D" if call["two_d"] else "1D"}: length of tol_history / returned '
                         'baseline / returned weights differ from the loop skeleton prediction (stops earlier or later, or returns another pass)', call)
    if not bad:
        ctx.discharged.append(ob)


# ------------------------------------------------------------------ shape model correspondence
def shape_correspondence(ctx):
    from pybaselines._validation import _check_array
    dims = [1, 2, 3, 5]
    shapes = [()]
    for a in dims:
        shapes.append((a,))
        for b in dims:
            shapes.append((a, b))
            for c in dims:
                shapes.append((a, b, c))
    shapes += [(2, 3, 1, 1), (1, 1, 1, 5)]
    lits = []
    for s in shapes:
        arr = np.zeros(s)
        for mode in (0, 1, 2):
            kw = [dict(ensure_1d=True), dict(ensure_1d=False, two_d=True, ensure_2d=True),
                  dict(ensure_1d=False, two_d=True, ensure_2d=False)][mode]
            try:
                out = _check_array(arr, **kw)
                res = 'Ok [' + '; '.join(str(v) for v in out.shape) + ']'
            except TypeError:
                res = 'TypeErr'
            except ValueError:
                res = 'ValueErr'
            ctx.case(('shape', s, mode), nontrivial=len(s) >= 2, kind=f'shape:mode{mode}')
            lits.append(f'({mode}, [{"; ".join(str(v) for v in s)}], {res})')
    text = HEADER + f"""Open Scope Z_scope.
Definition res_eqb (a b : res) : bool :=
  match a, b with Ok x, Ok y => zl_eqb x y | TypeErr, TypeErr => true | ValueErr, ValueErr => true | _, _ => false end.
Definition cases : list (Z * list Z * res) := [
{chr(10).join('  ' + l + (';' if i + 1 < len(lits) else '') for i, l in enumerate(lits))}
].
Definition ok (c : Z * list Z * res) : bool :=
  let '(mode, s, exp) := c in
  res_eqb (if mode =? 0 then check_array_1d s else if mode =? 1 then check_array_2d s else check_array_2d_stack s) exp.
Eval vm_compute in (bad ok cases).
"""
    ob = 'correspondence:_check_array-shape-decisions'
    ctx.obligations.append(ob)
    vals = ctx.coq_eval('shapes', text)
    if vals is not None:
        if vals and vals[0].startswith('(0'):
            ctx.discharged.append(ob)
        else:
            ctx.broke(ob, f'model and _check_array disagree on shape decisions: {vals}')


# ------------------------------------------------------------------ direct oracle
def check_output(ctx, name, two_d, y_in, out_dtype, b, p, call, max_iter=None, noisy=True, tag=''):
    key = f'wellformed:{name}:{"2d" if two_d else "1d"}'
    want_shape = y_in.shape
    if not two_d:
        want_shape = (y_in.size,)
    else:
        want_shape = tuple(d for d in y_in.shape if d != 1) if y_in.ndim == 3 else y_in.shape
    if name == 'collab_pls':
        want_shape = y_in.shape
    if not isinstance(b, np.ndarray) or not isinstance(p, dict):
        ctx.fail(key + ':type', f'{name} did not return (ndarray, dict)', call)
        return
    if b.shape != want_shape:
        ctx.fail(key + ':shape', f'{name}: baseline shape {b.shape}, data shape {want_shape}', call)
    if b.dtype != (np.dtype(out_dtype) if out_dtype is not None else y_in.dtype):
        ctx.fail(key + ':dtype', f'{name}: baseline dtype {b.dtype}, expected {out_dtype or y_in.dtype}', call)
    for k in M.PER_POINT_KEYS:
        if k in p and isinstance(p[k], np.ndarray) and name not in ('collab_pls', 'custom_bc'):
            if p[k].shape != want_shape:
                ctx.fail(key + f':{k}-shape', f'{name}: params[{k!r}] shape {p[k].shape}, data shape {want_shape}', call)
    th = p.get('tol_history')
    if th is not None and max_iter is not None:
        th = np.asarray(th)
        if th.ndim == 1 and len(th) > max_iter + 1:
            ctx.fail(key + ':record-too-long', f'{name}: len(tol_history)={len(th)} > max_iter+1={max_iter + 1}', call)
    if noisy and not np.isfinite(b).all():
        ctx.fail(key + ':nonfinite' + tag, f'{name}: baseline contains non-finite values for noisy finite data ({tag.strip(":") or "catalogue arguments"})', call)


def oracle(ctx, budget):
    from pybaselines import Baseline, Baseline2D
    rng = np.random.default_rng(ctx.seed + 1)
    prng = random.Random(ctx.seed + 1)
    variants = [('noise', 'float64', 'flat', True), ('offset', 'float64', 'col', False), ('scale', 'float64', 'row', True),
                ('negative', 'float32', 'flat', False), ('integer', 'int64', 'flat', True), ('noise', 'float64', 'flat', False)]
    sizes = [40, 101] if budget == 1 else [30, 40, 64, 101, 250, 600]
    count = 0
    with warnings.catch_warnings():
        warnings.simplefilter('ignore')
        for name in M.method_names():
            for vi, (kind, dt, layout, sorted_x) in enumerate(variants):
                n = sizes[(vi + len(name)) % len(sizes)]
                x = M.make_x(prng, n, 'uniform' if vi % 2 == 0 else 'random')
                y = M.make_y(rng, x, kind).astype(dt)
                perm = np.arange(n) if sorted_x else rng.permutation(n)
                xs, ys = x[perm], y[perm]
                yin = ys if layout == 'flat' else (ys[:, None] if layout == 'col' else ys[None, :])
                out_dtype = None if vi != 5 else np.float32
                extra = {}
                mi = None
                if name in M.SCHEMA_1D:
                    mi = [0, 1, 4, 7][vi % 4] + (0 if M.SCHEMA_1D[name]['budget'] else 1)
                    extra = {'max_iter': mi}
                call = {'kind': 'oracle', 'method': name, 'two_d': False, 'n': n, 'data': kind, 'dtype': dt, 'layout': layout,
                        'sorted_x': sorted_x, 'output_dtype': str(out_dtype), 'extra': extra, 'seed': ctx.seed}
                if name in ('collab_pls',) and layout != 'flat':
                    continue
                try:
                    fit = Baseline(xs, output_dtype=out_dtype)
                    b, p = M.run_1d(name, xs, yin, fitter=fit, **extra)
                except Exception as exc:  # noqa  -- an ordinary exception is allowed by the property
                    ctx.case(('oracle-raise', name, vi), nontrivial=False, kind='oracle:raised:' + type(exc).__name__)
                    continue
                count += 1
                ctx.case(('oracle', name, vi, n), nontrivial=True, kind='oracle:1d')
                yref = np.vstack([ys, ys * 1.1 + 1]) if name == 'collab_pls' else yin
                check_output(ctx, name, False, np.asarray(yref), out_dtype, b, p, call, max_iter=mi,
                             noisy=kind != 'integer' or True)
        for name in M.method_names(True):
            for vi, (kind, dt, layout, sorted_x) in enumerate(variants[:4] if budget == 1 else variants):
                m, n = [(9, 11), (14, 8), (12, 12), (21, 17)][(vi + len(name)) % 4]
                x, z, y = M.make_z2d(rng, m, n)
                if kind == 'offset':
                    y = y + 1e4
                elif kind == 'negative':
                    y = -y
                elif kind == 'integer':
                    y = np.round(10 * y)
                y = y.astype(dt)
                px = np.arange(m) if sorted_x else rng.permutation(m)
                pz = np.arange(n) if (sorted_x or vi % 2) else rng.permutation(n)
                xs, zs, ys = x[px], z[pz], y[px][:, pz]
                yin = ys if layout == 'flat' else (ys[:, :, None] if layout == 'col' else ys[None, :, :])
                extra = {}
                mi = None
                if name in M.SCHEMA_2D:
                    mi = [0, 1, 3, 5][vi % 4] + (0 if M.SCHEMA_2D[name]['budget'] else 1)
                    extra = {'max_iter': mi}
                call = {'kind': 'oracle', 'method': name, 'two_d': True, 'shape': [m, n], 'data': kind, 'dtype': dt,
                        'layout': layout, 'sorted': sorted_x, 'extra': extra, 'seed': ctx.seed}
                if name == 'collab_pls' and layout != 'flat':
                    continue
                try:
                    b, p = M.run_2d(name, xs, zs, yin, **extra)
                except Exception as exc:  # noqa
                    ctx.case(('oracle-raise2', name, vi), nontrivial=False, kind='oracle:raised:' + type(exc).__name__)
                    continue
                count += 1
                ctx.case(('oracle2', name, vi, m, n), nontrivial=True, kind='oracle:2d')
                yref = np.array([ys, ys * 1.1 + 1]) if name == 'collab_pls' else yin
                check_output(ctx, name, True, np.asarray(yref), None, b, p, call, max_iter=mi)
        # one-at-a-time parameter variations (legal or borderline values) on small noisy data
        n = 41
        x = M.make_x(prng, n)
        y = M.make_y(rng, x)
        x2, z2, y2 = M.make_z2d(rng, 11, 13)
        for two_d in (False, True):
            for name in M.method_names(two_d):
                if name == 'interp_pts':
                    continue
                variants = M.param_variants(name, two_d)
                if budget == 1:
                    variants = variants[ctx.seed % 2::2] if len(variants) > 24 else variants
                for var in variants:
                    call = {'kind': 'oracle-param', 'method': name, 'two_d': two_d, 'variant': var, 'seed': ctx.seed}
                    if (name, tuple(var.items())[0]) in OUT_OF_RANGE:
                        continue
                    try:
                        with warnings.catch_warnings(record=True) as wlist:
                            warnings.simplefilter('always')
                            if two_d:
                                b, p = M.run_2d(name, x2, z2, y2, **var)
                            else:
                                b, p = M.run_1d(name, x, y, **var)
                        flagged = any(type(w.message).__name__ == 'ParameterWarning' for w in wlist)
                    except Exception as exc:  # noqa
                        ctx.case(('oracle-param-raise', name, two_d, repr(var)), nontrivial=False,
                                 kind='oracle:raised:' + type(exc).__name__)
                        continue
                    count += 1
                    ctx.case(('oracle-param', name, two_d, repr(var)), nontrivial=True, kind='oracle:param')
                    if name == 'collab_pls':
                        yref = np.array([y2, y2 * 1.1 + 1]) if two_d else np.vstack([y, y * 1.1 + 1])
                    else:
                        yref = y2 if two_d else y
                    mi = var.get('max_iter')
                    if mi is None and 'max_iter' in M.call_kwargs(name, two_d):
                        mi = M.call_kwargs(name, two_d)['max_iter']
                    check_output(ctx, name, two_d, yref, None, b, p, call,
                                 max_iter=mi if name in (M.SCHEMA_2D if two_d else M.SCHEMA_1D) else None,
                                 noisy=not flagged, tag=':' + ','.join(f'{k}={v}' for k, v in var.items()))
    return count


# ------------------------------------------------------------------ ordering: correspondence with C01/AxisOrder.v
def nonsym_perm(rng, n, kind):
    """A permutation p of range(n) (n >= 3) that is NOT its own inverse: p[p] != arange(n)."""
    ar = np.arange(n)
    if kind == 'rot':
        k = int(rng.integers(1, n))
        if 2 * k == n:
            k -= 1
        p = np.roll(ar, k)
    elif kind == 'interleave':
        p = np.r_[ar[0::2], ar[1::2]]
        if np.array_equal(p[p], ar):      # n <= 4: evens-then-odds is a transposition
            p = np.roll(ar, 1)
    else:
        p = rng.permutation(n)
        while np.array_equal(p[p], ar):
            p = rng.permutation(n)
    assert sorted(p.tolist()) == ar.tolist() and not np.array_equal(p[p], ar)
    return p


def zlist(v):
    return '[' + '; '.join(str(int(t)) for t in v) + ']'


def axis_correspondence(ctx):
    """Baseline2D.individual_axes must build its inner 1-D fitters on the CALLER's axis values.  The
    constructor calls `Baseline(axis_values[axis], ..., assume_sorted=...)` of the current source are recorded
    (the name `Baseline` inside pybaselines.two_d.optimizers is replaced by a recording subclass for the
    duration of the call) and compared inside Coq with the model C01.AxisOrder.individual_axes_values
    computed from x_user, z_user alone (integer-valued distinct axis values)."""
    import inspect
    import pybaselines.two_d.optimizers as O2
    from pybaselines import Baseline2D
    ob = 'correspondence:individual_axes-axis-values-handed-to-inner-fitters'
    ctx.obligations.append(ob)
    rng = np.random.default_rng([ctx.seed, 101])
    orig = O2.Baseline
    log = []
    sig = inspect.signature(orig.__init__)

    class Recording(orig):
        def __init__(self, *args, **kwargs):
            ba = sig.bind(self, *args, **kwargs)
            xd = ba.arguments.get('x_data')
            log.append((None if xd is None else np.array(xd, dtype=float, copy=True), bool(ba.arguments.get('assume_sorted', False))))
            super().__init__(*args, **kwargs)

    lits, calls = [], []
    kinds = ['rot', 'interleave', 'shuffle', 'reverse', 'sorted']
    n_obj = ctx.n(18, 60)
    O2.Baseline = Recording
    try:
        with warnings.catch_warnings():
            warnings.simplefilter('ignore')
            for j in range(n_obj):
                m, n = int(rng.integers(4, 12)), int(rng.integers(4, 12))
                which = ['x', 'z', 'xz', 'xz', 'x', 'z', 'none'][j % 7]
                axes_u = []
                for size, tag in ((m, 'x'), (n, 'z')):
                    vals = np.sort(rng.choice(np.arange(-30, 60), size=size, replace=False)).astype(float)
                    kind = kinds[int(rng.integers(0, 3))] if tag in which else 'sorted'
                    if tag in which and j % 9 == 8:
                        kind = 'reverse'      # an involution: forward and inverted rebuild coincide (model still has to agree)
                    p = (np.arange(size) if kind == 'sorted' else np.arange(size)[::-1] if kind == 'reverse'
                         else nonsym_perm(rng, size, kind))
                    axes_u.append((vals[p], kind))
                (xu, kx), (zu, kz) = axes_u
                y = rng.normal(0, 1, (m, n)) + np.add.outer(xu, zu) * 0.05
                for axes in (0, 1, (0, 1), (1, 0)):
                    del log[:]
                    call = {'kind': 'axis-values', 'x_user': xu.tolist(), 'z_user': zu.tolist(), 'perm_x': kx, 'perm_z': kz,
                            'axes': axes, 'seed': ctx.seed}
                    try:
                        Baseline2D(xu, zu).individual_axes(y, axes=axes, method='asls', method_kwargs={'lam': 1e2, 'max_iter': 2})
                    except Exception as exc:  # noqa
                        ctx.broke(ob, f'individual_axes raised {type(exc).__name__}: {exc} on {call}')
                        return
                    want = [axes] if isinstance(axes, int) else list(axes)
                    if len(log) != len(want):
                        ctx.broke(ob, f'individual_axes(axes={axes}) constructed {len(log)} inner fitters, expected {len(want)}')
                        return
                    for ax, (xd, assume) in zip(want, log):
                        if xd is None or not np.array_equal(xd, np.round(xd)):
                            ctx.broke(ob, f'inner fitter for axis {ax} constructed with x_data={xd} on {call}')
                            return
                        nontriv = (kx if ax == 0 else kz) in ('rot', 'interleave', 'shuffle')
                        ctx.case(('axis-values', tuple(xu), tuple(zu), axes, ax), nontrivial=nontriv,
                                 kind=f'axis-values:{"unsorted" if nontriv else "sorted-or-reversed"}')
                        lits.append(f'({zlist(xu)}, {zlist(zu)}, {ax}%nat, {zlist(xd)}, {coqbool(assume)})')
                        calls.append(dict(call, axis=ax, recorded=xd.tolist(), assume_sorted=assume))
    finally:
        O2.Baseline = orig
    text = f"""From Coq Require Import ZArith List Bool.
From PB Require Import lib.Perm lib.CaseUtil C01.AxisOrder.
Import ListNotations.
Open Scope Z_scope.
Definition cases : list (list Z * list Z * nat * list Z * bool) := [
{chr(10).join('  ' + l + (';' if i + 1 < len(lits) else '') for i, l in enumerate(lits))}
].
Definition ok (c : list Z * list Z * nat * list Z * bool) : bool :=
  let '(x, z, ax, recorded, assume) := c in
  let '(mx, mz, ma) := individual_axes_values x z in
  zl_eqb (match ax with O => mx | _ => mz end) recorded && Bool.eqb ma assume.
Eval vm_compute in (bad ok cases).
"""
    vals = ctx.coq_eval('axisorder', text)
    if vals is None:
        return
    import re
    mm = re.match(r'\((\d+)(?:%nat)?, \[(.*)\]\)', vals[0]) if vals else None
    if not mm:
        ctx.broke(ob, f'unparsable Coq output {vals}')
    elif int(mm.group(1)) != 0:
        idxs = [int(t.replace('%nat', '')) for t in mm.group(2).split(';') if t.strip()]
        c = calls[idxs[0]]
        ctx.broke(ob, f'{mm.group(1)} of {len(lits)} recorded constructor calls differ from the model; first: Baseline2D(x={c["x_user"]}, '
                      f'z={c["z_user"]}).individual_axes(axes={c["axes"]}) built the inner fitter of axis {c["axis"]} with x_data={c["recorded"]}, '
                      f'assume_sorted={c["assume_sorted"]} (model: the caller\'s axis values)')
    else:
        ctx.discharged.append(ob)
        ctx.note(f'{len(lits)} recorded inner-fitter constructions of individual_axes agree with C01.AxisOrder.individual_axes_values')


# ------------------------------------------------------------------ ordering: direct oracle
# Output ordering (statement: "the baseline has the shape of the input data ..., ITS ORDERING ..."): with
# xs = x[perm], ys = y[perm] for a permutation that is not its own inverse, a fresh fitter on xs must return
# baseline(x, y)[perm] and every per-point params entry permuted the same way (2-D: [px][:, pz]).
#
# Which params entries are per-point was decided key by key on the unchanged tree (every catalogue method,
# 1-D and 2-D, 3 permutation kinds): an ndarray leaf (recursively through dicts / lists such as
# method_params, params_rows, ...) whose TRAILING dimensions equal the data dimensions is per-point in the
# caller's order -- weights, mask, alpha, signal, constrained_weights, average_weights, method_params/weights,
# baseline_rows, baseline_columns -- EXCEPT the keys below, which live in another space and must simply not
# depend on the input order (they are compared unpermuted; their length can coincide with N):
NOT_PER_POINT = {
    'tol_history': 'convergence record (1-D, or 2-D for brpls / goldindec / jbcd); length up to max_iter + 1',
    'poly_order': 'adaptive_minmax: the two polynomial orders',
    'rmse': 'optimize_extended_range: one value per tried parameter',
    'half_window': 'morphological / smoothing methods: scalar or one value per axis',
    'coef': 'polynomial coefficients (return_coef=True)',
    'tck': 'spline knots / coefficients / degree',
    'dof': 'degrees of freedom (return_dof=True)',
    'x_fit': 'custom_bc / peak_filling: the truncated / sampled (sorted) x the inner fit ran on',
    'y_fit': 'custom_bc: the truncated / sampled y in x_fit order',
    'baseline_fit': 'custom_bc / peak_filling: the inner baseline in x_fit order',
}
# custom_bc: everything under method_params belongs to the inner fit on (x_fit, y_fit), i.e. is in x_fit space
# (sorted, possibly truncated / sampled) even when its length equals N with the default region and sampling=1.
FIT_SPACE_SUBTREES = {('custom_bc', 'method_params')}
ORDER_RTOL = 1e-10
# Tolerance, decided by experiment on the unchanged tree: all 62 1-D methods are bit-identical between the
# sorted and the unsorted run (the wrapper sorts to the very same contiguous arrays).  2-D: bit-identical
# except when ONLY z is unsorted -- y[..., z_order] is a strided view, BLAS / einsum then sum in another order
# and pspline / mixture_model results differ by ~1e-13 relative.  Hence: exact comparison first; a
# floating-point leaf that is not bit-identical passes iff allclose(rtol=1e-10, atol=1e-10 * max|expected|)
# (an ordering defect moves values by the size of the signal, ~1e-1 relative).  1-D runs are required to be
# bit-identical.
ORDER_SHAPES_2D = [(11, 13), (12, 10), (13, 11)]    # >= 10 per axis: the 2-D Whittaker methods need num_eigens=(10, 10)


def order_same(exp, got, exact):
    exp, got = np.asarray(exp), np.asarray(got)
    if exp.shape != got.shape:
        return False
    if exp.dtype == object or got.dtype == object:
        return bool(np.all(exp == got))
    if np.array_equal(exp, got, equal_nan=exp.dtype.kind in 'fc'):
        return True
    if exact or exp.dtype.kind not in 'fc' or got.dtype.kind not in 'fc':
        return False
    fin = np.abs(exp[np.isfinite(exp)])
    scale = float(fin.max()) if fin.size else 1.0
    return bool(np.allclose(got, exp, rtol=ORDER_RTOL, atol=ORDER_RTOL * max(scale, 1e-300), equal_nan=True))


def order_walk(name, ps, pu, dims, perms, exact, path, report):
    """Compares the params of the sorted run (ps) with those of the unsorted run (pu).  dims = data
    dimensions ((N,) or (M, N)), perms = one index array per dimension.  report(key, what) on a mismatch."""
    key = '/'.join(str(q) for q in path if not isinstance(q, int)) or '<params>'
    if isinstance(ps, dict) or isinstance(pu, dict):
        if not (isinstance(ps, dict) and isinstance(pu, dict)) or set(ps) != set(pu):
            report(key, f'keys differ between the sorted and the unsorted run: {sorted(map(str, ps))} vs {sorted(map(str, pu))}')
            return
        for k in ps:
            order_walk(name, ps[k], pu[k], dims, perms, exact, path + (k,), report)
        return
    if isinstance(ps, (list, tuple)) or isinstance(pu, (list, tuple)):
        if not (isinstance(ps, (list, tuple)) and isinstance(pu, (list, tuple))) or len(ps) != len(pu):
            report(key, 'list lengths differ between the sorted and the unsorted run')
            return
        idx = range(len(ps))
        if name == 'individual_axes' and len(path) == 2 and path[0] in ('params_rows', 'params_columns'):
            # one entry per column (params_rows: 1-D fits along axis 0) / per row, in the caller's order
            other = 1 if path[0] == 'params_rows' else 0
            if len(ps) != dims[other]:
                report(key, f'{len(ps)} entries, expected one per {"column" if other else "row"} ({dims[other]})')
                return
            idx = perms[other]
            dims, perms = (dims[1 - other],), (perms[1 - other],)
        for i, j in enumerate(idx):
            order_walk(name, ps[j], pu[i], dims, perms, exact, path + (i,), report)
        return
    a, b = np.asarray(ps), np.asarray(pu)
    names = [q for q in path if not isinstance(q, int)]
    fit_space = any((name, q) in FIT_SPACE_SUBTREES for q in names)
    per_point = (a.ndim >= len(dims) and a.shape[a.ndim - len(dims):] == tuple(dims)
                 and not fit_space and not (names and names[-1] in NOT_PER_POINT))
    if per_point:
        exp = a[..., perms[0]] if len(dims) == 1 else a[..., perms[0][:, None], perms[1][None, :]]
        if not order_same(exp, b, exact):
            dev = ''
            if b.shape == exp.shape and exp.dtype.kind in 'fc':
                dev = (f' (max deviation {np.nanmax(np.abs(exp - b)):.3g}; equal to the UNPERMUTED sorted-run values: '
                       f'{order_same(a, b, exact)})')
            report(key, f'per-point entry is not the sorted-x result permuted like the input{dev}')
    else:
        if not order_same(a, b, exact):
            report(key, 'entry that does not live in data space depends on the ordering of the input')


def order_call(name, two_d, fitter, y, ref, extra):
    if name == 'interp_pts':
        xr, yr = ref     # same anchor points for both runs
        h = len(xr) // 2
        pts = np.array([[xr[0], yr[0]], [xr[h], yr[h]], [xr[-1], yr[-1]]])
        return fitter.interp_pts(y, baseline_points=pts)
    if name == 'collab_pls':
        return fitter.collab_pls(np.array([y, y * 1.1 + 1]), **M.call_kwargs(name, two_d, **extra))
    return getattr(fitter, name)(y, **M.call_kwargs(name, two_d, **extra))


def order_jobs(two_d):
    """[(method, extra kwargs, number of data sets)]"""
    if not two_d:
        return [(name, {}, 2) for name in M.method_names()]
    jobs = [(name, {}, 3) for name in M.method_names(True)]
    jobs += [('individual_axes', {'axes': a}, 3) for a in (0, 1, (1, 0))]
    jobs += [('individual_axes', {'axes': (0, 1), 'method': 'imodpoly', 'method_kwargs': {'poly_order': 2}}, 3),
             ('individual_axes', {'axes': (1, 0), 'method': 'pspline_arpls', 'method_kwargs': [{'lam': 10, 'num_knots': 5}]}, 3),
             ('individual_axes', {'axes': (0, 1), 'method': 'mor', 'method_kwargs': ({'half_window': 2}, {'half_window': 3})}, 3)]
    return jobs


def order_case(ctx, name, two_d, extra, j):
    """One sorted-vs-unsorted comparison; deterministic from (ctx.seed, name, two_d, extra, j)."""
    import inspect
    import zlib
    from pybaselines import Baseline, Baseline2D
    rng = np.random.default_rng([ctx.seed, 77, zlib.crc32(repr((name, sorted(extra.items(), key=str))).encode()), int(two_d), j])
    prng = random.Random(int(rng.integers(0, 2 ** 31)))
    dim = '2d' if two_d else '1d'
    kw = dict(extra)
    cls = Baseline2D if two_d else Baseline
    if (name != 'interp_pts' and 'max_iter' in inspect.signature(getattr(cls, name)).parameters
            and 'max_iter' not in ((M.KW_2D if two_d else M.KW_1D)[name] or {})):
        kw['max_iter'] = 3 + j % 3
    kinds = ['rot', 'interleave', 'shuffle']
    if two_d:
        m, n = ORDER_SHAPES_2D[(j + len(name)) % 3]
        x, z, y = M.make_z2d(rng, m, n)
        which = ['xz', 'x', 'z'][j % 3]
        kx, kz = kinds[int(rng.integers(0, 3))], kinds[int(rng.integers(0, 3))]
        px = nonsym_perm(rng, m, kx) if 'x' in which else np.arange(m)
        pz = nonsym_perm(rng, n, kz) if 'z' in which else np.arange(n)
        dims, perms = (m, n), (px, pz)
        ys = y[px][:, pz]
        mk_sorted, mk_unsorted = (lambda: Baseline2D(x, z)), (lambda: Baseline2D(x[px], z[pz]))
        ref = None
        call = {'kind': 'order', 'method': name, 'two_d': True, 'extra': repr(extra), 'j': j, 'shape': [m, n], 'unsorted': which,
                'perm_x': kx if 'x' in which else 'identity', 'perm_z': kz if 'z' in which else 'identity',
                'px': px.tolist(), 'pz': pz.tolist(), 'kwargs': repr(kw), 'seed': ctx.seed}
    else:
        n = [31, 37, 41, 44][(j + len(name)) % 4]
        x = M.make_x(prng, n, 'random' if j % 2 == 0 else 'uniform')
        y = M.make_y(rng, x)
        kp = kinds[(j + len(name) + ctx.seed) % 3]
        p = nonsym_perm(rng, n, kp)
        dims, perms = (n,), (p,)
        ys = y[p]
        mk_sorted, mk_unsorted = (lambda: Baseline(x)), (lambda: Baseline(x[p]))
        ref = (x, y)
        call = {'kind': 'order', 'method': name, 'two_d': False, 'extra': repr(extra), 'j': j, 'n': n, 'perm': kp,
                'p': p.tolist(), 'kwargs': repr(kw), 'seed': ctx.seed}
    res = []
    for mk, data in ((mk_sorted, y), (mk_unsorted, ys)):     # independent fitter objects
        try:
            b, prm = order_call(name, two_d, mk(), data, ref, kw)
            res.append((np.asarray(b), prm, None))
        except Exception as exc:  # noqa
            res.append((None, None, exc))
    (bs, ps, es), (bu, pu, eu) = res
    tag = f'order:{name}:{dim}'
    if es is not None or eu is not None:
        if (es is None) != (eu is None):
            ctx.fail(tag + ':raises', f'{name}: the {"sorted" if es is not None else "unsorted"}-input call raised '
                     f'{type(es or eu).__name__} ({es or eu}) while the other ordering of the same points returned', call)
        ctx.case(('order-raise', name, two_d, repr(extra), j), nontrivial=False, kind='order:raised:' + type(es or eu).__name__)
        return
    ctx.case(('order', name, two_d, repr(extra), j), nontrivial=True, kind=f'order:{dim}')
    exact = not two_d
    exp = bs[..., perms[0]] if not two_d else bs[..., perms[0][:, None], perms[1][None, :]]
    if bs.shape[bs.ndim - len(dims):] != tuple(dims) or not order_same(exp, bu, exact):
        dev = ''
        if bu.shape == exp.shape:
            dev = (f'max deviation {np.nanmax(np.abs(exp - bu)):.3g} (signal ~{np.nanmax(np.abs(exp)):.3g}); equal to the '
                   f'UNPERMUTED sorted-run baseline: {order_same(bs, bu, exact)}')
        ctx.fail(tag + ':baseline', f'{name} ({dim}, {call.get("unsorted", "x")} unsorted by a {call.get("perm") or (call["perm_x"], call["perm_z"])} '
                 f'permutation): the baseline is not the sorted-input baseline permuted like the input; {dev}', call)
    order_walk(name, ps, pu, dims, perms, exact, (),
               lambda k, what: ctx.fail(f'{tag}:params:{k}', f'{name} ({dim}): params[{k}]: {what}', call))


def order_oracle(ctx):
    count = 0
    with warnings.catch_warnings():
        warnings.simplefilter('ignore')
        for two_d in (False, True):
            for name, extra, reps in order_jobs(two_d):
                for j in range(reps if ctx.tier == 'quick' and not ctx.broken else reps * 3):
                    order_case(ctx, name, two_d, extra, j)
                    count += 1
    return count


def schema_vs_source(ctx):
    """The hand-written schema that drives the trace validation (budget = max_iter + off) must agree
    with the loop bounds the translator reads from the current source (gen/GenLoops.v)."""
    import re
    ob = 'schema-vs-source:trace-validation budgets equal the translated range bounds'
    ctx.obligations.append(ob)
    path = os.path.join(COQ, 'gen', 'GenLoops.v')
    if not os.path.exists(path):
        ctx.broke(ob, 'gen/GenLoops.v missing (translator refused)')
        return
    src = {}
    for m in re.finditer(r'\("([\w.]+)", \{\| l_start := \(?(-?\d+)\)?; l_stop := \(?(-?\d+)\)?;', open(path).read()):
        src[m.group(1)] = int(m.group(3)) - int(m.group(2))
    bad = []
    n = 0
    for two_d, schema in ((False, M.SCHEMA_1D), (True, M.SCHEMA_2D)):
        for name, sch in schema.items():
            keys = [k for k in src if k.split('.')[-1] == name and k.startswith('two_d.') == two_d]
            if len(keys) != 1:
                bad.append(f'{name}({"2d" if two_d else "1d"}): {len(keys)} translated loops')
                continue
            n += 1
            if src[keys[0]] != sch['budget']:
                bad.append(f'{keys[0]}: source range gives budget max_iter{src[keys[0]]:+d}, schema says {sch["budget"]:+d}')
    if bad:
        ctx.broke(ob, '; '.join(bad[:8]))
    else:
        ctx.discharged.append(ob)
        ctx.note(f'{n} trace-validated methods have the budget the translator reads from the source; {len(src)} single-loop methods in gen/GenLoops.v')


def run(ctx):
    ctx.rule = ('trace validation: every single-loop iterative method (1-D and 2-D) on the (max_iter, tol) grid '
                '{0,1,2,3,5} x {0, mid, inf}; the recorded differences and early-exit flags of a never-stopping run feed the '
                'Coq loop skeleton whose predicted record length / returned pass / returned weights must equal the observed ones '
                'bit-for-bit; shape decisions of _check_array on all shapes with dims in {1,2,3,5} up to 3-D; direct oracle on all '
                '95 methods x data kinds x dtypes x layouts x sorted/unsorted; ordering: the x_data / assume_sorted of every inner '
                'Baseline that Baseline2D.individual_axes constructs (recorded through a subclass patched into '
                'pybaselines.two_d.optimizers) for integer axes of length 4..11 unsorted by non-involutive rotations / interleaves / '
                'shuffles (x only, z only, both, none, reversed) x axes in {0, 1, (0,1), (1,0)} must equal the Coq model '
                'individual_axes_values computed from the user axes alone; order oracle: every catalogue method (62 1-D x 2 data '
                'sets, 33 2-D + 6 individual_axes variants x {x, z, both unsorted}) run on sorted axes and, with a fresh fitter, '
                'on the same points permuted by a permutation that is not its own inverse: baseline and every per-point params '
                'entry (recursively: method_params, params_rows/columns lists, baseline_rows/columns) must be the sorted-input '
                'result permuted like the input, every other entry unchanged; non-trivial = call returned with a non-empty record '
                '(trace) / call returned (oracle, order) / ndim>=2 (shapes) / axis really unsorted (axis values)')
    ctx.trusted += [
        'the loop bookkeeping of every single-loop method (range bounds, np.empty size, store index, prefix slice, early-exit '
        'decrement, order store/test) is translated from the source on every run (tools/gen_loops.py, fail-closed) and proved to '
        'refine the skeleton; what the oracles solve/reweight/diff compute is tied by trace validation (not proved); the nested-record '
        'methods (brpls, pspline_brpls, goldindec) have their own two-level skeleton (C01/Nested.v, descriptors from GenNested) with '
        'record-shape theorems and event-log trace validation, but which baseline/weights they return is not modelled; beads and jbcd '
        'are covered by the direct oracle only',
        'finite output for noisy data is sampled (LAPACK / conditioning), not proved',
        'ordering of the outputs: proved only for the axis values individual_axes hands to its inner fitters (model '
        'C01/AxisOrder.v, tied by the recorded constructor calls); that the 1-D / 2-D wrappers (_sort_array with the '
        'inverted order, sort_keys) and the optimizers return baseline and per-point params in the caller\'s order is '
        'sampled by the order oracle on every catalogue method (property C02 carries the proofs about the wrappers); '
        'axis values with ties and params keys that only appear with non-catalogue switches (return_coef, return_dof, tck) '
        'are not exercised by the order oracle',
    ]
    ctx.gate()
    ctx.translate(['GenLoops', 'GenNested'])
    ctx.translate(['GenC01Config'])      # tools/gen_c01_config.py: no method body writes the configuration (separate call: one refusal marks every name of a call)
    ok = ctx.build_props(extra=['C01/Trace.vo', 'C01/NestedTrace.vo'])
    schema_vs_source(ctx)
    shape_correspondence(ctx)
    from .c01_dtype import dtype_correspondence      # wrapper output-dtype rule (coq/C01/Dtype.v), harness/c01_dtype.py
    dtype_correspondence(ctx)
    axis_correspondence(ctx)
    trace_validation(ctx)
    from .c01_pad import pad_correspondence, boundary_oracle      # 2-D pad/strip shape model (coq/C01/Pad2D.v) + boundary grid
    pad_correspondence(ctx)
    from .c01_nested import nested_trace_validation      # two-level loops (coq/C01/Nested.v), harness/c01_nested.py
    nn = nested_trace_validation(ctx, 1 if ctx.tier == 'quick' else 2)
    ctx.note(f'nested-record methods: {nn} calls of brpls / pspline_brpls (1-D, 2-D) / goldindec replayed through the two-level skeleton')
    budget = 1 if (ok and not ctx.broken and ctx.tier == 'quick') else 3
    n = oracle(ctx, budget)
    ctx.note(f'direct oracle: {n} returning calls checked for shape/dtype/per-point keys/record length/finiteness (budget x{budget})')
    from .c01_dtype import dtype_oracle      # first calls on objects / functions WITHOUT x_data (generated axes), non-float64 data
    dtype_oracle(ctx)
    from .c01_history import history_oracle, layout_oracle      # fitters with a history of rejected calls; non-default memory layouts
    history_oracle(ctx)
    layout_oracle(ctx)
    from .c01_dataless import dataless_oracle      # ordering clause on calls WITHOUT data (interp_pts) on unsorted x
    dataless_oracle(ctx)
    nb = boundary_oracle(ctx)
    ctx.note(f'boundary oracle: {nb} returning calls with zero / one / per-axis unequal values of every window-like parameter '
             '(*half_window*, smooth*, num_smooths, min_length, sections, min_fwhm) and every padding mode (alone and crossed with small '
             'half windows) of every method that has them, fresh fitter per call; plus the recorded mormol(smooth_half_window=0) witness')
    n = order_oracle(ctx)
    ctx.note(f'order oracle: {n} sorted-vs-unsorted pairs (every catalogue method, 1-D and 2-D, fresh fitters, non-involutive '
             'rotation / interleave / shuffle of x, of z, of both): baseline and per-point params entries equal the sorted-input '
             'result permuted like the input (1-D bit-identical, 2-D within 1e-10 relative), all other entries independent of the order')


def replay(rep):
    case = rep.get('case') or {}
    if case.get('kind') == 'oracle-param' and 'variant' in case:
        from .c01_pad import replay_boundary
        return replay_boundary({'method': case['method'], 'two_d': case['two_d'], 'kwargs': case['variant'], 'seed': case.get('seed', 0)})
    if case.get('kind') == 'dataless':
        from .c01_dataless import replay_dataless
        return replay_dataless(case)
    if case.get('kind') == 'boundary':
        from .c01_pad import replay_boundary
        return replay_boundary(case)
    if case.get('kind') == 'pad2d':
        from .c01_pad import replay_pad2d
        return replay_pad2d(case)
    if case.get('kind') == 'nested':
        from .c01_nested import replay_nested
        return replay_nested(case)
    if case.get('kind') == 'history':
        from .c01_history import replay_history
        return replay_history(case)
    if case.get('kind') == 'layout':
        from .c01_history import replay_layout
        return replay_layout(case)
    print('replay case:', case)
    if case.get('kind') == 'trace':
        from .common import Ctx
        ctx = Ctx(PROP, 'quick', case.get('seed', 0))
        name, two_d = case['method'], case['two_d']
        rng = np.random.default_rng(ctx.seed)
        prng = random.Random(ctx.seed)
        x = M.make_x(prng, 48)
        y = M.make_y(rng, x)
        x2, z2, y2 = M.make_z2d(rng, 10, 12)
        sch = (M.SCHEMA_2D if two_d else M.SCHEMA_1D)[name]
        lits = trace_cases(ctx, name, two_d, sch, (x2, z2, y2) if two_d else (x, y), 5)
        print(f'{len(lits)} trace cases regenerated for {name}; python-side failures: {ctx.violations}')
        return 1 if ctx.violations else 0
    if case.get('kind') == 'order':
        import ast
        from .common import Ctx
        ctx = Ctx(PROP + '-replay', 'quick', case.get('seed', 0))    # (a Ctx for PROP itself would delete the replay files)
        ctx.known = []
        with warnings.catch_warnings():
            warnings.simplefilter('ignore')
            order_case(ctx, case['method'], case['two_d'], ast.literal_eval(case['extra']), case['j'])
        for key, what, _ in ctx.violations:
            print('reproduced:', key, '--', what)
        return 1 if ctx.violations else 0
    if case.get('kind') == 'axis-values':
        import pybaselines.two_d.optimizers as O2
        from pybaselines import Baseline2D
        orig, seen = O2.Baseline, []

        class Recording(orig):
            def __init__(self, x_data=None, *args, **kwargs):
                seen.append(np.array(x_data, dtype=float))
                super().__init__(x_data, *args, **kwargs)
        xu, zu = np.array(case['x_user'], dtype=float), np.array(case['z_user'], dtype=float)
        axes = case['axes'] if isinstance(case['axes'], int) else tuple(case['axes'])
        O2.Baseline = Recording
        try:
            with warnings.catch_warnings():
                warnings.simplefilter('ignore')
                Baseline2D(xu, zu).individual_axes(np.add.outer(xu, zu) * 0.05, axes=axes, method='asls',
                                                   method_kwargs={'lam': 1e2, 'max_iter': 2})
        finally:
            O2.Baseline = orig
        want = [axes] if isinstance(axes, int) else list(axes)
        bad = [(ax, got.tolist()) for ax, got in zip(want, seen) if not np.array_equal(got, (xu, zu)[ax])]
        print('inner fitters built with axis values that are not the caller\'s:', bad)
        return 1 if bad else 0
    return 1
