"""C07 -- penalized-spline baselines solve the documented P-spline system.  DESIGN.md section 4 / C07.

Tie (correspondence): PSpline.solve_pspline and the PenalizedSystem.solve entry it ends in are wrapped from
this process; every pass of every spline method is captured (y, weights, penalty / rhs_extra arguments,
banded lhs, rhs, lower flag, np.interp outputs) and the Gallina model coq/C07/Model.v, instantiated with
PrimFloat (coq/C07/Float.v), is evaluated inside Coq on the SAME basis values / weights / data (hex-float
literals) and compared bit for bit with the captured (lhs, rhs):
  * numba path: any real inputs (the accumulation order of _numba_btb_bty is the model's order);
  * sparse fallback path (module flag _HAS_NUMBA patched off): inputs on dyadic grids (degree <= 2, integer
    data / weights, power-of-two lam) where every intermediate value is exact, so the unspecified summation
    order of scipy.sparse cannot matter.
The same captured calls are densified by an independent converter and compared, in exact Fraction
arithmetic, with the documented matrix the theorems of props/C07.v speak about.

Search (direct oracle): (baseline, weights) along real runs versus an independent dense solve built from a
Cox-de Boor evaluation of the B-spline basis on equally spaced knots (backward-error certificate of the
normal equations + forward comparison scaled by the conditioning)."""
import inspect
import math
import warnings
from fractions import Fraction

import numpy as np

from .common import coqbool, hexf, zl, grep_gate, dep_closure
from . import c07_2d

PROP = 'C07'
EPS = 2.0 ** -52

HEADER = """From Coq Require Import ZArith List Bool PrimFloat.
From PB Require Import lib.CaseUtil lib.Arr C11.Banded C07.Model C07.Float.
Import ListNotations.
Open Scope Z_scope.
"""

ASLS_TYPE = ['pspline_asls', 'pspline_airpls', 'pspline_arpls', 'pspline_iarpls', 'pspline_psalsa',
             'pspline_derpsalsa', 'pspline_mpls', 'pspline_brpls', 'pspline_lsrpls', 'mixture_model', 'irsqr']
SPECIAL = ['pspline_iasls', 'pspline_drpls', 'pspline_aspls', 'mpspline']
ALL_METHODS = ASLS_TYPE + SPECIAL


# ------------------------------------------------------------------ capture
class _NumpyProxy:
    """Stands in for the `np` global of pybaselines.spline so that np.interp outputs can be recorded
    (module attribute of pybaselines.spline only; numpy itself is untouched)."""

    def __init__(self, cap):
        self.__dict__['_cap'] = cap

    def __getattr__(self, name):
        if name == 'interp':
            cap = self._cap

            def interp(x, xp, fp, *a, **kw):
                out = np.interp(x, xp, fp, *a, **kw)
                cap.interps.append({'pts': np.array(x, dtype=float, copy=True),
                                    'out': np.array(out, dtype=float, copy=True)})
                return out
            return interp
        return getattr(np, name)


class Capture:
    def __init__(self, numba=True):
        self.numba = numba
        self.calls = []
        self.interps = []

    def __enter__(self):
        import pybaselines._spline_utils as su
        import pybaselines._banded_utils as bu
        import pybaselines.spline as sp
        self.su, self.sp, self.bu = su, sp, bu
        self.saved_flag = su._HAS_NUMBA
        self.saved_sp = su.PSpline.solve_pspline
        self.saved_np = sp.np
        cap = self
        if not self.numba:
            su._HAS_NUMBA = False
        orig_sp = self.saved_sp
        base_solve = bu.PenalizedSystem.solve

        def solve_pspline(self_, y, weights, penalty=None, rhs_extra=None):
            rec = {'y': np.array(y, dtype=float, copy=True), 'w': np.array(weights, dtype=float, copy=True),
                   'penalty': None if penalty is None else np.array(penalty, dtype=float, copy=True),
                   'rhs_extra': None if rhs_extra is None else np.array(rhs_extra, dtype=float, copy=True),
                   'use_numba': bool(self_._use_numba), 'lower': bool(self_.lower),
                   'reversed': bool(self_.reversed), 'pentapy': bool(self_.using_pentapy),
                   'pen_self': np.array(self_.penalty, dtype=float, copy=True),
                   'num_bands': int(self_.num_bands),
                   'k': int(self_.basis.spline_degree), 'M': int(self_.basis._num_bases),
                   'pspline': self_, 'n_interp': len(cap.interps)}
            cap.calls.append(rec)
            cap.cur = rec
            out = orig_sp(self_, y, weights, penalty, rhs_extra)
            rec['baseline'] = np.array(out, dtype=float, copy=True)
            rec['coef'] = np.array(self_.coef, dtype=float, copy=True)
            cap.cur = None
            return out

        def solve(self_, lhs, rhs, *a, **kw):
            rec = getattr(cap, 'cur', None)
            if rec is not None:
                rec['lhs'] = np.array(lhs, dtype=float, copy=True)
                rec['rhs'] = np.array(rhs, dtype=float, copy=True)
                rec['l_and_u'] = kw.get('l_and_u')
            return base_solve(self_, lhs, rhs, *a, **kw)

        su.PSpline.solve_pspline = solve_pspline
        su.PSpline.solve = solve
        sp.np = _NumpyProxy(self)
        return self

    def __exit__(self, *exc):
        self.su._HAS_NUMBA = self.saved_flag
        self.su.PSpline.solve_pspline = self.saved_sp
        try:
            del self.su.PSpline.solve
        except AttributeError:
            pass
        self.sp.np = self.saved_np
        return False


def numba_available():
    import pybaselines._spline_utils as su
    return bool(su._HAS_NUMBA)


def new_fitter(x, banded_solver=2):
    from pybaselines import Baseline
    f = Baseline(x_data=np.asarray(x, dtype=float), check_finite=False)
    f.banded_solver = banded_solver
    return f


def run_method(method, x, y, banded_solver=2, fitter=None, **kw):
    f = fitter if fitter is not None else new_fitter(x, banded_solver)
    with warnings.catch_warnings():
        warnings.simplefilter('ignore')
        out = getattr(f, method)(np.asarray(y, dtype=float), **kw)
    return f, out


def accepts(method, name):
    from pybaselines import Baseline
    try:
        return name in inspect.signature(getattr(Baseline, method)).parameters
    except (TypeError, ValueError, AttributeError):
        return False


# ------------------------------------------------------------------ independent pieces
def densify(lhs, lower, M):
    """Independent converter: the matrix the captured banded lhs denotes for the library entry point
    (solveh_banded(lower=True) / solve_banded((len//2, len//2)))."""
    R = lhs.shape[0]
    A = [[Fraction(0)] * M for _ in range(M)]
    if lhs.shape[1] != M:
        raise ValueError(f'lhs has {lhs.shape[1]} columns for {M} basis functions')
    if lower:
        for r in range(R):
            for j in range(M - r):
                A[j + r][j] = Fraction(float(lhs[r, j]))
                A[j][j + r] = Fraction(float(lhs[r, j]))
        return A
    if R % 2 != 1:
        raise ValueError(f'solve_banded called with an even number of rows ({R})')
    u = R // 2
    for i in range(M):
        for j in range(max(0, i - u), min(M, i + u + 1)):
            A[i][j] = Fraction(float(lhs[u + i - j, j]))
    return A


def is_exact_vec(v):
    """small dyadic rationals: sums / products of a handful of them are exact in binary64"""
    for t in np.asarray(v, dtype=float).ravel():
        if not math.isfinite(t) or abs(t) > 4096 or Fraction(float(t)).denominator > 4096:
            return False
    return True


def frac_mat(a):
    return [[Fraction(float(v)) for v in row] for row in np.asarray(a, dtype=float)]


def diff_matrix(M, d):
    D = np.diff(np.eye(M), d, axis=0)
    return [[Fraction(int(v)) for v in row] for row in D]


def mat_T(A):
    return [list(r) for r in zip(*A)]


def mat_mul(A, B):
    Bt = mat_T(B)
    return [[sum((a * b for a, b in zip(ra, cb) if a and b), Fraction(0)) for cb in Bt] for ra in A]


def gram(B, w):
    """B' diag(w) B with Fractions."""
    n, M = len(B), len(B[0])
    G = [[Fraction(0)] * M for _ in range(M)]
    for i in range(n):
        nz = [(j, B[i][j]) for j in range(M) if B[i][j]]
        for j, bj in nz:
            for l, bl in nz:
                G[j][l] += w[i] * bj * bl
    return G


def doc_system(method, B, w, y, M, d, lam, extra):
    """The documented (lhs matrix, rhs vector) in exact arithmetic."""
    n = len(B)
    D = diff_matrix(M, d)
    P = mat_mul(mat_T(D), D)
    lamF = Fraction(lam)
    if method == 'iasls':
        w2 = [wi * wi for wi in w]
        G = gram(B, w2)
        D1 = diff_matrix(n, 1)
        T1 = mat_mul(mat_T(D1), D1)
        lam1 = Fraction(extra['lam_1'])
        BtT = mat_mul(mat_T(B), T1)
        E = mat_mul(BtT, B)
        A = [[G[i][j] + lamF * P[i][j] + lam1 * E[i][j] for j in range(M)] for i in range(M)]
        rhs = [sum(B[i][r] * w2[i] * y[i] for i in range(n)) + lam1 * sum(BtT[r][b] * y[b] for b in range(n))
               for r in range(M)]
        return A, rhs
    G = gram(B, w)
    rhs = [sum(B[i][r] * w[i] * y[i] for i in range(n)) for r in range(M)]
    if method == 'drpls':
        D1 = diff_matrix(M, 1)
        P1 = mat_mul(mat_T(D1), D1)
        eta = Fraction(extra['eta'])
        wi = extra['wi']
        A = [[G[i][j] + P1[i][j] + lamF * (1 - eta * wi[i]) * P[i][j] for j in range(M)] for i in range(M)]
    elif method == 'aspls':
        ai = extra['ai']
        A = [[G[i][j] + lamF * ai[i] * P[i][j] for j in range(M)] for i in range(M)]
    else:
        A = [[G[i][j] + lamF * P[i][j] for j in range(M)] for i in range(M)]
    return A, rhs


def cox_de_boor(x, t, k):
    """Dense B-spline design matrix straight from the Cox-de Boor recursion (independent of
    pybaselines and of scipy's design_matrix); the right end belongs to the last interval."""
    x = np.asarray(x, dtype=float)
    nt = len(t)
    n_int = nt - 1
    N = np.zeros((len(x), n_int))
    last = nt - k - 2   # last interval [t[last], t[last+1]] is closed on the right
    idx = np.clip(np.searchsorted(t, x, side='right') - 1, k, last)
    N[np.arange(len(x)), idx] = 1.0
    for q in range(1, k + 1):
        Nn = np.zeros((len(x), n_int - q))
        for j in range(n_int - q):
            a = (x - t[j]) / (t[j + q] - t[j]) if t[j + q] > t[j] else 0.0
            b = (t[j + q + 1] - x) / (t[j + q + 1] - t[j + 1]) if t[j + q + 1] > t[j + 1] else 0.0
            Nn[:, j] = a * N[:, j] + b * N[:, j + 1]
        N = Nn
    return N


def ref_knots(x, num_knots, k):
    xmin, xmax = float(np.min(x)), float(np.max(x))
    dx = (xmax - xmin) / (num_knots - 1)
    t = xmin + dx * np.arange(-k, num_knots + k, dtype=float)
    t[k] = xmin
    t[k + num_knots - 1] = xmax
    return t


# ------------------------------------------------------------------ Coq literals
def fl(vs):
    return '[' + '; '.join(hexf(v) for v in vs) + ']'


def fll(rows):
    return '[' + ';\n    '.join(fl(r) for r in rows) + ']'


def obs_lit(rec):
    return f'({coqbool(rec["lower"])}, {fll(rec["lhs"])}, {fl(rec["rhs"])})'


def case_term(kind, rec0, calls, interps, B, params, eq='feqb'):
    """Coq boolean term: the model applied to the captured inputs equals the captured calls."""
    k, M, n = rec0['k'], rec0['M'], B.shape[0]
    numba = coqbool(rec0['use_numba'])
    d = params['diff_order']
    lam = hexf(params['lam'])
    Bl = f'(Bm {fll(B)})'
    y = f'(fn {fl(rec0["y"])})'
    exp = '[' + ';\n   '.join(obs_lit(r) for r in calls) + ']'
    al = coqbool(params['allow_lower'])
    if kind == 'asls':
        wl = '[' + '; '.join(f'fn {fl(r["w"])}' for r in calls) + ']'
        return (f'check_calls {eq} {M} (asls ops_F {numba} {k} {M}%nat {lam} {d}%nat {al} {n}%nat {Bl} {y} {wl})\n  {exp}')
    if kind == 'iasls':
        # the model squares the weights itself: pass the square roots actually used by the method
        wl = '[' + '; '.join(f'fn {fl(w)}' for w in params['w_unsquared']) + ']'
        return (f'check_calls {eq} {M} (iasls ops_F {numba} {k} {M}%nat {lam} {hexf(params["lam_1"])} {d}%nat {al} '
                f'{n}%nat {Bl} {y} {wl})\n  {exp}')
    if kind == 'drpls':
        wl = '[' + '; '.join(f'(fn {fl(r["w"])}, {fl(i["out"])})' for r, i in zip(calls, interps)) + ']'
        return (f'check_calls {eq} {M} (drpls ops_F {numba} {k} {M}%nat {lam} {hexf(params["eta"])} {d}%nat '
                f'{n}%nat {Bl} {y} {wl})\n  {exp}')
    if kind == 'aspls':
        wl = '[' + '; '.join(f'(fn {fl(r["w"])}, {fl(i["out"])})' for r, i in zip(calls, interps)) + ']'
        return (f'check_calls {eq} {M} (aspls ops_F {numba} {k} {M}%nat {lam} {d}%nat {n}%nat {Bl} {y} {wl})\n  {exp}')
    if kind == 'mpspline':
        c0, c1 = calls
        return (f'check_pair {eq} {M} (mpspline ops_F {numba} {k} {M}%nat {lam} {hexf(params["ratio"])} {d}%nat {al} '
                f'{n}%nat {Bl} (fn {fl(c0["y"])}) (fn {fl(c0["w"])}) (fn {fl(c1["y"])}) (fn {fl(c1["w"])}))\n  {exp}')
    raise ValueError(kind)


KIND = {'pspline_iasls': 'iasls', 'pspline_drpls': 'drpls', 'pspline_aspls': 'aspls', 'mpspline': 'mpspline'}


# ------------------------------------------------------------------ case generation
def gen_inputs(rng, exact, kmax=5):
    """x, y, weights, structural parameters.  exact: dyadic grid, unit knot spacing, degree <= 2."""
    if exact:
        k = rng.choice([0, 1, 1, 2, 2])
        L = rng.randint(1, 6)
        grid = [i / 4.0 for i in range(0, 4 * L + 1)]
        style = rng.choice(['dense', 'sparse', 'knots', 'clustered'])
        if style == 'knots':
            pts = [float(i) for i in range(L + 1)] + [rng.choice(grid) for _ in range(rng.randint(0, 2))]
        elif style == 'sparse':
            pts = [0.0, float(L)] + [rng.choice(grid) for _ in range(rng.randint(1, 4))]
        elif style == 'clustered':
            c = rng.choice(grid)
            pts = [0.0, float(L)] + [min(float(L), max(0.0, c + rng.choice([-0.25, 0, 0.25, 0.5]))) for _ in range(rng.randint(3, 8))]
        else:
            pts = [0.0, float(L)] + [rng.choice(grid) for _ in range(rng.randint(4, 12))]
        while len(pts) < 4:
            pts.append(rng.choice(grid))
        x = sorted(pts)
        num_knots = L + 1
        y = [float(rng.randint(-8, 8)) for _ in x]
        w = [float(rng.choice([0, 1, 1, 2, 3])) for _ in x]
        if sum(w) == 0:
            w[0] = 1.0
        lam = 2.0 ** rng.randint(-2, 4)
    else:
        k = rng.randint(0, kmax)
        num_knots = rng.randint(2, 7)
        n = rng.randint(max(3, 2), 14)
        style = rng.choice(['uniform', 'random', 'clustered'])
        if style == 'uniform':
            x = list(np.linspace(-1.0, 2.5, n))
        elif style == 'random':
            x = sorted(rng.uniform(0, 10) for _ in range(n))
        else:
            c = rng.uniform(0, 10)
            x = sorted([0.0, 10.0] + [min(10.0, max(0.0, rng.gauss(c, 0.3))) for _ in range(n - 2)])
        y = [rng.uniform(-5, 20) for _ in x]
        w = [rng.choice([0.0, 1.0, rng.random()]) for _ in x]
        if sum(w) == 0:
            w[0] = 1.0
        lam = 10.0 ** rng.uniform(-3, 4)
        style = 'real-' + style
    M = num_knots + k - 1
    dmax = min(4, M - 1)
    return dict(k=k, num_knots=num_knots, x=x, y=y, w=w, lam=lam, M=M, dmax=dmax, style=style)


def method_kwargs(method, inp, rng, exact, numba, d):
    kw = dict(num_knots=inp['num_knots'], spline_degree=inp['k'], diff_order=d)
    if method == 'mpspline':
        kw.update(lam=inp['lam'], lam_smooth=2.0 ** rng.randint(-3, 1), half_window=2, p=0.25)
    else:
        kw['lam'] = inp['lam']
    if accepts(method, 'weights'):
        kw['weights'] = np.array(inp['w'])
    if method in ('pspline_asls', 'pspline_iasls', 'pspline_psalsa', 'pspline_derpsalsa', 'mixture_model'):
        kw['p'] = 0.25
    if method == 'pspline_mpls':
        kw['p'] = 0.25
        kw['half_window'] = 2
    if method == 'pspline_iasls':
        kw['lam_1'] = 2.0 ** rng.randint(-3, 1)
    if method == 'pspline_drpls':
        kw['eta'] = rng.choice([0.0, 0.25, 0.5, 1.0])
    if accepts(method, 'max_iter'):
        if method in ('pspline_asls', 'pspline_iasls'):
            kw['max_iter'] = rng.randint(0, 2)     # weights stay in {p, 1-p}: exact at every pass
        elif exact and not numba:
            kw['max_iter'] = 0                      # later weights are not dyadic
        else:
            kw['max_iter'] = rng.randint(0, 2)
    if accepts(method, 'tol'):
        kw['tol'] = 0.0 if rng.random() < 0.7 else 1e-2
    return kw


def one_capture(method, inp, kw, numba, banded_solver, perm=None):
    x, y = np.array(inp['x']), np.array(inp['y'])
    kw = dict(kw)
    if perm is not None:
        x, y = x[perm], y[perm]
        if 'weights' in kw:
            kw['weights'] = kw['weights'][perm]
    with Capture(numba=numba) as cap:
        fitter, out = run_method(method, x, y, banded_solver=banded_solver, **kw)
    return cap, fitter, out


def exact_doc_check(ctx, method, cap, B, params, case):
    """Independent exact check: densified captured lhs / rhs == documented system (Fractions)."""
    kind = KIND.get(method, 'asls')
    Bf = frac_mat(B)
    bad = None
    for idx, rec in enumerate(cap.calls):
        M = rec['M']
        if not (is_exact_vec(rec['y']) and is_exact_vec(rec['w'])):
            continue
        try:
            A = densify(rec['lhs'], rec['lower'], M)
        except ValueError as exc:
            return f'pass {idx}: {exc}'
        if kind in ('drpls', 'aspls') and not is_exact_vec(cap.interps[idx]['out']):
            continue
        y = [Fraction(float(v)) for v in rec['y']]
        w = [Fraction(float(v)) for v in rec['w']]
        lam = params['lam']
        extra = {}
        k2 = kind
        if kind == 'iasls':
            extra['lam_1'] = params['lam_1']
            rt = np.sqrt(rec['w'])
            if not np.array_equal(rt * rt, rec['w']):
                continue
            w = [Fraction(float(v)) for v in rt]
        elif kind == 'drpls':
            extra['eta'] = params['eta']
            extra['wi'] = [Fraction(float(v)) for v in cap.interps[idx]['out']]
        elif kind == 'aspls':
            extra['ai'] = [Fraction(float(v)) for v in cap.interps[idx]['out']]
        elif kind == 'mpspline':
            k2 = 'asls'
            lam = params['lam'] if idx == 0 else Fraction(params.get('ratio', 1.0)) * Fraction(params['lam'])
        Ad, rd = doc_system(k2, Bf, w, y, M, params['diff_order'], lam, extra)
        if A != Ad:
            ij = [(i, j) for i in range(M) for j in range(M) if A[i][j] != Ad[i][j]][0]
            bad = (f'pass {idx}: lhs entry {ij} is {float(A[ij[0]][ij[1]])!r} but the documented system has '
                   f'{float(Ad[ij[0]][ij[1]])!r}')
            break
        got_rhs = [Fraction(float(v)) for v in rec['rhs']]
        if got_rhs != rd:
            r = [i for i in range(M) if got_rhs[i] != rd[i]][0]
            bad = f'pass {idx}: rhs[{r}] is {float(got_rhs[r])!r} but the documented rhs is {float(rd[r])!r}'
            break
    return bad


def build_case(ctx, rng, exact, numba, method):
    """Runs one captured call of `method`; returns (coq term, description) or None."""
    for _ in range(20):
        inp = gen_inputs(rng, exact)
        dmin = 2 if method in ('pspline_iasls', 'pspline_drpls') else 1
        if inp['dmax'] >= dmin:
            break
    else:
        return None
    d = rng.randint(dmin, inp['dmax'])
    kw = method_kwargs(method, inp, rng, exact, numba, d)
    banded_solver = rng.choice([2, 2, 4])
    n = len(inp['x'])
    perm = None
    if rng.random() < 0.3:
        perm = list(range(n))
        rng.shuffle(perm)
        perm = np.array(perm)
    desc = {'kind': 'capture', 'method': method, 'numba': numba, 'exact': exact, 'banded_solver': banded_solver,
            'x': [float(v) for v in inp['x']], 'y': [float(v) for v in inp['y']],
            'perm': None if perm is None else [int(v) for v in perm],
            'kw': {a: (b.tolist() if isinstance(b, np.ndarray) else b) for a, b in kw.items()}}
    try:
        cap, fitter, out = one_capture(method, inp, kw, numba, banded_solver, perm)
    except Exception as exc:  # noqa
        # singular systems (LinAlgError) are outside the property; anything else is recorded
        name = type(exc).__name__
        ctx.hist[f'raised:{name}'] = ctx.hist.get(f'raised:{name}', 0) + 1
        if name not in ('LinAlgError', 'ValueError'):
            ctx.fail(f'raises:{method}:{name}', f'{method} raised {name}: {exc}', desc)
        return None
    if not cap.calls or any('lhs' not in r for r in cap.calls):
        ctx.broke('correspondence:capture', f'{method}: solve_pspline did not reach PenalizedSystem.solve')
        return None
    rec0 = cap.calls[0]
    if rec0['use_numba'] != numba or rec0['pentapy']:
        ctx.broke('correspondence:path', f'{method}: use_numba={rec0["use_numba"]} (wanted {numba}), pentapy={rec0["pentapy"]}')
        return None
    B = np.asarray(rec0['pspline'].basis.basis.toarray(), dtype=float)
    params = {'diff_order': d, 'lam': float(kw.get('lam_smooth', kw['lam'])) if method == 'mpspline' else float(kw['lam']),
              'allow_lower': banded_solver < 4}
    kind = KIND.get(method, 'asls')
    calls = cap.calls
    interps = cap.interps
    if method == 'mpspline':
        params['ratio'] = float(kw['lam']) / float(kw['lam_smooth'])
    if not numba:
        # the summation order of scipy.sparse products is unspecified: only passes whose inputs are small
        # dyadic numbers (every intermediate exact) can be compared bit for bit on this path
        if kind == 'mpspline':
            kind, calls = 'asls', calls[:1]
        keep = [i for i, r in enumerate(calls) if is_exact_vec(r['w']) and is_exact_vec(r['y'])]
        if kind in ('drpls', 'aspls'):
            interps = [interps[i] for i in keep if i < len(interps)]
        calls = [calls[i] for i in keep]
        if not calls:
            return None
        rec0 = calls[0]
    if kind == 'iasls':
        params['lam_1'] = float(kw['lam_1'])
        # solve_pspline receives weight_array**2; recover the weights in force (what the method holds)
        params['w_unsquared'] = []
        for r in calls:
            rt = np.sqrt(r['w'])
            if not np.array_equal(rt * rt, r['w']):
                return None   # not an exact square: cannot hand the model the un-squared weights bit-exactly
            params['w_unsquared'].append(rt)
    elif kind == 'drpls':
        params['eta'] = float(kw['eta'])
    elif kind == 'mpspline':
        if len(calls) != 2:
            ctx.broke('correspondence:mpspline', f'mpspline made {len(calls)} solve_pspline calls')
            return None
        params['ratio'] = float(kw['lam']) / float(kw['lam_smooth'])
    if kind in ('drpls', 'aspls') and len(interps) < len(calls):
        ctx.broke('correspondence:interp', f'{method}: {len(cap.interps)} np.interp calls for {len(calls)} passes')
        return None
    if kind == 'asls' and any(not np.array_equal(r['y'], rec0['y']) for r in calls):
        ctx.broke('correspondence:y', f'{method}: y changes between solve_pspline calls')
        return None
    if kind in ('drpls', 'aspls'):
        # the number of interpolation points must be the number of basis functions (C07_basis_midpoints_len)
        for i in cap.interps[:len(calls)]:
            if len(i['out']) != rec0['M']:
                ctx.fail(f'midpoints-len:{method}', f'{method}: {len(i["out"])} basis midpoints for {rec0["M"]} basis functions', desc)
    term = case_term(kind, rec0, calls, interps, B, params)
    nontrivial = n > 2 and rec0['M'] > d
    canon = (method, numba, exact, rec0['k'], rec0['M'], d, params['lam'], rec0['lower'], tuple(inp['x']), tuple(inp['y']),
             tuple(inp['w']), None if perm is None else tuple(perm), len(calls))
    ctx.case(canon, nontrivial=nontrivial,
             kind=f'{"numba" if numba else "sparse"}:{"exact" if exact else "real"}:{method}:deg{rec0["k"]}:d{d}:{"lower" if rec0["lower"] else "full"}')
    ctx.traces += 1
    if exact:
        err = exact_doc_check(ctx, method, cap, B, params, desc)
        if err:
            ctx.extra.setdefault('first_exact_fail', desc)
            ctx.fail(f'exact-system:{method}:{"numba" if numba else "sparse"}',
                     f'{method} (degree {rec0["k"]}, diff_order {d}, {"lower" if rec0["lower"] else "full"} bands): {err}', desc)
    return term, desc


def unsort(rng, n, style=None):
    """index orders in which a caller may hand x to utils.pspline_smooth / SplineBasis"""
    style = style or rng.choice(['reversed', 'shuffled', 'two-scans', 'zigzag'])
    idx = list(range(n))
    if style == 'reversed':
        idx = idx[::-1]
    elif style == 'shuffled':
        rng.shuffle(idx)
    elif style == 'two-scans':
        a = sorted(rng.sample(range(n), max(1, n // 2)))
        b = [i for i in range(n) if i not in a]
        idx = (a + b) if rng.random() < 0.5 else (b + a)
    else:
        lo, hi, idx = 0, n - 1, []
        while lo <= hi:
            idx.append(hi)
            if lo < hi:
                idx.append(lo)
            lo, hi = lo + 1, hi - 1
    return style, np.array(idx)


def build_direct_case(ctx, rng, exact, numba):
    import pybaselines._spline_utils as su
    inp = gen_inputs(rng, exact)
    if inp['dmax'] < 1:
        return None
    d = rng.randint(1, inp['dmax'])
    n = len(inp['x'])
    if rng.random() < 0.3:      # repeated x values
        j = rng.randrange(n)
        inp['x'][rng.randrange(n)] = inp['x'][j]
        if exact:
            inp['x'][0], inp['x'][-1] = 0.0, float(inp['num_knots'] - 1)
    style, perm = unsort(rng, n)
    x, y, w = np.array(inp['x'])[perm], np.array(inp['y'])[perm], np.array(inp['w'])[perm]
    lam = float(inp['lam'])
    desc = {'kind': 'direct', 'numba': numba, 'exact': exact, 'x': x.tolist(), 'y': y.tolist(), 'w': w.tolist(),
            'num_knots': inp['num_knots'], 'spline_degree': inp['k'], 'diff_order': d, 'lam': lam, 'order': style}
    try:
        with Capture(numba=numba) as cap:
            basis = su.SplineBasis(x, inp['num_knots'], inp['k'])
            pspline = su.PSpline(basis, lam, d)
            with warnings.catch_warnings():
                warnings.simplefilter('ignore')
                pspline.solve_pspline(y, w)
    except Exception as exc:  # noqa
        name = type(exc).__name__
        ctx.hist[f'raised:{name}'] = ctx.hist.get(f'raised:{name}', 0) + 1
        if name != 'LinAlgError':
            ctx.fail(f'raises:direct:{name}', f'SplineBasis/PSpline.solve_pspline on unsorted x raised {name}: {exc}', desc)
        return None
    rec0 = cap.calls[0]
    if 'lhs' not in rec0 or rec0['use_numba'] != numba:
        ctx.broke('correspondence:path', f'direct PSpline: use_numba={rec0["use_numba"]} (wanted {numba})')
        return None
    B = np.asarray(basis.basis.toarray(), dtype=float)
    params = {'diff_order': d, 'lam': lam, 'allow_lower': True}
    term = case_term('asls', rec0, cap.calls, [], B, params)
    ctx.case(('direct', numba, exact, inp['k'], rec0['M'], d, lam, tuple(x), tuple(y), tuple(w)), nontrivial=n > 2,
             kind=f'{"numba" if numba else "sparse"}:{"exact" if exact else "real"}:direct-unsorted:{style}:deg{inp["k"]}:d{d}')
    ctx.traces += 1
    if exact:
        err = exact_doc_check(ctx, 'direct', cap, B, params, desc)
        if err:
            ctx.fail(f'exact-system:direct:{"numba" if numba else "sparse"}',
                     f'PSpline.solve_pspline on x in {style} order (degree {inp["k"]}, diff_order {d}): {err}', desc)
    desc2 = dict(desc)
    desc2.update(method='PSpline.solve_pspline(direct)', banded_solver=None, kw={'order': style, 'spline_degree': inp['k'],
                                                                                 'num_knots': inp['num_knots'], 'diff_order': d})
    return term, desc2


def correspondence(ctx):
    rng = ctx.rng
    has_numba = numba_available()
    if not has_numba:
        ctx.note('numba is not importable: only the sparse fallback path was exercised')
    plans = []
    reps_exact = ctx.n(5, 20)
    reps_real = ctx.n(5, 20)
    for method in ALL_METHODS:
        for _ in range(reps_exact):
            plans.append((True, False, method))
            if has_numba:
                plans.append((True, True, method))
        if has_numba:
            for _ in range(reps_real):
                plans.append((False, True, method))
    terms = []
    for exact, numba, method in plans:
        res = build_case(ctx, rng, exact, numba, method)
        if res is not None:
            terms.append(res)
    # SplineBasis(x in the caller's order) + PSpline + solve_pspline directly (what utils.pspline_smooth does)
    for i in range(ctx.n(24, 80)):
        for numba in ([True, False] if has_numba else [False]):
            exact = (i % 2 == 0) or not numba
            res = build_direct_case(ctx, rng, exact, numba)
            if res is not None:
                terms.append(res)
    if len(terms) < len(plans) // 2:
        ctx.broke('correspondence:coverage', f'only {len(terms)} of {len(plans)} planned captures succeeded')
    if terms:
        ctx.sample({k: v for k, v in terms[0][1].items() if k != 'kind'})
    per = 40
    bad_any = False
    for s in range(0, len(terms), per):
        chunk = terms[s:s + per]
        defs = '\n'.join(f'Definition case_{i} : bool :=\n  {t}.' for i, (t, _) in enumerate(chunk))
        text = HEADER + defs + '\nDefinition cases : list bool := [' + '; '.join(f'case_{i}' for i in range(len(chunk))) + '].\n' \
            'Eval vm_compute in (bad (fun b : bool => b) cases).\n'
        vals = ctx.coq_eval(f'asm{s // per}', text, timeout=900)
        if vals is None:
            bad_any = True
            continue
        if not vals or not (vals[0].startswith('(0%nat, [])') or vals[0].startswith('(0, [])')):
            bad_any = True
            import re
            idxs = [int(v) for v in re.findall(r'(\d+)%nat', vals[0].split(',', 1)[1])] if vals else []
            first = chunk[idxs[0]][1] if idxs and idxs[0] < len(chunk) else None
            ctx.broke(f'correspondence:assembly-shard{s // per}',
                      f'model and implementation disagree on the banded system handed to the solver: {vals}; first case: '
                      f'{ {k: first.get(k) for k in ("method", "numba", "exact", "banded_solver", "kw")} if first else None}')
            ctx.extra.setdefault('first_mismatch', first)
    ctx.obligations.append('correspondence:solve_pspline-assembly(bit-exact)')
    if not bad_any and not any(n.startswith('correspondence:') for n, _ in ctx.broken):
        ctx.discharged.append('correspondence:solve_pspline-assembly(bit-exact)')
    midpoints_correspondence(ctx)


def midpoints_correspondence(ctx):
    """_basis_midpoints: model (PrimFloat) vs implementation on real knot vectors, every degree parity."""
    from pybaselines import _spline_utils as su
    rng = ctx.rng
    lits = []
    for k in range(0, 8):
        for nk in (2, 3, 4, 7, 12):
            x = np.array(sorted(rng.uniform(-3, 9) for _ in range(6)))
            knots = su._spline_knots(x, nk, k, True)
            pts = su._basis_midpoints(knots, k)
            M = nk + k - 1
            ctx.case(('midpoints', k, nk, tuple(knots)), nontrivial=True, kind=f'midpoints:deg{k}')
            if len(pts) != M:
                ctx.fail('midpoints-len', f'_basis_midpoints(knots, {k}) has {len(pts)} entries for {M} basis functions',
                         {'kind': 'midpoints', 'k': k, 'num_knots': nk, 'x': x.tolist()})
            lits.append(f'({k}, {fl(knots)}, {fl(pts)})')
    text = HEADER + f"""
Definition cases : list (Z * list float * list float) := [
{(';' + chr(10)).join(lits)}
].
Definition ok (c : Z * list float * list float) : bool :=
  let '(k, knots, pts) := c in fl_eqb feqb (basis_midpoints ops_F 0.5%float knots k) pts.
Eval vm_compute in (bad ok cases).
"""
    vals = ctx.coq_eval('midpoints', text)
    ctx.obligations.append('correspondence:_basis_midpoints')
    if vals is not None:
        if vals and (vals[0].startswith('(0%nat, [])') or vals[0].startswith('(0, [])')):
            ctx.discharged.append('correspondence:_basis_midpoints')
        else:
            ctx.broke('correspondence:midpoints', f'model and implementation disagree on _basis_midpoints: {vals}')


# ------------------------------------------------------------------ direct oracle
def oracle_case(ctx, rng, method, numba, big):
    """One real run; every captured pass is checked against the independent dense system."""
    k = rng.randint(0, 5)
    num_knots = rng.choice([2, 3, 4, 5, 8, 12, 20]) if big else rng.choice([2, 3, 5, 8])
    n = rng.randint(12, 60)
    style = rng.choice(['uniform', 'random', 'clustered', 'unsorted'])
    if style == 'uniform':
        x = np.linspace(rng.uniform(-5, 0), rng.uniform(1, 50), n)
    elif style == 'clustered':
        c = rng.uniform(2, 8)
        x = np.sort(np.array([0.0, 10.0] + [min(10.0, max(0.0, rng.gauss(c, 0.5))) for _ in range(n - 2)]))
    else:
        x = np.sort(np.array([rng.uniform(0, 10) for _ in range(n)]))
    t_ = (x - x.min()) / (x.max() - x.min())
    y = 3 + 2 * t_ + 8 * np.exp(-0.5 * ((t_ - rng.uniform(0.2, 0.8)) / 0.05) ** 2) + np.array([rng.gauss(0, 0.1) for _ in range(n)])
    if style == 'unsorted':
        p = np.array(rng.sample(range(n), n))
        x, y = x[p], y[p]
    M = num_knots + k - 1
    dmin = 2 if method in ('pspline_iasls', 'pspline_drpls') else 1
    if M - 1 < dmin:
        return
    d = rng.randint(dmin, min(4, M - 1))
    lam = 10.0 ** rng.uniform(-4, 6)
    kw = dict(num_knots=num_knots, spline_degree=k, diff_order=d, lam=lam)
    if method == 'mpspline':
        kw['lam_smooth'] = 10.0 ** rng.uniform(-3, 0)
        kw['half_window'] = 3
    if method == 'pspline_mpls':
        kw['half_window'] = 3
    if method == 'pspline_iasls':
        kw['lam_1'] = 10.0 ** rng.uniform(-5, -1)
    max_iter = None
    if accepts(method, 'max_iter'):
        max_iter = rng.choice([0, 1, 2, 3, 6, 30])
        kw['max_iter'] = max_iter
    tol = None
    if accepts(method, 'tol'):
        tol = rng.choice([0.0, 0.0, 1e-3, 1e-1])
        kw['tol'] = tol
    banded_solver = rng.choice([2, 4])
    desc = {'kind': 'oracle', 'method': method, 'numba': numba, 'banded_solver': banded_solver,
            'x': x.tolist(), 'y': y.tolist(), 'kw': kw}
    check_run(ctx, method, numba, banded_solver, x, y, kw, desc, style)


def check_run(ctx, method, numba, banded_solver, x, y, kw, desc, style='', fitter=None):
    """One call (on a fresh fitter, or on the shared `fitter` of a call sequence) checked pass by pass."""
    k, num_knots, d, lam = kw['spline_degree'], kw['num_knots'], kw['diff_order'], kw['lam']
    M = num_knots + k - 1
    try:
        with Capture(numba=numba) as cap:
            if method == 'pspline_smooth':
                from pybaselines import utils
                with warnings.catch_warnings():
                    warnings.simplefilter('ignore')
                    out = utils.pspline_smooth(y, x, lam=lam, num_knots=num_knots, spline_degree=k, diff_order=d)
                out = (out[0], {})
                fitter = None
            else:
                fitter, out = run_method(method, x, y, banded_solver=banded_solver, fitter=fitter, **kw)
    except Exception as exc:  # noqa
        name = type(exc).__name__
        ctx.hist[f'oracle-raised:{name}'] = ctx.hist.get(f'oracle-raised:{name}', 0) + 1
        if name not in ('LinAlgError',):
            ctx.fail(f'raises:{method}:{name}', f'{method} raised {name}: {exc}', desc)
        return 0
    # a fitter sorts x (and y, weights) first; utils.pspline_smooth uses them as given
    order = np.arange(len(x)) if method == 'pspline_smooth' else np.argsort(x, kind='mergesort')
    xs = x[order]
    t = ref_knots(xs, num_knots, k)
    B = cox_de_boor(xs, t, k)
    D = np.diff(np.eye(M), d, axis=0)
    P = D.T @ D
    kind = KIND.get(method, 'asls')
    nbad = 0
    for rec in cap.calls:
        bs = rec['pspline'].basis
        if (int(bs.spline_degree), int(bs.num_knots), int(bs._num_bases)) != (k, num_knots, M):
            ctx.fail(f'basis-params:{method}',
                     f'{method}(num_knots={num_knots}, spline_degree={k}) solved with a basis of num_knots={bs.num_knots}, '
                     f'spline_degree={bs.spline_degree} ({bs._num_bases} functions)', desc)
            nbad += 1
            break    # the dense oracle below still runs and reports under its own key
    for idx, rec in enumerate(cap.calls):
        w, yy = rec['w'], rec['y']
        lam_eff = lam
        if method == 'mpspline' and idx == 0:
            lam_eff = kw['lam_smooth']
        A = B.T @ (w[:, None] * B) + lam_eff * P
        b = B.T @ (w * yy)
        if kind == 'iasls':
            D1 = np.diff(np.eye(len(xs)), 1, axis=0)
            T1 = kw['lam_1'] * (D1.T @ D1)
            A = A + B.T @ T1 @ B
            b = b + B.T @ (T1 @ yy)
        elif kind == 'drpls':
            pts = 0.5 * (t[:M] + t[k + 1:k + 1 + M])     # centre of the support of basis function j
            wi = np.interp(pts, xs, w)
            D1 = np.diff(np.eye(M), 1, axis=0)
            A = B.T @ (w[:, None] * B) + D1.T @ D1 + lam * ((1 - kw.get('eta', 0.5) * wi)[:, None] * P)
        elif kind == 'aspls':
            pts = 0.5 * (t[:M] + t[k + 1:k + 1 + M])
            # alpha in force at this pass is not an argument of solve_pspline: recover it from the penalty argument
            ai = cap.interps[idx]['out'] if idx < len(cap.interps) else np.ones(M)
            A = B.T @ (w[:, None] * B) + lam * (ai[:, None] * P)
        coef = rec['coef']
        base = rec['baseline']
        scaleA = np.abs(A) @ np.abs(coef) + np.abs(b)
        resid = np.abs(A @ coef - b)
        cond = np.linalg.cond(A)
        ctx.case(('oracle', method, numba, k, num_knots, d, float(lam), idx, style, len(xs), float(yy[0])),
                 nontrivial=True, kind=f'oracle:{method}:{style}')
        # 1. backward-error certificate of the documented normal equations (independent of conditioning):
        #    the basis is recomputed from Cox-de Boor on recomputed knots, so allow for its rounding
        tolb = 1e-9 * (float(np.max(scaleA)) + 1e-300)
        if not np.all(np.isfinite(coef)) or float(np.max(resid)) > tolb:
            # when the system is numerically singular the solver's answer is not meaningful
            if np.isfinite(cond) and cond < 1e12:
                r = int(np.argmax(resid))
                ctx.fail(f'system:{method}',
                         f'{method} pass {idx}: coefficients do not solve the documented P-spline system '
                         f'(row {r}: residual {resid[r]:.3e}, scale {scaleA[r]:.3e}, degree {k}, diff_order {d}, '
                         f'num_knots {num_knots}, {"numba" if numba else "sparse"} path, {"lower" if rec["lower"] else "full"} bands)', desc)
                nbad += 1
                break
        # 2. the returned spline is B c
        fit = B @ coef
        if float(np.max(np.abs(fit - base))) > 1e-9 * (float(np.max(np.abs(fit))) + float(np.max(np.abs(coef))) + 1e-300):
            ctx.fail(f'Bc:{method}', f'{method} pass {idx}: returned spline differs from B c', desc)
            nbad += 1
            break
        # 3. forward comparison with the independent dense solve, scaled by the conditioning
        if np.isfinite(cond) and cond < 1e8:
            cref = np.linalg.solve(A, b)
            ref = B @ cref
            tolf = 1e4 * cond * EPS * (float(np.max(np.abs(ref))) + float(np.max(np.abs(yy)))) + 1e-12
            if float(np.max(np.abs(ref - base))) > tolf:
                ctx.fail(f'baseline:{method}', f'{method} pass {idx}: baseline differs from the independent dense P-spline solve by '
                         f'{float(np.max(np.abs(ref - base))):.3e} (tolerance {tolf:.3e}, cond {cond:.2e})', desc)
                nbad += 1
                break
    # returned pair
    if cap.calls and method != 'pspline_smooth':
        base_ret, params = out
        last = cap.calls[-1]
        inv = np.empty_like(order)
        inv[order] = np.arange(len(order))
        if method not in ('pspline_brpls', 'mixture_model'):   # mixture_model maps the y-domain back (affine)
            if not np.array_equal(np.asarray(base_ret), last['baseline'][inv]):
                ctx.fail(f'returned-baseline:{method}', f'{method}: returned baseline is not the spline of the last solve', desc)
                nbad += 1
        th = params.get('tol_history')
        tol = kw.get('tol')
        if (th is not None and tol is not None and np.ndim(th) == 1 and len(th) and kind in ('asls', 'iasls')
                and method not in ('pspline_brpls', 'mixture_model', 'pspline_mpls') and 'weights' in params):
            converged = th[-1] < tol
            wret = np.asarray(params['weights'])[order]
            wlast = np.sqrt(last['w']) if kind == 'iasls' else last['w']
            same = np.allclose(wret, wlast, rtol=1e-15, atol=0) if kind == 'iasls' else np.array_equal(wret, wlast)
            if converged and not same:
                ctx.fail(f'returned-pair:{method}', f'{method}: run reports convergence but the returned weights are not those '
                         'of the system the returned baseline solves', desc)
                nbad += 1
    return nbad


def seq_kwargs(rng, method, num_knots, k, d):
    kw = dict(num_knots=num_knots, spline_degree=k, diff_order=d, lam=10.0 ** rng.uniform(-3, 5))
    if method == 'mpspline':
        kw['lam_smooth'] = 10.0 ** rng.uniform(-3, 0)
        kw['half_window'] = 3
    if method == 'pspline_mpls':
        kw['half_window'] = 3
    if method == 'pspline_iasls':
        kw['lam_1'] = 10.0 ** rng.uniform(-5, -1)
    if accepts(method, 'max_iter'):
        kw['max_iter'] = rng.choice([0, 1, 3, 10])
    if accepts(method, 'tol'):
        kw['tol'] = rng.choice([0.0, 1e-3])
    return kw


def gen_sequence(rng):
    """2-4 P-spline calls for ONE shared Baseline object: (num_knots, degree) pairs with the same sum (hence the
    same number of basis functions), repeated pairs, changed diff_order / lam, different methods in a row."""
    n = rng.randint(15, 50)
    x = np.sort(np.array([rng.uniform(0, 10) for _ in range(n)]))
    if rng.random() < 0.3:
        x = x[np.array(rng.sample(range(n), n))]
    total = rng.randint(4, 14)          # num_knots + spline_degree
    steps = []
    prev = None
    for _ in range(rng.randint(2, 4)):
        mode = rng.random()
        if prev is not None and mode < 0.15:
            nk, k = prev                                   # same basis again (legitimate reuse)
        elif mode < 0.8:
            ks = [q for q in range(0, 6) if total - q >= 2 and (total - q, q) != prev]
            k = rng.choice(ks)
            nk = total - k                                 # same sum, different pair
        else:
            k = rng.randint(0, 5)
            nk = rng.randint(2, 12)
        prev = (nk, k)
        M = nk + k - 1
        method = rng.choice(ALL_METHODS + ['pspline_smooth'])
        dmin = 2 if method in ('pspline_iasls', 'pspline_drpls') else 1
        if M - 1 < dmin:
            method, dmin = 'pspline_asls', 1
        if M - 1 < 1:
            continue
        d = rng.randint(dmin, min(4, M - 1))
        t_ = (x - x.min()) / (x.max() - x.min())
        y = 2 + 3 * t_ + 6 * np.exp(-0.5 * ((t_ - rng.uniform(0.2, 0.8)) / 0.06) ** 2) + np.array([rng.gauss(0, 0.1) for _ in range(n)])
        steps.append({'method': method, 'y': y.tolist(), 'kw': seq_kwargs(rng, method, nk, k, d)})
    return x, steps


def check_sequence(ctx, numba, banded_solver, x, steps):
    """Every call of a sequence on one shared fitter is checked exactly like a call on a fresh object."""
    x = np.asarray(x, dtype=float)
    fitter = new_fitter(x, banded_solver)
    nbad = 0
    for i, st in enumerate(steps):
        desc = {'kind': 'sequence', 'numba': numba, 'banded_solver': banded_solver, 'x': x.tolist(),
                'steps': steps[:i + 1], 'failing_step': i}
        nbad += check_run(ctx, st['method'], numba, banded_solver, x, np.asarray(st['y'], dtype=float), dict(st['kw']),
                          desc, style=f'seq{i}', fitter=fitter) or 0
        if nbad:
            break
    return nbad


def check_smooth(ctx, numba, x, y, w, kw, desc):
    """utils.pspline_smooth on x in the caller's order: returned spline AND returned tck against the independent
    dense Cox-de Boor system on the same points."""
    from pybaselines import utils
    from scipy.interpolate import BSpline
    k, nk, d, lam = kw['spline_degree'], kw['num_knots'], kw['diff_order'], kw['lam']
    M = nk + k - 1
    try:
        with Capture(numba=numba):
            with warnings.catch_warnings():
                warnings.simplefilter('ignore')
                fit, tck = utils.pspline_smooth(y, x, lam=lam, num_knots=nk, spline_degree=k, diff_order=d, weights=w)
    except Exception as exc:  # noqa
        name = type(exc).__name__
        ctx.hist[f'oracle-raised:{name}'] = ctx.hist.get(f'oracle-raised:{name}', 0) + 1
        if name != 'LinAlgError':
            ctx.fail(f'raises:pspline_smooth:{name}', f'pspline_smooth raised {name}: {exc}', desc)
        return 0
    ww = np.ones(len(x)) if w is None else np.asarray(w, dtype=float)
    t = ref_knots(x, nk, k)
    B = cox_de_boor(x, t, k)
    D = np.diff(np.eye(M), d, axis=0)
    A = B.T @ (ww[:, None] * B) + lam * (D.T @ D)
    b = B.T @ (ww * y)
    fit = np.asarray(fit, dtype=float)
    knots, coef, deg = tck
    coef = np.asarray(coef, dtype=float)
    ctx.case(('smooth', numba, k, nk, d, float(lam), desc.get('order'), len(x), float(y[0])), nontrivial=True,
             kind=f'oracle:pspline_smooth:{desc.get("order")}')
    what = None
    cond = np.linalg.cond(A)
    scale = float(np.max(np.abs(y))) + float(np.max(np.abs(fit))) + 1e-300
    if int(deg) != k or len(knots) != len(t) or len(coef) != M or \
            float(np.max(np.abs(np.asarray(knots) - t))) > 1e-9 * (float(np.max(np.abs(t))) + 1e-300):
        what = f'returned tck is not the documented spline space (degree {deg}, {len(knots)} knots, {len(coef)} coefficients)'
    if what is None and np.isfinite(cond) and cond < 1e12:
        scaleA = np.abs(A) @ np.abs(coef) + np.abs(b)
        resid = np.abs(A @ coef - b)
        if not np.all(np.isfinite(coef)) or float(np.max(resid)) > 1e-9 * (float(np.max(scaleA)) + 1e-300):
            r = int(np.argmax(resid))
            what = (f'returned coefficients do not solve the documented P-spline system (row {r}: residual {resid[r]:.3e}, '
                    f'scale {scaleA[r]:.3e})')
    if what is None and float(np.max(np.abs(B @ coef - fit))) > 1e-9 * (scale + float(np.max(np.abs(coef)))):
        what = 'returned spline differs from B c for the returned coefficients'
    if what is None:
        ev = BSpline(np.asarray(knots, dtype=float), coef, int(deg), extrapolate=True)(x)
        if float(np.max(np.abs(ev - fit))) > 1e-9 * (scale + float(np.max(np.abs(coef)))):
            what = 'returned tck evaluated with scipy BSpline differs from the returned spline'
    if what is None and np.isfinite(cond) and cond < 1e8:
        ref = B @ np.linalg.solve(A, b)
        tolf = 1e4 * cond * EPS * scale + 1e-12
        if float(np.max(np.abs(ref - fit))) > tolf:
            what = (f'returned spline differs from the independent dense P-spline solve by '
                    f'{float(np.max(np.abs(ref - fit))):.3e} (tolerance {tolf:.3e}, cond {cond:.2e})')
    if what:
        ctx.fail(f'pspline_smooth:{"sorted" if desc.get("order") == "sorted" else "unsorted-x"}',
                 f'utils.pspline_smooth (x {desc.get("order")}, degree {k}, num_knots {nk}, diff_order {d}, '
                 f'{"numba" if numba else "sparse"} path): {what}', desc)
        return 1
    return 0


def smooth_case(ctx, rng, numba):
    k = rng.randint(0, 5)
    nk = rng.choice([2, 3, 4, 5, 8, 12, 20])
    M = nk + k - 1
    if M < 2:
        return 0
    d = rng.randint(1, min(4, M - 1))
    n = rng.randint(8, 60)
    base = rng.choice(['uniform', 'random', 'clustered'])
    if base == 'uniform':
        x = np.linspace(rng.uniform(-5, 0), rng.uniform(1, 50), n)
    elif base == 'clustered':
        c = rng.uniform(2, 8)
        x = np.sort(np.array([0.0, 10.0] + [min(10.0, max(0.0, rng.gauss(c, 0.5))) for _ in range(n - 2)]))
    else:
        x = np.sort(np.array([rng.uniform(0, 10) for _ in range(n)]))
    if rng.random() < 0.3:     # repeated x values
        for _ in range(rng.randint(1, 4)):
            x[rng.randrange(1, n - 1)] = x[rng.randrange(n)]
        x = np.sort(x)
    t_ = (x - x.min()) / (x.max() - x.min())
    y = 1 + 2 * t_ + 5 * np.exp(-0.5 * ((t_ - rng.uniform(0.2, 0.8)) / 0.07) ** 2) + np.array([rng.gauss(0, 0.1) for _ in range(n)])
    w = None if rng.random() < 0.3 else np.array([rng.choice([0.0, 1.0, rng.random()]) for _ in range(n)])
    if w is not None and w.sum() == 0:
        w[0] = 1.0
    style, perm = ('sorted', np.arange(n)) if rng.random() < 0.1 else unsort(rng, n)
    x, y = x[perm], y[perm]
    if w is not None:
        w = w[perm]
    kw = dict(num_knots=nk, spline_degree=k, diff_order=d, lam=10.0 ** rng.uniform(-4, 6))
    desc = {'kind': 'smooth', 'numba': numba, 'order': style, 'x': x.tolist(), 'y': y.tolist(),
            'w': None if w is None else w.tolist(), 'kw': kw}
    return check_smooth(ctx, numba, x, y, w, kw, desc)


def search(ctx, budget):
    rng = ctx.rng
    has_numba = numba_available()
    reps = ctx.n(8, 20) * budget
    found = 0
    for r in range(ctx.n(120, 500) * budget):
        found += smooth_case(ctx, rng, has_numba and (r % 4 != 3))
    for r in range(ctx.n(40, 150) * budget):
        x, steps = gen_sequence(rng)
        if len(steps) >= 2:
            found += check_sequence(ctx, has_numba and (r % 2 == 0), rng.choice([2, 4]), x, steps)
    for method in ALL_METHODS + ['pspline_smooth']:
        for r in range(reps):
            numba = has_numba and (r % 2 == 0)
            found += oracle_case(ctx, rng, method, numba, budget > 1) or 0
    return found


def run(ctx):
    ctx.rule = ('cases: captured runs of every spline method (11 asls-type + iasls, drpls, aspls, mpspline, pspline_smooth) x '
                '{numba, sparse-fallback} path x {lower, full} bands x degree 0-5 x diff_order 1-4 x num_knots 2-20 x x-layout '
                '(dyadic dense/sparse/on-knots/clustered, real uniform/random/clustered, unsorted); distinct = distinct '
                '(method, path, degree, bases, diff_order, lam, layout, data); 2-D: the 10 Baseline2D spline methods with independent '
                'knots / degree / diff_order / lam per axis, sorted and unsorted x, z; non-trivial = more than 2 points and diff_order < bases; '
                'oracle cases are (run, pass) pairs, on fresh fitters and along sequences of 2-4 calls sharing one Baseline object '
                '((num_knots, degree) pairs with equal sum / equal number of basis functions, different methods in a row)')
    ctx.trusted += [
        'tools/gen_c07hosts.py: branch tests of every modelled host (ast) pinned against coq/C07/Hosts.v; code paths inside helpers '
        'that are not in its HOSTS table are not pinned',
        '2-D: scipy.sparse kron / identity / @ / + and spsolve (modelled by the index functions of C20/Model.v; contract of '
        'spsolve sampled by the oracle); the array algebra of _make_btwb / rhs / output is C20 (imported theorems)',
        'banded solvers (scipy solveh_banded / solve_banded): Section variable with contract den(lhs) * solve = rhs; '
        'sampled by the backward-error certificate of the oracle',
        'scipy.sparse products + _sparse_to_banded of the fallback path and of pspline_iasls: modelled by their contract '
        '(LAPACK bands of the product, exactly-zero outer diagonals dropped); compared exactly on dyadic inputs',
        'np.interp (weights / alpha at the basis midpoints): its output is data for the model',
        'the B-spline basis values themselves (C12): data for the model; the oracle recomputes them by Cox-de Boor',
        'float rounding between the ring theorems and the IEEE run: the PrimFloat instance of the SAME model is compared bit for bit',
    ]
    ctx.gate()
    bad = grep_gate(only=dep_closure('props/C07_2d.v'))
    ctx.obligations.append('grep-gate:2d-closure')
    if bad:
        ctx.broke('grep-gate-2d', '; '.join(bad[:10]))
    else:
        ctx.discharged.append('grep-gate:2d-closure')
    ctx.translate(['GenBands', 'GenC20', 'GenC07Hosts'])
    ok = ctx.build_props(extra=['C07/Float.vo'])
    ok = ctx.build_props(rel='props/C07_2d.v', extra=['C07/Float2D.vo']) and ok
    ok_hosts = ctx.build_props(rel='props/C07_hosts.v', extra=['C07/Hosts.vo'])
    if not ok_hosts:
        # name the hosts whose branch structure changed (new code path, e.g. gated on the data size)
        vals = ctx.coq_eval('hosts', 'From Coq Require Import String List.\nFrom PB Require Import gen.GenC07Hosts C07.Hosts.\n'
                            'Eval vm_compute in diff_hosts.\nEval vm_compute in size_gated.\nEval vm_compute in module_constants.\n')
        ctx.broke('translate:hosts-branch-structure',
                  f'a modelled host has a code path the C07 models do not describe; hosts that differ: {vals[0] if vals else "?"}; '
                  f'size-gated tests: {vals[1] if vals and len(vals) > 1 else "?"}')
    ok = ok and ok_hosts
    correspondence(ctx)
    c07_2d.correspondence_2d(ctx)
    budget = 1 if (ok and not ctx.broken) else 4
    if ctx.tier == 'thorough':
        budget = max(budget, 3)
    found = search(ctx, budget)
    import sys
    found += c07_2d.search_2d(ctx, budget, sys.modules[__name__])
    ctx.note(f'direct oracle budget x{budget}: {found} failing runs; 2-D: the Coq comparison is on exact (dyadic, degree <= 2, '
             'at most 16 coefficients) inputs only, larger / real 2-D inputs through the dense Kronecker oracle; '
             'sparse-fallback assembly for degree >= 3 is covered by the oracle only (summation order of scipy.sparse is unspecified); '
             'lam <= 0 and non-finite inputs are outside the model')


def replay(rep):
    case = rep.get('case') or {}

    class _C:  # minimal ctx
        def __init__(self):
            self.fails, self.hist, self.traces = [], {}, 0

        def case(self, *a, **k):
            pass

        def fail(self, key, what, case):
            self.fails.append((key, what))

        def broke(self, *a):
            self.fails.append(a)
    c = _C()
    if case.get('kind') in ('oracle2d', 'capture2d', 'large2d'):
        import sys
        return c07_2d.replay_2d(case, sys.modules[__name__])
    if case.get('kind') == 'smooth':
        check_smooth(c, case['numba'], np.array(case['x']), np.array(case['y']),
                     None if case['w'] is None else np.array(case['w']), case['kw'], case)
        print('replay pspline_smooth:', c.fails or 'property holds on this input')
        return 1 if c.fails else 0
    if case.get('kind') == 'direct':
        import pybaselines._spline_utils as su
        with Capture(numba=case['numba']) as cap:
            basis = su.SplineBasis(np.array(case['x']), case['num_knots'], case['spline_degree'])
            su.PSpline(basis, case['lam'], case['diff_order']).solve_pspline(np.array(case['y']), np.array(case['w']))
        err = exact_doc_check(c, 'direct', cap, np.asarray(basis.basis.toarray(), dtype=float),
                              {'diff_order': case['diff_order'], 'lam': case['lam']}, case)
        print('replay direct:', err or 'property holds on this input (exact check; the bit-exact model comparison needs a full run)')
        return 1 if err else 0
    if case.get('kind') == 'sequence':
        check_sequence(c, case['numba'], case['banded_solver'], np.array(case['x']), case['steps'])
        print('replay sequence:', c.fails or 'property holds on this input')
        return 1 if c.fails else 0
    if case.get('kind') == 'oracle':
        check_run(c, case['method'], case['numba'], case['banded_solver'], np.array(case['x']), np.array(case['y']),
                  case['kw'], case)
        print('replay oracle:', c.fails or 'property holds on this input')
        return 1 if c.fails else 0
    if case.get('kind') == 'capture':
        kw = dict(case['kw'])
        if 'weights' in kw:
            kw['weights'] = np.array(kw['weights'])
        inp = {'x': case['x'], 'y': case['y']}
        perm = None if case.get('perm') is None else np.array(case['perm'])
        cap, fitter, out = one_capture(case['method'], inp, kw, case['numba'], case['banded_solver'], perm)
        rec0 = cap.calls[0]
        B = np.asarray(rec0['pspline'].basis.basis.toarray(), dtype=float)
        params = {'diff_order': kw['diff_order'], 'lam': float(kw.get('lam_smooth', kw['lam'])) if case['method'] == 'mpspline' else float(kw['lam'])}
        kind = KIND.get(case['method'], 'asls')
        if kind == 'iasls':
            params['lam_1'] = kw['lam_1']
            params['w_unsquared'] = [np.sqrt(r['w']) for r in cap.calls]
        if kind == 'drpls':
            params['eta'] = kw['eta']
        if kind == 'mpspline':
            params['ratio'] = float(kw['lam']) / float(kw['lam_smooth'])
        err = exact_doc_check(c, case['method'], cap, B, params, case)
        print('replay capture:', err or 'property holds on this input')
        return 1 if err else 0
    print('replay: nothing concrete to replay; broken obligations were:', rep.get('broken_obligations'))
    return 1
