"""C04 -- the shared HEAP of a fitter: (a) immutability of every array reachable from the shared object
(its own arrays and those of the cached helper objects stored on it: _PolyHelper, SplineBasis, ...), which
is what the Coq models' value abstraction assumes (a cell holds a VALUE; values are never changed in
place), and (b) pre-emption at SOURCE-LINE granularity: thread A is paused at its k-th executed line
inside the pybaselines package, thread B runs its whole call on the same object, A resumes.

(a) is checked two ways: a static scan (Python ast) of every attribute stored on a cached helper class
against a reviewed list, and a dynamic content digest of the reachable arrays taken at every executed
line of a solo call (an array whose identity is unchanged but whose bytes changed was mutated in place).
When (a) fails, the line numbers at which bytes changed direct the search of (b)."""
import ast
import hashlib
import os
import sys
import threading
import warnings

import numpy as np

PAUSE_TIMEOUT = 300.0

# attributes stored on the helper objects that a fitter caches (reviewed: each is either written only in
# the constructor and never mutated afterwards, or is a modelled cell of coq/C04/Model*.v)
REVIEWED_HELPER_ATTRS = {
    '_PolyHelper': {'poly_order': 'cell', 'vandermonde': 'cell', '_pseudo_inverse': 'cell', 'pinv_stale': 'cell'},
    '_PolyHelper2D': {'poly_order': 'cell', 'vandermonde': 'cell', '_pseudo_inverse': 'cell', 'pinv_stale': 'cell',
                      'max_cross': 'cell'},
    'SplineBasis': {'x': 'const', '_x_len': 'const', 'knots': 'const', 'spline_degree': 'const', 'num_knots': 'const',
                    'basis': 'const', '_num_bases': 'const'},
    'SplineBasis2D': {'_basis': 'cell', 'x': 'const', 'z': 'const', 'num_knots': 'const', 'spline_degree': 'const',
                      'knots_r': 'const', 'basis_r': 'const', 'knots_c': 'const', 'basis_c': 'const',
                      '_num_bases': 'const', '_G_r': 'const', '_G_c': 'const'},
}


def helper_attr_scan(repo):
    """{class: set(attrs stored through `self.<attr> = ...` anywhere in the class)} for the cached helper
    classes, plus the classes whose instances the fitters store on themselves (found from the source)."""
    found = {}
    for rel in ('_algorithm_setup.py', 'two_d/_algorithm_setup.py', '_spline_utils.py', 'two_d/_spline_utils.py'):
        path = os.path.join(repo, 'pybaselines', rel)
        tree = ast.parse(open(path).read())
        for node in ast.walk(tree):
            if isinstance(node, ast.ClassDef) and node.name in REVIEWED_HELPER_ATTRS:
                attrs = set()
                for n in ast.walk(node):
                    targets = []
                    if isinstance(n, ast.Assign):
                        targets = n.targets
                    elif isinstance(n, (ast.AugAssign, ast.AnnAssign)):
                        targets = [n.target]
                    for t in targets:
                        for el in (t.elts if isinstance(t, ast.Tuple) else [t]):
                            if isinstance(el, ast.Attribute) and isinstance(el.value, ast.Name) and el.value.id == 'self':
                                attrs.add(el.attr)
                found[node.name] = attrs
    return found


def cached_classes_scan(repo):
    """Names of the callables in assignments `self.<attr> = Name(...)` inside the methods (not __init__) of the
    fitter base classes: the helper objects a fitter caches on itself during calls."""
    out = set()
    for rel in ('_algorithm_setup.py', 'two_d/_algorithm_setup.py'):
        tree = ast.parse(open(os.path.join(repo, 'pybaselines', rel)).read())
        for fn in ast.walk(tree):
            if not isinstance(fn, ast.FunctionDef) or fn.name == '__init__':
                continue
            for n in ast.walk(fn):
                if isinstance(n, ast.Assign) and isinstance(n.value, ast.Call) and isinstance(n.value.func, ast.Name):
                    for t in n.targets:
                        if isinstance(t, ast.Attribute) and isinstance(t.value, ast.Name) and t.value.id == 'self':
                            out.add(n.value.func.id)
    return out


# ------------------------------------------------------------------------------------------------
# dynamic: digests of every array reachable from the shared fitter

def _arrays_of(obj, depth, seen, out, path):
    if id(obj) in seen or depth < 0:
        return
    seen.add(id(obj))
    if isinstance(obj, np.ndarray):
        out.append((path, obj))
        return
    if hasattr(obj, 'data') and hasattr(obj, 'indptr') and hasattr(obj, 'indices'):      # scipy sparse
        for nm in ('data', 'indices', 'indptr'):
            a = getattr(obj, nm, None)
            if isinstance(a, np.ndarray):
                out.append((f'{path}.{nm}', a))
        return
    if isinstance(obj, (tuple, list)):
        for i, v in enumerate(obj[:8]):
            _arrays_of(v, depth - 1, seen, out, f'{path}[{i}]')
        return
    d = getattr(obj, '__dict__', None)
    mod = getattr(type(obj), '__module__', '') or ''
    if isinstance(d, dict) and mod.startswith('pybaselines'):
        for k, v in list(d.items()):
            _arrays_of(v, depth - 1, seen, out, f'{path}.{k}')


def heap_digest(fitter):
    """{path: (id of the array, digest of its bytes)} for every array reachable from the shared fitter."""
    out = []
    _arrays_of(fitter, 4, set(), out, 'self')
    res = {}
    for path, a in out:
        try:
            b = np.ascontiguousarray(a).tobytes()
        except Exception:       # noqa
            continue
        res[path] = (id(a), hashlib.blake2b(b, digest_size=8).digest())
    return res


def helper_objects(fitter, depth=3):
    """Instances of pybaselines classes reachable from the attributes of the shared fitter (whatever a fitter
    stores on itself: poly helpers, spline bases, penalized / Whittaker systems, ...), with their paths."""
    out, seen = {}, {id(fitter)}

    def walk(obj, path, d):
        for k, v in list(getattr(obj, '__dict__', {}).items()):
            mod = getattr(type(v), '__module__', '') or ''
            if mod.startswith('pybaselines') and id(v) not in seen and not isinstance(v, np.ndarray):
                seen.add(id(v))
                out[id(v)] = (f'{path}.{k}', v)
                if d > 0:
                    walk(v, f'{path}.{k}', d - 1)
    walk(fitter, 'self', depth)
    return out


CELL_ATTRS = {a for c in REVIEWED_HELPER_ATTRS.values() for a, kind in c.items() if kind == 'cell'}


def helper_bindings(fitter):
    """{(helper path, attribute): id(value)} for every attribute of every helper object reachable from the fitter."""
    res = {}
    for _, (path, obj) in helper_objects(fitter).items():
        for k, v in list(getattr(obj, '__dict__', {}).items()):
            res[(path, id(obj), k)] = id(v)
    return res


def rebound(before, after):
    """attributes of an ALREADY shared helper object that were re-bound (stores on shared helpers), except the
    modelled cells of the cached poly / spline helpers."""
    return sorted(f'{p}.{k}' for (p, i, k), v in after.items()
                  if (p, i, k) in before and before[(p, i, k)] != v and k not in CELL_ATTRS)


def mutated_in_place(before, after):
    """paths whose array object is the same but whose bytes differ."""
    return sorted(p for p, (i, h) in after.items() if p in before and before[p][0] == i and before[p][1] != h)


def pkg_dir():
    import pybaselines
    return os.path.dirname(os.path.abspath(pybaselines.__file__)) + os.sep


class LineRun:
    """Runs job A in a thread under sys.settrace, counting the 'line' events of frames inside the package.
    monitor=fitter: take a heap digest at every line and record the line indices at which some array
    reachable from the fitter changed in place.  pause_at=k with job_b: at A's k-th line run B's whole
    call in another thread (A blocked in join), then resume A."""

    def __init__(self, job_a, job_b=None, pause_at=None, monitor=None):
        self.job_a, self.job_b, self.pause_at, self.monitor = job_a, job_b, pause_at, monitor
        self.count = 0
        self.res_a = self.res_b = None
        self.mut = []           # (line index, file:line, paths)
        self.helper_lines = []  # line indices executed inside a method of a cached-helper class (self is a helper)
        self.rebinds = []       # (line index, file:line, attribute paths re-bound on an already shared helper object)
        self._lastb = None
        self.timed_out = False
        self._last = None
        self._pkg = pkg_dir()

    def _call(self, job):
        try:
            with warnings.catch_warnings():
                warnings.simplefilter('ignore')
                return ('ok', job())
        except Exception as e:      # noqa
            return ('exc', (type(e).__name__, str(e)[:200]))

    def _local(self, frame, event, arg):
        if event == 'line':
            self.count += 1
            if self.monitor is not None:
                slf = frame.f_locals.get('self')
                if slf is not None and slf is not self.monitor and (
                        type(slf).__name__ in REVIEWED_HELPER_ATTRS or id(slf) in helper_objects(self.monitor)):
                    self.helper_lines.append(self.count)
                curb = helper_bindings(self.monitor)
                if self._lastb is not None:
                    rb = rebound(self._lastb, curb)
                    if rb:
                        self.rebinds.append((self.count, f'{os.path.basename(frame.f_code.co_filename)}:{frame.f_lineno}', rb))
                self._lastb = curb
                cur = heap_digest(self.monitor)
                if self._last is not None:
                    m = mutated_in_place(self._last, cur)
                    if m:
                        self.mut.append((self.count, f'{os.path.basename(frame.f_code.co_filename)}:{frame.f_lineno}', m))
                self._last = cur
            if self.pause_at is not None and self.count == self.pause_at and self.job_b is not None:
                box = {}

                def run_b():
                    box['r'] = self._call(self.job_b)
                sys.settrace(None)
                tb = threading.Thread(target=run_b, daemon=True)
                tb.start()
                tb.join(PAUSE_TIMEOUT)
                if tb.is_alive():
                    self.timed_out = True
                self.res_b = box.get('r')
                sys.settrace(self._global)
        return self._local

    def _global(self, frame, event, arg):
        if event == 'call' and frame.f_code.co_filename.startswith(self._pkg):
            return self._local
        return None

    def run(self):
        def body():
            if self.monitor is not None:
                self._last = heap_digest(self.monitor)
                self._lastb = helper_bindings(self.monitor)
            sys.settrace(self._global)
            try:
                self.res_a = self._call(self.job_a)
            finally:
                sys.settrace(None)
            if self.monitor is not None:
                m = mutated_in_place(self._last, heap_digest(self.monitor))
                if m:
                    self.mut.append((self.count + 1, 'end of call', m))
        t = threading.Thread(target=body, daemon=True)
        t.start()
        t.join(PAUSE_TIMEOUT * 2)
        if t.is_alive():
            self.timed_out = True
        if self.job_b is not None and self.res_b is None and not self.timed_out:
            self.res_b = self._call(self.job_b)       # A finished before line k: B runs afterwards (serial order)
        return self
