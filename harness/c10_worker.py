"""Worker process of the C10 check.  Started as

    python -m harness.c10_worker <block_numba 0|1> <block_pentapy 0|1>

BEFORE pybaselines (or numba / pentapy) is imported it installs a sys.meta_path finder that raises
ImportError for the blocked packages, so the `except ImportError` branches of pybaselines/_compat.py
are really taken (no module flag is patched).  Reads one JSON job from stdin, prints one JSON line
prefixed with C10RESULT to stdout."""
import importlib.abc
import json
import sys
import warnings


class Blocker(importlib.abc.MetaPathFinder):
    def __init__(self, names):
        self.names = set(names)

    def find_spec(self, fullname, path=None, target=None):
        if fullname.split('.')[0] in self.names:
            raise ImportError(f'{fullname} is blocked by the C10 worker')
        return None


def install_blockers(block_numba, block_pentapy):
    names = ([] if not block_numba else ['numba', 'llvmlite']) + ([] if not block_pentapy else ['pentapy'])
    for n in list(sys.modules):
        if n.split('.')[0] in names:
            raise RuntimeError(f'{n} was imported before the blocker was installed')
    if names:
        sys.meta_path.insert(0, Blocker(names))
    return names


# ---------------------------------------------------------------------------- capture
class Capture:
    """Wraps the three library entry points as bound in pybaselines._banded_utils and
    PenalizedSystem.solve (for the flags)."""

    def __init__(self):
        self.calls = []
        self.flags = []

    def __enter__(self):
        import numpy as np
        import pybaselines._banded_utils as bu
        self.bu = bu
        self.saved = {k: getattr(bu, k) for k in ('solveh_banded', 'solve_banded', '_pentapy_solve')}
        self.saved_solve = bu.PenalizedSystem.solve
        cap = self
        o_h, o_b, o_p = self.saved['solveh_banded'], self.saved['solve_banded'], self.saved['_pentapy_solve']

        def arr(a):
            return np.array(a, dtype=float, copy=True).tolist()

        def solveh(ab, b, *a, **kw):
            cap.calls.append({'solver': 'solveh', 'ab': arr(ab), 'b': arr(b), 'npos': len(a),
                              'kw': {'lower': kw.get('lower', False)}})
            return o_h(ab, b, *a, **kw)

        def solveb(l_and_u, ab, b, *a, **kw):
            cap.calls.append({'solver': 'solve_banded', 'ab': arr(ab), 'b': arr(b), 'npos': len(a),
                              'kw': {'l_and_u': [int(l_and_u[0]), int(l_and_u[1])]}})
            return o_b(l_and_u, ab, b, *a, **kw)

        def penta(ab, b, *a, **kw):
            cap.calls.append({'solver': 'penta', 'ab': arr(ab), 'b': arr(b), 'npos': len(a),
                              'kw': {'is_flat': kw.get('is_flat', False),
                                     'index_row_wise': kw.get('index_row_wise', True),
                                     'solver': kw.get('solver', 1)}})
            return o_p(ab, b, *a, **kw)

        def solve(self_, lhs, rhs, *a, **kw):
            lu = kw.get('l_and_u')
            cap.flags.append([bool(self_.lower), bool(self_.reversed), bool(self_.using_pentapy),
                              None if lu is None else [int(lu[0]), int(lu[1])]])
            return cap.saved_solve(self_, lhs, rhs, *a, **kw)

        bu.solveh_banded, bu.solve_banded, bu._pentapy_solve = solveh, solveb, penta
        bu.PenalizedSystem.solve = solve
        return self

    def __exit__(self, *exc):
        for k, v in self.saved.items():
            setattr(self.bu, k, v)
        self.bu.PenalizedSystem.solve = self.saved_solve
        return False


def run_capture(case):
    import numpy as np
    from pybaselines import Baseline
    out = {}
    y = np.array(case['y'], dtype=float)
    for bs in case['bs_list']:
        kw = dict(case['kw'])
        for k in ('weights', 'alpha'):
            if k in case.get('arrays', {}):
                kw[k] = np.array(case['arrays'][k], dtype=float)
        xs = np.array(case['x'], dtype=float) if 'x' in case else np.arange(len(y), dtype=float)
        f = Baseline(x_data=xs, check_finite=False, assume_sorted=True)
        f.banded_solver = bs
        exc = None
        with Capture() as cap, warnings.catch_warnings(), np.errstate(all='ignore'):
            warnings.simplefilter('ignore')
            try:
                getattr(f, case['method'])(y.copy(), **kw)
            except Exception as e:   # noqa: a singular system raises after the call was captured
                exc = f'{type(e).__name__}: {e}'
        out[str(bs)] = {'calls': cap.calls[:case.get('ncalls', 1)], 'flags': cap.flags[:case.get('ncalls', 1)],
                        'exc': exc, 'pentapy_solver': getattr(f, '_pentapy_solver', None)}
        if case.get('want_basis') and getattr(f, '_spline_basis', None) is not None:
            out[str(bs)]['basis'] = np.asarray(f._spline_basis.basis.toarray(), dtype=float).tolist()
    return out



# ---------------------------------------------------------------------------- banded products of beads
def run_bdb(case):
    """_banded_dot_banded / _numba_banded_dot_banded on integer band arrays: the wrapper's output, the raw
    kernel output on a zeroed array, and (when numba is importable) the same from the kernel's py_func."""
    import numpy as np
    from pybaselines import misc
    a = np.array(case['a'], dtype=float)
    b = np.array(case['b'], dtype=float)
    n, al, au, bl, bu, sym = case['n'], case['al'], case['au'], case['bl'], case['bu'], case['sym']
    res = {}
    try:
        res['wrapper'] = misc._banded_dot_banded(a, b, (al, au), (bl, bu), (n, n), (n, n), bool(sym)).tolist()
    except Exception as e:   # noqa
        res['wrapper_exc'] = type(e).__name__
    cu, cl = min(au + bu, n - 1), min(al + bl, n - 1)
    lb = 0 if sym else al + bl
    kern = misc._numba_banded_dot_banded
    for name, fn in (('kernel', kern), ('py_func', getattr(kern, 'py_func', None))):
        if fn is None:
            continue
        c = np.zeros((cl + cu + 1, n))
        try:
            fn(a, b, c, al, au, bl, bu, cu, n, lb)
            res[name] = c.tolist()
        except Exception as e:   # noqa
            res[name + '_exc'] = type(e).__name__
    return res



# ---------------------------------------------------------------------------- public entry points that keep the caller's x order
def zero_positions(n, seed, kind):
    import numpy as np
    rng = np.random.default_rng(seed + 77)
    if kind == 'some':
        return np.sort(rng.choice(np.arange(3, n - 3), size=3, replace=False))
    if kind == 'many':
        return np.sort(rng.choice(np.arange(1, n - 1), size=n // 2, replace=False))
    if kind == 'ends':
        return np.array([0, 1, n - 2, n - 1])
    if kind == 'last':
        return np.array([n - 1])
    raise KeyError(kind)


def entry_xy(n, seed, order, layout='c', zero_w=None, nf=None):
    """x in the requested ORDER (the entry points below do not sort), y = the same function of x plus noise."""
    import numpy as np
    rng = np.random.default_rng(seed)
    x = np.linspace(-3.0, 17.0, n)
    if order == 'repeated':               # ties: every third value repeated once
        x = np.sort(np.concatenate([x[: n - n // 3], x[: n // 3 * 3: 3][: n // 3]]))[:n]
    t = (x - x.min()) / (x.max() - x.min())
    y = 5 + 10 * t + 3 * np.sin(3 * t) + 30 * np.exp(-0.5 * ((t - 0.3) / 0.03) ** 2) + 20 * np.exp(-0.5 * ((t - 0.7) / 0.02) ** 2)
    y = y + rng.normal(0, 0.5, n)
    w = rng.choice([0.0, 0.5, 1.0, 1.0, 2.0], size=n)
    if order == 'closed':
        # a closed loop: up and back down, first x == last x, many distinct values (appended cell, round 8)
        up = np.arange(0, n, 2)
        idx = np.concatenate([up, np.arange(n - 1 if n % 2 == 0 else n - 2, 0, -2), [0]])[:n]
        idx[-1] = idx[0]
    elif order == 'reversed':
        idx = np.arange(n)[::-1]
    elif order == 'shuffled':
        idx = rng.permutation(n)
    elif order == 'appended':             # the second half of a scan stored before the first half
        idx = np.concatenate([np.arange(n // 2, n), np.arange(0, n // 2)])
    else:
        idx = np.arange(n)
    if zero_w:
        # exactly-zero weights at chosen samples (positions in increasing-x order), optionally with non-finite data THERE
        z = zero_positions(n, seed, zero_w)
        w = np.where(w == 0, 1.0, w)
        w[z] = 0.0
        if nf:
            y[z] = {'nan': np.nan, '+inf': np.inf, '-inf': -np.inf}[nf]
    x, y, w = x[idx].copy(), y[idx].copy(), w[idx].copy()
    if layout == 'strided':               # non-contiguous views of larger buffers
        def strided(a):
            buf = np.full(2 * len(a), -7.25)
            buf[::2] = a
            return buf[::2]
        x, y, w = strided(x), strided(y), strided(w)
    elif layout == 'negstride':           # negative strides
        x, y, w = x[::-1].copy()[::-1], y[::-1].copy()[::-1], w[::-1].copy()[::-1]
    return x, y, w, idx


def run_entry(job, y_override=None):
    """One call of a public utility / helper class; returns (main array, dict of further numeric outputs)."""
    import numpy as np
    from pybaselines import utils, _spline_utils as su, _banded_utils as bu
    kw = dict(job.get('kw', {}))
    x, y, w, idx = entry_xy(job['n'], job['seed'], job.get('order', 'sorted'), job.get('layout', 'c'), job.get('zero_w'), job.get('nf'))
    if y_override is not None:
        y = y_override(y)
    name = job['entry']
    use_w = kw.pop('use_weights', False)
    if name == 'pspline_smooth':
        out, tck = utils.pspline_smooth(y, x_data=x, weights=w if use_w else None, **kw)
        return out, {'knots': tck[0], 'coef': tck[1], 'degree': tck[2]}
    if name == 'whittaker_smooth':
        return utils.whittaker_smooth(y, weights=w if use_w else None, **kw), {}
    if name == 'spline_basis':
        b = su.SplineBasis(x, kw.get('num_knots', 8), kw.get('spline_degree', 3))
        return b.basis.toarray().ravel(), {'knots': b.knots, 'num_bases': b._num_bases}
    if name == 'pspline_direct':
        b = su.SplineBasis(x, kw.get('num_knots', 8), kw.get('spline_degree', 3))
        ps = su.PSpline(b, kw.get('lam', 10.0), kw.get('diff_order', 2), kw.get('allow_lower', True), False)
        out = ps.solve_pspline(y, w if use_w else np.ones(len(y)))
        return out, {'coef': ps.coef, 'penalty': ps.penalty}
    if name == 'penalized_direct':
        ps = bu.PenalizedSystem(len(y), kw.get('lam', 100.0), kw.get('diff_order', 2), kw.get('allow_lower', True), None,
                                kw.get('allow_pentapy', True), pentapy_solver=kw.get('pentapy_solver', 2))
        ww = w if use_w else np.ones(len(y))
        return ps.solve(ps.add_diagonal(ww), ww * y), {}
    if name == 'optimize_window':
        return np.array([float(utils.optimize_window(y, **kw))]), {}
    if name == 'pad_edges':
        return utils.pad_edges(y, **kw), {}
    if name == 'padded_convolve':
        return utils.padded_convolve(y, utils.gaussian_kernel(kw.get('window', 7), kw.get('sigma', 1.5))), {}
    if name == 'difference_matrix':
        return utils.difference_matrix(job['n'], kw.get('diff_order', 2)).toarray().ravel(), {}
    raise KeyError(name)


# ---------------------------------------------------------------------------- compiled kernel <-> alternative (fallback) code path
def nan_aware_diff(a, b):
    """largest absolute difference where both are finite; inf when the non-finite PATTERNS (NaN / +inf / -inf positions)
    differ -- IEEE: 0 * NaN = NaN, so a kernel and its fallback must propagate non-finite data identically"""
    import numpy as np
    a, b = np.asarray(a, dtype=float), np.asarray(b, dtype=float)
    if a.shape != b.shape:
        return float('inf')
    fa, fb = np.isfinite(a), np.isfinite(b)
    if not np.array_equal(fa, fb) or not np.array_equal(np.isnan(a), np.isnan(b)) \
            or not np.array_equal(np.sign(a[~fa & ~np.isnan(a)]), np.sign(b[~fb & ~np.isnan(b)])):
        return float('inf')
    return float(np.max(np.abs(a[fa] - b[fa]))) if fa.any() else 0.0


def run_pairs(case):
    """Each optionally compiled kernel that has a DIFFERENT fallback implementation, run together with that fallback
    in this process on the same (possibly non-monotone) inputs: largest absolute differences."""
    import numpy as np
    from scipy.interpolate import BSpline
    from scipy import sparse
    from pybaselines import _spline_utils as su
    x, y, w, idx = entry_xy(case['n'], case['seed'], case['order'], case.get('layout', 'c'), case.get('zero_w'), case.get('nf'))
    k, nk = case['degree'], case['num_knots']
    res = {}
    basis = su.SplineBasis(x, nk, k)
    knots, nb = basis.knots, basis._num_bases
    # (1) design matrix: the kernel route (_make_design_matrix), SciPy's BSpline.design_matrix, the slow pure-Python route
    mats = {'make_design_matrix': su._make_design_matrix(np.asarray(x, dtype=float), knots, k).toarray()}
    if hasattr(BSpline, 'design_matrix'):
        mats['scipy_design_matrix'] = BSpline.design_matrix(np.asarray(x, dtype=float), knots, k).toarray()
    mats['slow_design_matrix'] = su._slow_design_matrix(np.asarray(x, dtype=float), knots, k).toarray()
    mats['SplineBasis.basis'] = basis.basis.toarray()
    ref = mats['slow_design_matrix']
    for name, m in mats.items():
        res['design:' + name] = float(np.max(np.abs(m - ref))) if m.shape == ref.shape else float('inf')
    # (2) B'WB and B'Wy: _numba_btb_bty (as bound, and its py_func when compiled) vs the sparse product of solve_pspline
    B = basis.basis.tocsr()
    full = (B.T @ sparse.diags(w) @ B).toarray()
    rhs_ref = B.T @ (w * y)
    lower_ref = np.zeros((k + 1, nb))
    for r in range(k + 1):
        lower_ref[r, :nb - r] = np.diagonal(full, -r)
    kern = su._numba_btb_bty
    if len(B.data) == len(x) * (k + 1):
        for name, fn in (('numba_btb_bty', kern), ('numba_btb_bty.py_func', getattr(kern, 'py_func', None))):
            if fn is None:
                continue
            ab = np.zeros((k + 1, nb), order='F')
            rhs = np.zeros(nb)
            fn(basis.x, knots, k, np.asarray(y, dtype=float), np.asarray(w, dtype=float), ab, rhs, B.data)
            res['btb:' + name] = nan_aware_diff(ab, lower_ref)
            res['bty:' + name] = nan_aware_diff(rhs, rhs_ref)
    with np.errstate(all='ignore'):
        res['scale'] = float(max(np.nanmax(np.abs(np.where(np.isfinite(full), full, 0.0))), np.nanmax(np.abs(np.where(np.isfinite(rhs_ref), rhs_ref, 0.0))), 1.0))
    # (3) PSpline.solve_pspline: the arm taken in this process vs the other arm forced on the same object
    outs = {}
    for arm in (True, False):
        ps = su.PSpline(basis, 10.0, 2, case.get('allow_lower', True), False)
        if arm and not ps._use_numba and not su._HAS_NUMBA:
            pass
        ps._use_numba = arm
        try:
            ww = np.asarray(w, dtype=float) + (0.0 if case.get('zero_w') else 0.1)
            with np.errstate(all='ignore'):
                outs[arm] = np.array(ps.solve_pspline(np.asarray(y, dtype=float), ww), dtype=float)
        except Exception as e:   # noqa
            outs[arm] = type(e).__name__
    if isinstance(outs[True], str) or isinstance(outs[False], str):
        res['solve_pspline:arms'] = 0.0 if str(outs[True]) == str(outs[False]) else float('inf')     # outcome kinds
    else:
        d = nan_aware_diff(outs[True], outs[False])
        fin = np.isfinite(outs[False])
        res['solve_pspline:arms'] = d / max(float(np.max(np.abs(outs[False][fin]))) if fin.any() else 1.0, 1e-300)
    return res


# ---------------------------------------------------------------------------- oracle
def make_data(n, seed, kind='noise'):
    import numpy as np
    rng = np.random.default_rng(seed)
    x = np.linspace(float(rng.choice([-5.0, 0.0, 10.0])), float(rng.choice([20.0, 100.0, 4000.0])), n)
    t = np.linspace(0, 1, n)
    base = 5 + 10 * t + 3 * np.sin(3 * t)
    peaks = sum(a * np.exp(-0.5 * ((t - c) / w) ** 2)
                for a, c, w in [(30, 0.25, 0.02), (50, 0.6, 0.03), (20, 0.8, 0.015)])
    y = base + peaks + rng.normal(0, 0.5, n)
    if kind == 'offset':
        y = y + 1e3
    elif kind == 'small':
        y = y * 1e-3
    elif kind.startswith('off'):          # large positive offsets relative to the noise (sigma 0.5): off1e6, off1e8, off1e10
        y = y + float(kind[3:])
    elif kind.startswith('neg'):          # large negative offset
        y = y - float(kind[3:])
    elif kind.startswith('scale'):        # overall magnitude: scale1e-300 ... scale1e160 (finite, possibly near the float range limits)
        y = y * float(kind[5:])
    elif kind == 'tiny':
        y = y * 1e-8
    elif kind == 'huge':
        y = y * 1e8
    elif kind == 'integer':
        y = np.round(y * 10)
    elif kind == 'intoff':                # integer-valued counts on a large pedestal
        y = np.round(y * 10) + 4e7
    return x, y


PARAM_KEYS = ('weights', 'signal', 'alpha', 'coef', 'mask')


def flatten_params(value, prefix, res, depth=0):
    """Every numeric entry of the params dictionary (nested dicts / lists of arrays included) as a flat list
    under a path key; non-numeric entries are skipped."""
    import numpy as np
    if isinstance(value, dict):
        for k in sorted(value, key=str):
            flatten_params(value[k], f'{prefix}{k}.' if depth else f'{prefix}{k}.', res, depth + 1)
        return
    key = prefix.rstrip('.')
    if value is None or isinstance(value, str):
        return
    try:
        arr = np.asarray(value, dtype=float)
    except (TypeError, ValueError):
        if isinstance(value, (list, tuple)) and depth < 4:
            for i, v in enumerate(value):
                flatten_params(v, f'{key}[{i}].', res, depth + 1)
        return
    if arr.dtype == object:
        return
    res[key] = arr.ravel().tolist()
    res[key + '#shape'] = [float(v) for v in arr.shape]


def call_functional(name, x, y, kw):
    """the module-level (functional) interface: pybaselines.<module>.<name>(data, x_data=x, **kw)"""
    import importlib
    import numpy as np
    from harness import methods
    for mod in ('whittaker', 'morphological', 'polynomial', 'spline', 'classification', 'optimizers', 'misc', 'smooth'):
        m = importlib.import_module('pybaselines.' + mod)
        if hasattr(m, name):
            kws = methods.call_kwargs(name, **kw)
            data = np.vstack([y, y * 1.1 + 1]) if name == 'collab_pls' else y
            return getattr(m, name)(data, x_data=x, **kws)
    raise AttributeError(name)


def run_oracle(job):
    import numpy as np
    from pybaselines import Baseline
    from harness import methods
    x, y0 = make_data(job['n'], job['seed'], job.get('ykind', 'noise'))
    if job.get('y') is not None:
        y0 = np.array(job['y'], dtype=float)
        x = np.arange(len(y0), dtype=float)
    out = {}
    if job.get('zero_w') and not job.get('entry'):
        z = zero_positions(len(y0), job['seed'], job['zero_w'])
        wz = np.ones(len(y0))
        wz[z] = 0.0
        y0 = y0.copy()
        if job.get('nf'):
            y0[z] = {'nan': np.nan, '+inf': np.inf, '-inf': -np.inf}[job['nf']]
        job = dict(job, kw=dict(job.get('kw', {}), weights=wz))
    runs = [(str(bs), bs, y0) for bs in job['bs_list']]
    if job.get('perturb') is not None:
        # the same problem with every data value moved by about one unit in the last place (three random
        # sign patterns): measures how strongly the method amplifies rounding-sized changes
        for t in range(3):
            sign = np.random.default_rng(job['seed'] + 1 + t).choice([-1.0, 1.0], size=len(y0))
            runs.append((f'pert{t}', job['perturb'], y0 * (1.0 + sign * 2.0 ** -50)))
    for key, bs, y in runs:
        f = Baseline(x_data=x, check_finite=False, assume_sorted=True)
        f.banded_solver = bs
        res = {}
        with warnings.catch_warnings(), np.errstate(all='ignore'):
            warnings.simplefilter('ignore')
            try:
                if job.get('entry'):
                    ov = None
                    if key.startswith('pert'):
                        def ov(v, _t=int(key[4:])):
                            sg = np.random.default_rng(job['seed'] + 1 + _t).choice([-1.0, 1.0], size=len(v))
                            return v * (1.0 + sg * 2.0 ** -50)
                    base, params = run_entry(job, ov)
                elif job.get('functional'):
                    base, params = call_functional(job['method'], x, y, job.get('kw', {}))
                else:
                    base, params = methods.run_1d(job['method'], x, y, fitter=f, **job.get('kw', {}))
                res['baseline'] = np.asarray(base, dtype=float).ravel().tolist()
                flatten_params(params, 'p:', res)       # EVERY entry of params, nested ones included
                th = params.get('tol_history')
                if th is not None:
                    res['n_tol'] = int(np.asarray(th).shape[0])
            except Exception as e:   # noqa
                res['exc'] = type(e).__name__
                res['exc_msg'] = str(e)[:120]
        out[key] = res
    return out


# ---------------------------------------------------------------------------- shim / environment facts
def shim_facts():
    import pybaselines._compat as co
    import pybaselines
    facts = {'HAS_NUMBA': bool(co._HAS_NUMBA), 'HAS_PENTAPY': bool(co._HAS_PENTAPY),
             'numba_loaded': 'numba' in sys.modules, 'pentapy_loaded': 'pentapy' in sys.modules}
    # every name bound through @jit in the package: what kind of object is it, does it expose the source function
    import importlib
    import inspect
    kernels = {}
    for mod in ('_spline_utils', 'classification', 'misc', 'polynomial', 'smooth', 'spline', 'utils', '_banded_utils'):
        m = importlib.import_module('pybaselines.' + mod)
        for name, obj in vars(m).items():
            if getattr(obj, '__module__', None) != m.__name__:
                continue
            if hasattr(obj, 'py_func'):
                kernels[f'{mod}.{name}'] = 'dispatcher'
            elif inspect.isfunction(obj) and hasattr(obj, '__wrapped__'):
                kernels[f'{mod}.{name}'] = 'wrapper'
    facts['kernels'] = kernels
    if not co._HAS_NUMBA:
        def f(a, b=3):
            return (a, b, 'f')
        jit = co.jit
        tests = {}

        def probe(make):
            try:
                g = make()
                return [g(1) == f(1), g(2, b=5) == f(2, b=5), getattr(g, '__wrapped__', None) is f]
            except Exception:   # noqa
                return [False]
        tests['bare'] = probe(lambda: jit(f))
        tests['kwargs'] = probe(lambda: jit(nopython=True, cache=True)(f))
        tests['empty'] = probe(lambda: jit()(f))
        tests['signature'] = probe(lambda: jit('float64(float64)', nopython=True)(f))
        tests['tuple-signature'] = probe(lambda: jit(('x',), cache=True)(f))
        try:
            tests['decorator-identity'] = [jit() is jit, jit(None) is jit, jit('sig') is jit]
        except Exception:   # noqa
            tests['decorator-identity'] = [False]
        try:
            tests['prange'] = [list(co.prange(4)) == [0, 1, 2, 3], list(co.prange(1, 7, 2)) == [1, 3, 5]]
        except Exception:   # noqa
            tests['prange'] = [False]
        facts['shim'] = tests
    if not co._HAS_PENTAPY:
        try:
            co._pentapy_solve(None, None)
            facts['penta_dummy'] = 'returned'
        except NotImplementedError:
            facts['penta_dummy'] = 'NotImplementedError'
        except Exception as e:   # noqa
            facts['penta_dummy'] = type(e).__name__
    facts['version'] = pybaselines.__version__
    return facts


def main(argv):
    block_numba, block_pentapy = int(argv[0]), int(argv[1])
    install_blockers(block_numba, block_pentapy)
    job = json.load(sys.stdin)
    res = {'facts': shim_facts() if job.get('facts') else None, 'capture': {}, 'oracle': {}, 'bdb': {}, 'pairs': {}}
    for case in job.get('pairs', []):
        try:
            res['pairs'][case['id']] = run_pairs(case)
        except Exception as e:   # noqa
            res['pairs'][case['id']] = {'exc': f'{type(e).__name__}: {e}'[:200]}
    for case in job.get('bdb', []):
        res['bdb'][case['id']] = run_bdb(case)
    for case in job.get('capture', []):
        res['capture'][case['id']] = run_capture(case)
    for oj in job.get('oracle', []):
        res['oracle'][oj['id']] = run_oracle(oj)
    sys.stdout.write('\nC10RESULT' + json.dumps(res) + '\n')
    sys.stdout.flush()
    return 0


if __name__ == '__main__':
    sys.exit(main(sys.argv[1:]))
