"""C06 -- Whittaker baselines solve the documented penalized least-squares system.
DESIGN.md section 4 / C06.

Tie: exact-input correspondence.  The three library entry points PenalizedSystem.solve dispatches to
(pentapy.solve, scipy solveh_banded, scipy solve_banded, as bound in pybaselines._banded_utils) are
wrapped from this process; every call of every pass is captured (bands, rhs, lower/l_and_u/row-wise
flags) for integer data / integer (or dyadic) weights / power-of-two lam, and compared EXACTLY, inside
Coq, (a) with the bands the Gallina model C06/Model.v predicts and (b) after an independent
densification, with the documented matrix doc_* that the theorems of props/C06.v speak about.

Search: the residual certificate of the property text on real runs (trajectory reconstruction with
tol=0, max_iter=0..K, and converged runs), normwise backward error in extended precision."""
import math
import warnings
from fractions import Fraction

import numpy as np

from .common import coqbool, zl, zlist, zlist2

PROP = 'C06'

HEADER = """From Coq Require Import ZArith List Bool.
From PB Require Import lib.SumZ lib.PySlice lib.Arr lib.CaseUtil C11.DtD C11.Table gen.GenBands C11.Banded C06.Model.
Import ListNotations.
Open Scope Z_scope.
"""

ASLS_TYPE = ['asls', 'airpls', 'arpls', 'iarpls', 'psalsa', 'derpsalsa', 'brpls', 'lsrpls']
ALL_1D = ASLS_TYPE + ['iasls', 'drpls', 'aspls']
WEIGHT_FUNCS = ['_asls', '_airpls', '_arpls', '_drpls', '_iarpls', '_aspls', '_psalsa', '_derpsalsa',
                '_brpls', '_lsrpls']
EPS = 2.0 ** -52


# ------------------------------------------------------------------ capture
class Capture:
    """Wraps the library entry points used by PenalizedSystem.solve and the reweighting functions."""

    def __init__(self, hp):
        self.hp = hp
        self.calls = []       # dicts: solver, ab, b, l_and_u, flags
        self.reweights = []   # outputs of the _weighting functions, in call order
        self.flags = []

    def __enter__(self):
        import pybaselines._banded_utils as bu
        import pybaselines._weighting as wt
        self.bu, self.wt = bu, wt
        self.saved = {k: getattr(bu, k) for k in ('solveh_banded', 'solve_banded', '_pentapy_solve', '_HAS_PENTAPY')}
        self.saved_solve = bu.PenalizedSystem.solve
        self.saved_w = {k: getattr(wt, k) for k in WEIGHT_FUNCS}
        cap = self
        o_h, o_b, o_p = self.saved['solveh_banded'], self.saved['solve_banded'], self.saved['_pentapy_solve']

        def solveh(ab, b, **kw):
            cap.calls.append({'solver': 'solveh', 'ab': np.array(ab, dtype=float, copy=True),
                              'b': np.array(b, dtype=float, copy=True), 'lower': bool(kw.get('lower', False)),
                              'l_and_u': None})
            cap.calls[-1]['out'] = out = o_h(ab, b, **kw)
            return out

        def solveb(l_and_u, ab, b, **kw):
            cap.calls.append({'solver': 'solve_banded', 'ab': np.array(ab, dtype=float, copy=True),
                              'b': np.array(b, dtype=float, copy=True), 'lower': False,
                              'l_and_u': (int(l_and_u[0]), int(l_and_u[1]))})
            cap.calls[-1]['out'] = out = o_b(l_and_u, ab, b, **kw)
            return out

        def penta(ab, b, **kw):
            cap.calls.append({'solver': 'penta', 'ab': np.array(ab, dtype=float, copy=True),
                              'b': np.array(b, dtype=float, copy=True), 'lower': False, 'l_and_u': None,
                              'is_flat': kw.get('is_flat'), 'row_wise': kw.get('index_row_wise')})
            cap.calls[-1]['out'] = out = o_p(ab, b, **kw)
            return out

        def solve(self_, lhs, rhs, *a, **kw):
            cap.flags.append((bool(self_.lower), bool(self_.reversed), bool(self_.using_pentapy),
                              kw.get('l_and_u')))
            return cap.saved_solve(self_, lhs, rhs, *a, **kw)

        bu.solveh_banded, bu.solve_banded, bu._pentapy_solve = solveh, solveb, penta
        bu._HAS_PENTAPY = bool(self.hp) and self.saved['_HAS_PENTAPY']
        bu.PenalizedSystem.solve = solve
        for k in WEIGHT_FUNCS:
            def mk(f):
                def g(*a, **kw):
                    out = f(*a, **kw)
                    cap.reweights.append(out)
                    return out
                return g
            setattr(wt, k, mk(self.saved_w[k]))
        return self

    def __exit__(self, *exc):
        for k, v in self.saved.items():
            setattr(self.bu, k, v)
        self.bu.PenalizedSystem.solve = self.saved_solve
        for k, v in self.saved_w.items():
            setattr(self.wt, k, v)
        return False


def pentapy_available():
    import pybaselines._banded_utils as bu
    return bool(bu._HAS_PENTAPY)


XORDERS = ['sorted', 'reversed', 'rolled', 'shuffled']
PER_POINT = ('weights', 'alpha', 'mask')


def perm_of(kind, n, salt=0):
    """The order in which the user supplies the points: user position k holds sorted point perm[k]."""
    idx = np.arange(n)
    if kind in (None, 'sorted'):
        return None
    if kind == 'reversed':
        return idx[::-1].copy()
    if kind == 'rolled':
        return np.roll(idx, max(1, n // 3))
    prng = np.random.default_rng(9000 + 17 * n + salt)
    for _ in range(20):
        perm = prng.permutation(n)
        if n < 3 or not np.array_equal(perm[perm], idx):     # not an involution
            return perm
    return perm


def unperm(a, perm):
    out = np.empty_like(np.asarray(a))
    out[perm] = a
    return out


def run_method(meth_name, y, bs, **kw):
    method = meth_name
    perm = kw.pop('_perm', None)
    if perm is not None and method != 'whittaker_smooth':
        # the user supplies x, data and per-point arrays in the order `perm`; results are brought back to the
        # sorted frame, in which the documented system is written
        n = len(y)
        kw2 = {k: (np.asarray(v)[perm] if k in PER_POINT and isinstance(v, np.ndarray) and v.shape == (n,) else v)
               for k, v in kw.items()}
        kw2['_x'] = np.arange(n, dtype=float)[perm]
        base, par = run_method(meth_name, np.asarray(y, dtype=float)[perm], bs, **kw2)
        par = dict(par)
        for k in PER_POINT:
            if k in par and np.shape(par[k]) == (n,):
                par[k] = unperm(par[k], perm)
        return unperm(base, perm), par
    x_user = kw.pop('_x', None)
    from pybaselines import Baseline
    if method == 'whittaker_smooth':
        from pybaselines import utils
        with warnings.catch_warnings():
            warnings.simplefilter('ignore')
            return utils.whittaker_smooth(np.asarray(y, dtype=float), **kw), {}
    hist = kw.pop('_history', False)
    f = Baseline(x_data=np.arange(len(y), dtype=float) if x_user is None else x_user, check_finite=False,
                 assume_sorted=x_user is None)
    f.banded_solver = bs
    with warnings.catch_warnings():
        warnings.simplefilter('ignore')
        if hist:
            # the same object first serves a valid call with other settings and two REJECTED calls
            for bad in (dict(lam=3.0, diff_order=1), dict(lam=-1.0), dict(weights=np.ones(len(y) + 1))):
                try:
                    getattr(f, method)(np.asarray(y, dtype=float)[::-1].copy(), **{k: v for k, v in bad.items()})
                except Exception:  # noqa
                    pass
        return getattr(f, method)(np.asarray(y, dtype=float), **kw)


def densify(call, N):
    """Independent converter: what matrix the captured library call denotes (the library's own
    documented storage convention; for pentapy its own create_full)."""
    ab = call['ab']
    A = np.zeros((N, N))
    if call['solver'] == 'penta':
        if ab.shape[0] != 5 or not call.get('is_flat') or not call.get('row_wise'):
            raise ValueError(f'pentapy called with shape {ab.shape}, is_flat={call.get("is_flat")}, '
                             f'index_row_wise={call.get("row_wise")}')
        from pentapy import tools
        return np.array(tools.create_full(ab, col_wise=False), dtype=float)
    if call['solver'] == 'solveh':
        if not call['lower']:
            raise ValueError('solveh_banded called with lower=False')
        for r in range(ab.shape[0]):
            for j in range(N - r):
                A[j + r, j] = ab[r, j]
                A[j, j + r] = ab[r, j]
        return A
    l, u = call['l_and_u']
    if ab.shape[0] != l + u + 1:
        raise ValueError(f'solve_banded l_and_u={call["l_and_u"]} with {ab.shape[0]} rows')
    for i in range(N):
        for j in range(max(0, i - l), min(N, i + u + 1)):
            A[i, j] = ab[u + i - j, j]
    return A


def DtD(N, d):
    D = np.eye(N, dtype=object)
    D = np.array([[int(v) for v in row] for row in np.eye(N)], dtype=object)
    for _ in range(d):
        D = D[1:] - D[:-1]
    return D.T.dot(D)


def doc_system(method, N, d, lam, extra, w, alpha, y):
    """The documented system with exact rational arithmetic: (A, b) as object arrays of Fractions."""
    Fr = Fraction
    P = DtD(N, d)
    w = [Fr(v) for v in w]
    y = [Fr(v) for v in y]
    lam = Fr(lam)
    A = np.empty((N, N), dtype=object)
    if method == 'iasls':
        lam1 = Fr(extra)
        P1 = DtD(N, 1)
        for i in range(N):
            for j in range(N):
                A[i, j] = lam * int(P[i, j]) + lam1 * int(P1[i, j]) + (w[i] * w[i] if i == j else 0)
        b = [w[i] * w[i] * y[i] + lam1 * sum(int(P1[i, j]) * y[j] for j in range(N)) for i in range(N)]
    elif method == 'drpls':
        eta = Fr(extra)
        P1 = DtD(N, 1)
        for i in range(N):
            for j in range(N):
                A[i, j] = (1 - eta * w[i]) * lam * int(P[i, j]) + int(P1[i, j]) + (w[i] if i == j else 0)
        b = [w[i] * y[i] for i in range(N)]
    elif method == 'aspls':
        al = [Fr(v) for v in alpha]
        for i in range(N):
            for j in range(N):
                A[i, j] = al[i] * lam * int(P[i, j]) + (w[i] if i == j else 0)
        b = [w[i] * y[i] for i in range(N)]
    else:
        for i in range(N):
            for j in range(N):
                A[i, j] = lam * int(P[i, j]) + (w[i] if i == j else 0)
        b = [w[i] * y[i] for i in range(N)]
    return A, b


def exact_ints(a, scale=1):
    """float array * scale as exact Python ints; None when some value is not an integer."""
    out = []
    for row in np.atleast_2d(a):
        r = []
        for v in row:
            if not math.isfinite(v):
                return None
            f = Fraction(float(v)) * scale
            if f.denominator != 1:
                return None
            r.append(int(f))
        out.append(r)
    return out


def dyadic_scale(arrs, limit=64):
    """Smallest power of two S <= limit with S * every value an integer; None otherwise."""
    S = 1
    while S <= limit:
        if all(float(v) * S == math.floor(float(v) * S) for a in arrs for v in np.ravel(a)):
            return S
        S *= 2
    return None


METH_CODE = {'asls': 0, 'iasls': 1, 'drpls': 2, 'aspls': 3, 'whittaker_smooth': 4}
# single-solve users of the same add_diagonal path (weights in force = the weights/mask the method reports)
SINGLE = ['whittaker_smooth', 'mpls', 'fabc', 'rubberband', 'peak_filling']


def gen_case(rng, method, N, d, bs, hp, passes):
    lam = 2 ** rng.randint(0, 12)
    y = [rng.randint(-40, 40) for _ in range(N)]
    w = [rng.choice([0, 1, 1, 2, 3]) for _ in range(N)]
    for i in rng.sample(range(N), min(N, d + 2)):
        w[i] = max(w[i], 1)
    kw = dict(lam=float(lam), diff_order=d, weights=np.array(w, dtype=float), max_iter=passes - 1, tol=-1.0)
    extra, alpha = 0, None
    if method == 'iasls':
        extra = 2 ** rng.randint(0, 4)
        kw['lam_1'] = float(extra)
        kw['p'] = 0.25
    elif method == 'asls':
        kw['p'] = 0.25
    elif method == 'drpls':
        extra = rng.choice([0, 1, 1])
        kw['eta'] = float(extra)
        w = [min(v, 1) if extra else v for v in w]
        kw['weights'] = np.array(w, dtype=float)
    elif method == 'aspls':
        alpha = [rng.choice([0, 1, 2, 3]) for _ in range(N)]
        kw['alpha'] = np.array(alpha, dtype=float)
    elif method in ('psalsa', 'derpsalsa'):
        kw['p'] = 0.25
    elif method == 'whittaker_smooth':
        w = [rng.choice([0, 1, 2, 2, 3, 3]) for _ in range(N)]
        for i in rng.sample(range(N), min(N, d + 2)):
            w[i] = max(w[i], 1)
        w[rng.randrange(N)] = rng.choice([2, 3])          # never a pure 0/1 mask
        wdt = rng.choice([float, int, np.float32])
        kw = dict(lam=float(lam), diff_order=d, weights=np.array(w, dtype=wdt), check_finite=rng.random() < 0.5)
    elif method == 'mpls':
        w[rng.randrange(N)] = 3
        kw = dict(lam=float(lam), diff_order=d, weights=np.array(w, dtype=float), half_window=2)
    elif method == 'fabc':
        w[rng.randrange(N)] = 3
        kw = dict(lam=float(lam), diff_order=d, weights=np.array(w, dtype=float), weights_as_mask=True)
    elif method == 'rubberband':
        y = [v * v // 8 + rng.randint(0, 6) for v in range(-N // 2, N - N // 2)]     # convex-ish, generic
        kw = dict(lam=float(lam), diff_order=d, weights=np.array([min(v, 1) for v in w], dtype=float))
    elif method == 'peak_filling':
        w = [1] * N
        kw = dict(lam_smooth=float(lam), half_window=1, sections=max(2, N // 3), max_iter=1)
    return dict(method=method, N=N, d=d, bs=bs, hp=hp, lam=lam, extra=extra, y=y, w=w, alpha=alpha, kw=kw)


def capture_case(case):
    """Runs the implementation, returns list of passes: (call, weights-in-force, alpha-in-force)."""
    kw = dict(case['kw'])
    with Capture(case['hp']) as cap:
        exc = None
        res = None
        try:
            res = run_method(case['method'], case['y'], case['bs'], **kw)
        except Exception as e:  # noqa  (a singular system raises after the call was captured)
            exc = e
    case['_result'] = res
    passes = []
    for k, call in enumerate(cap.calls):
        if case['method'] in SINGLE and case['method'] != 'whittaker_smooth':
            if k > 0 or res is None:
                break
            par = res[1]
            rep = par.get('weights', par.get('mask')) if case['method'] != 'peak_filling' else np.ones(case['N'])
            w, al = np.asarray(rep, dtype=float), None
        elif k == 0:
            w, al = np.array(case['w'], dtype=float), (np.array(case['alpha'], dtype=float) if case['alpha'] is not None else None)
        else:
            out = cap.reweights[k - 1] if k - 1 < len(cap.reweights) else None
            if out is None:
                break
            if case['method'] == 'aspls':
                w = np.asarray(out[0], dtype=float)
                resid = np.abs(np.asarray(out[1], dtype=float))
                al = resid / resid.max()
            else:
                w = np.asarray(out[0] if isinstance(out, tuple) else out, dtype=float)
                al = None
        flags = cap.flags[k] if k < len(cap.flags) else None
        passes.append((call, w, al, flags))
    return passes, exc


def solver_code(call):
    if call['solver'] == 'penta':
        return (0, 0, 0)
    if call['solver'] == 'solveh':
        return (1, 0, 0)
    return (2,) + tuple(call['l_and_u'])


def coq_case(case, passes_used, S):
    """Coq literal for one run; the weights of all passes are S-scaled integers."""
    m = case['method']
    code = METH_CODE.get(m, 0)
    wl = '[' + '; '.join(zlist(p['w']) for p in passes_used) + ']'
    al = '[' + '; '.join(zlist(p['al'] if p['al'] is not None else []) for p in passes_used) + ']'
    exp = '[' + '; '.join(
        f'(({p["code"][0]}, {p["code"][1]}, {p["code"][2]}), {zlist2(p["ab"])}, {zlist(p["b"])})' for p in passes_used) + ']'
    dens = '[' + '; '.join(zlist2(p['dense']) for p in passes_used) + ']'
    lam, extra = case['lam'], case['extra']
    if m == 'iasls':
        lam, extra = lam * S * S, extra * S * S
    elif m in ASLS_TYPE or m in SINGLE:
        lam = lam * S
    return (f'({code}, {coqbool(case["hp"])}, {case["bs"]}, {case["N"]}%nat, {case["d"]}%nat, {zl(lam)}, {zl(extra)}, '
            f'{wl}, {al}, {zlist(case["y"])}, {exp}, {dens})')


COQ_OK = """
Definition case_t := (Z * bool * Z * nat * nat * Z * Z * list (list Z) * list (list Z) * list Z
                      * list ((Z * Z * Z) * list (list Z) * list Z) * list (list (list Z)))%type.
Definition obs_eqb (a b : (Z * Z * Z) * list (list Z) * list Z) : bool :=
  let '((s1, l1, u1), ab1, b1) := a in let '((s2, l2, u2), ab2, b2) := b in
  (s1 =? s2) && (l1 =? l2) && (u1 =? u2) && zll_eqb ab1 ab2 && zl_eqb b1 b2.
Fixpoint all2 {A B} (f : A -> B -> bool) (x : list A) (y : list B) : bool :=
  match x, y with [] , [] => true | a :: x', b :: y' => f a b && all2 f x' y' | _, _ => false end.
(* (a) model bands = captured bands;  (b) documented matrix = densified captured bands, documented rhs = captured rhs *)
Definition ok (c : case_t) : bool :=
  let '(m, hp, bs, N, d, lam, extra, wl, al, y, exp, dens) := c in
  let Nz := Z.of_nat N in
  let yf := of_list y in
  let wfs := map of_list wl in
  let calls :=
    if m =? 0 then asls hp bs N lam d wfs yf
    else if m =? 1 then iasls hp bs N lam extra d wfs yf
    else if m =? 2 then drpls hp bs N lam extra d wfs yf
    else if m =? 4 then match whittaker_smooth hp N lam d (hd (fun _ => 0) wfs) yf with Some k => Some [k] | None => None end
    else aspls hp bs N lam d (combine wfs (map of_list al)) yf in
  match calls with
  | None => false
  | Some cs =>
      all2 obs_eqb (map (observe_call Nz) cs) exp
      && forallb (call_wf Nz) cs
      && all2 (fun (wa : list Z * list Z) (D : list (list Z)) =>
                 let w := of_list (fst wa) in let a := of_list (snd wa) in
                 zll_eqb (dense Nz (if (m =? 0) || (m =? 4) then doc_asls N d lam w
                                    else if m =? 1 then doc_iasls N d lam extra w
                                    else if m =? 2 then doc_drpls N d lam extra w
                                    else doc_aspls N d lam w a)) D)
              (combine wl (if m =? 3 then al else map (fun _ => []) wl)) dens
      && all2 (fun (w : list Z) (e : (Z * Z * Z) * list (list Z) * list Z) =>
                 zl_eqb (vec Nz (if m =? 1 then doc_iasls_rhs N extra (of_list w) yf else mulv (of_list w) yf)) (snd e))
              wl exp
      && all2 (fun k (D : list (list Z)) => zll_eqb (dense Nz (den k)) D) cs dens
  end.
"""


def correspondence(ctx):
    rng = ctx.rng
    has_penta = pentapy_available()
    if not has_penta:
        ctx.note('pentapy is not importable in this environment: the pentapy branch was not exercised')
    lits = []
    nbad_py = 0
    Nmax = ctx.n(24, 40)
    reps = ctx.n(1, 3)
    plan = []
    for method in ALL_1D:
        for d in (1, 2, 3, 4):
            if method in ('iasls', 'drpls') and d < 2:
                continue
            sizes = sorted(set([d + 2, d + 3, 2 * d, 2 * d + 1, 2 * d + 2, 3 * d + 2] +
                               [rng.randint(d + 2, Nmax) for _ in range(reps)]))
            sizes = [n for n in sizes if n >= d + 2]
            for N in sizes:
                for bs in (1, 2, 3, 4):
                    for hp in ((True, False) if (has_penta and bs < 3 and d == 2) else (False,)):
                        if method in ASLS_TYPE and method != 'asls' and (N not in sizes[:3] or bs == 2):
                            continue      # the other asls-type methods share the assembly code path
                        plan.append((method, N, d, bs, hp))
    for method in SINGLE:
        for d in ((2,) if method == 'peak_filling' else (1, 2, 3, 4)):
            sizes = sorted(set([d + 2, d + 3, 2 * d + 1, 3 * d + 2, rng.randint(d + 2, Nmax)]))
            if method in ('rubberband', 'peak_filling', 'mpls', 'fabc'):
                sizes = [n for n in sizes if n >= 8] + [rng.randint(9, Nmax)]
            else:
                sizes = sorted(set(sizes + list(range(d + 2, d + 8)) + [2 * d, 2 * d + 2, 3 * d + 3]))
                sizes = [n for n in sizes if n >= d + 2]
            for N in sizes:
                for bs in ((1,) if method == 'whittaker_smooth' else (1, 3, 4)):
                    for hp in ((True, False) if (has_penta and bs < 3 and d == 2) else (False,)):
                        plan.append((method, N, d, bs, hp))
    captured_per_method = {}
    for (method, N, d, bs, hp) in plan:
        npass = 3 if method in ('asls', 'iasls') else 2
        case = gen_case(rng, method, N, d, bs, hp, npass)
        passes, exc = capture_case(case)
        key = {'kind': 'capture', 'method': method, 'N': N, 'd': d, 'bs': bs, 'hp': hp, 'lam': case['lam'],
               'extra': case['extra'], 'y': case['y'], 'w': case['w'], 'alpha': case['alpha'],
               'kw': {k: (v.tolist() if isinstance(v, np.ndarray) else v) for k, v in case['kw'].items()}}
        captured_per_method.setdefault(method, 0)
        if not passes:
            if method in SINGLE and method != 'whittaker_smooth':
                continue      # e.g. a degenerate hull: the method raised before solving; counted below
            ctx.broke(f'correspondence:capture:{method}', f'no library solver call captured ({type(exc).__name__}: {exc}) for {key}')
            continue
        captured_per_method[method] += 1
        # which passes have exactly representable (dyadic) weights
        used = []
        lim = 16 if method in ('asls', 'iasls') else 1
        for (call, w, al, flags) in passes:
            if dyadic_scale([w] + ([al] if al is not None else []), lim) is None:
                break
            used.append((call, w, al, flags))
        S = dyadic_scale([u[1] for u in used], 16) or 1
        S2 = S * S if method == 'iasls' else S
        plist = []
        bad = None
        for k, (call, w, al, flags) in enumerate(used):
            wi = [int(Fraction(float(v)) * S) for v in w]
            ab = exact_ints(call['ab'], S2)
            b = exact_ints(call['b'], S2)
            try:
                A = densify(call, N)
            except ValueError as e:
                bad = f'pass {k}: {e}'
                break
            Ai = exact_ints(A, S2)
            if ab is None or b is None or Ai is None:
                bad = f'pass {k}: captured values are not exactly representable integers after scaling by {S2}'
                break
            # python-side exact comparison with the documented system (independent of the Coq model)
            Adoc, bdoc = doc_system(method if method in METH_CODE else 'asls', N, d, case['lam'], case['extra'],
                                    [Fraction(float(v)) for v in w], al, case['y'])
            if any(Fraction(Ai[i][j], S2) != Adoc[i, j] for i in range(N) for j in range(N)):
                i, j = next((i, j) for i in range(N) for j in range(N) if Fraction(Ai[i][j], S2) != Adoc[i, j])
                bad = (f'pass {k}: the matrix reaching {call["solver"]} has entry ({i},{j}) = {Fraction(Ai[i][j], S2)} '
                       f'but the documented system has {Adoc[i, j]}')
                break
            if any(Fraction(b[0][i], S2) != bdoc[i] for i in range(N)):
                i = next(i for i in range(N) if Fraction(b[0][i], S2) != bdoc[i])
                bad = f'pass {k}: right-hand side entry {i} = {Fraction(b[0][i], S2)} but documented {bdoc[i]}'
                break
            plist.append({'w': wi, 'al': [int(v) for v in al] if al is not None else None, 'code': solver_code(call),
                          'ab': ab, 'b': b[0], 'dense': Ai})
        ctx.case(('cap', method, N, d, bs, hp, case['lam'], case['extra'], tuple(case['y']), tuple(case['w'])),
                 nontrivial=True, kind=f'capture:{method}:d={d}:passes={len(plist)}')
        if bad:
            nbad_py += 1
            ctx.fail(f'assembly:{method}:d={d}', f'{method} (N={N}, diff_order={d}, banded_solver={bs}, pentapy={hp}, '
                     f'lam={case["lam"]}, extra={case["extra"]}): {bad}', key)
            continue
        if len(ctx.samples) < 3:
            ctx.sample({k: key[k] for k in ('method', 'N', 'd', 'bs', 'hp', 'lam', 'extra')})
        lits.append(coq_case(case, plist, S))
    for m, n in captured_per_method.items():
        if n == 0:
            ctx.broke(f'correspondence:capture:{m}', f'{m}: no run reached the banded solver')
    ctx.traces += len(lits)
    # evaluate inside Coq
    bad_any = False
    per = 60
    shards = [lits[k:k + per] for k in range(0, len(lits), per)]
    for k, sh in enumerate(shards):
        text = HEADER + COQ_OK + f"""
Definition cases : list case_t := [
{chr(10).join('  ' + l + (';' if i + 1 < len(sh) else '') for i, l in enumerate(sh))}
].
Eval vm_compute in (bad ok cases).
"""
        vals = ctx.coq_eval(f'cap{k}', text)
        if vals is None:
            bad_any = True
        elif not vals or not (vals[0].startswith('(0%nat, [])') or vals[0].startswith('(0, [])')):
            bad_any = True
            ctx.broke(f'correspondence:capture-shard{k}',
                      f'model/documented system and captured solver input disagree: {vals}')
    ctx.obligations.append('correspondence:captured-solver-inputs(model bands, documented dense system)')
    if not bad_any and not nbad_py:
        ctx.discharged.append('correspondence:captured-solver-inputs(model bands, documented dense system)')
    return len(lits)


# ------------------------------------------------------------------ direct oracle (search)
LD = np.longdouble


def DtD_ld(N, d):
    D = np.eye(N)
    for _ in range(d):
        D = D[1:] - D[:-1]
    return (D.T @ D).astype(LD)     # small integers: exact


def doc_float(method, N, d, lam, extra, w, alpha, y):
    """Documented system in extended precision from float inputs: (A, b)."""
    P = DtD_ld(N, d)
    w = np.asarray(w, dtype=LD)
    y = np.asarray(y, dtype=LD)
    lam = LD(lam)
    if method == 'iasls':
        P1 = DtD_ld(N, 1)
        M = np.diag(w * w) + LD(extra) * P1
        return M + lam * P, M @ y
    if method == 'drpls':
        P1 = DtD_ld(N, 1)
        return np.diag(w) + P1 + lam * ((1 - LD(extra) * w)[:, None] * P), w * y
    if method == 'aspls':
        return np.diag(w) + lam * (np.asarray(alpha, dtype=LD)[:, None] * P), w * y
    return np.diag(w) + lam * P, w * y


def backward_error(A, v, b):
    v = np.asarray(v, dtype=LD)
    r = A @ v - b
    den = np.abs(A).sum(axis=1).max() * np.abs(v).max() + np.abs(b).max()
    if not np.isfinite(den) or den == 0:
        return 0.0 if np.all(r == 0) else float('inf')
    return float(np.abs(r).max() / den)


def make_data(rng, N, kind):
    t = np.linspace(0, 1, N)
    nrng = np.random.default_rng(rng.getrandbits(32))
    base = 5 + 10 * t + 3 * np.sin(3 * t)
    peaks = sum(a * np.exp(-0.5 * ((t - c) / s) ** 2) for a, c, s in [(30, 0.25, 0.05), (50, 0.6, 0.06), (20, 0.8, 0.04)])
    y = base + peaks + nrng.normal(0, 0.5, N)
    if kind == 'offset':
        y = y + 1e3
    elif kind == 'small':
        y = y * 1e-3
    elif kind == 'integer':
        y = np.round(y)
    return y


def oracle_runs(ctx, budget, stats=None):
    """Residual certificate on real runs.  Returns number of failures."""
    rng = ctx.rng
    has_penta = pentapy_available()
    found = 0
    nruns = ctx.n(1100, 8000) * budget
    K = 2
    for run_i in range(nruns):
        method = ALL_1D[run_i % len(ALL_1D)]
        d = rng.choice([1, 2, 2, 2, 3, 3, 4])
        if method in ('iasls', 'drpls'):
            d = max(d, 2)
        r = rng.random()
        if r < 0.5:
            N = rng.randint(d + 2, 3 * d + 4)          # where the hard-coded edges overlap
        elif r < 0.9:
            N = rng.randint(d + 2, 60)
        else:
            N = rng.choice([100, 257, 600])
        lam = 10 ** rng.uniform(-2, 8)
        bs = rng.choice([1, 2, 3, 4])
        hp = has_penta and rng.random() < 0.7
        y = make_data(rng, N, rng.choice(['plain', 'plain', 'offset', 'small', 'integer']))
        nrng = np.random.default_rng(rng.getrandbits(32))
        w0 = nrng.uniform(0.05, 1.0, N) if rng.random() < 0.6 else None
        if w0 is not None and rng.random() < 0.3:
            w0[nrng.random(N) < 0.3] = 0.0           # zero weights (ill-conditioned but still definite)
            w0[nrng.choice(N, size=min(N, d + 1), replace=False)] = 1.0
        kw = dict(lam=lam, diff_order=d)
        extra, a0 = 0, None
        if method == 'iasls':
            extra = 10 ** rng.uniform(-6, 1)
            kw['lam_1'] = extra
            if w0 is None:
                w0 = np.ones(N)          # with weights=None iasls builds its own starting weights
        elif method == 'drpls':
            extra = rng.choice([0.0, 0.25, 0.5, 0.5, 1.0])
            kw['eta'] = extra
        elif method == 'aspls' and rng.random() < 0.4:
            a0 = nrng.uniform(0.1, 1.0, N)
            kw['alpha'] = a0
        if w0 is not None:
            kw['weights'] = w0
        mode = rng.choice(['traj', 'traj', 'conv0', 'default'])
        if method == 'brpls' and mode == 'traj':
            mode = 'conv0'
        base_case = {'kind': 'oracle', 'method': method, 'N': N, 'd': d, 'lam': lam, 'bs': bs, 'hp': hp,
                     'extra': extra, 'y': [float(v) for v in y], 'w0': None if w0 is None else [float(v) for v in w0],
                     'a0': None if a0 is None else [float(v) for v in a0], 'mode': mode,
                     'layout': {'y': rng.choice(LAYOUTS_1D), 'w': rng.choice(LAYOUTS_1D), 'a': rng.choice(LAYOUTS_1D)},
                     'history': rng.random() < 0.2}
        checks = run_oracle_case(base_case, K)
        ctx.case(('oracle', method, N, d, bs, hp, round(math.log10(lam), 3), mode, run_i), nontrivial=len(checks) > 0,
                 kind=f'oracle:{method}:{mode}')
        for (what, eta, Nn, info) in checks:
            bound = BOUND_C * Nn * EPS
            if stats is not None:
                stats.append((eta / (Nn * EPS), method, d, Nn, bs, hp, lam, what))
            if not (eta <= bound):
                found += 1
                case = dict(base_case)
                case['what'] = what
                if method == 'brpls' and brpls_returns_data(base_case):
                    ctx.fail(BRPLS_KEY, f'brpls (N={N}, diff_order={d}, lam={lam:.3g}) returns the input data itself as the '
                             'baseline when the first reweighting exits early', case)
                    continue
                ctx.fail(f'residual:{method}:{what if what.startswith("returned-pair") else "pass"}',
                         f'{method} (N={N}, diff_order={d}, lam={lam:.3g}, banded_solver={bs}, pentapy={hp}, {info}): '
                         f'{what}: normwise backward error {eta:.3e} > {BOUND_C}*N*eps = {bound:.3e}', case)
    return found


BOUND_C = 1.0e3


def run_oracle_case(case, K=2):
    """[(what, backward error, N, info)] for one generated case; exceptions of the implementation on
    singular systems are not C06's business and end the case."""
    method, N, d, lam, bs, hp = case['method'], case['N'], case['d'], case['lam'], case['bs'], case['hp']
    y = np.array(case['y'], dtype=float)
    w0 = None if case['w0'] is None else np.array(case['w0'], dtype=float)
    a0 = None if case['a0'] is None else np.array(case['a0'], dtype=float)
    extra = case['extra']
    kw = dict(lam=lam, diff_order=d)
    if method == 'iasls':
        kw['lam_1'] = extra
    elif method == 'drpls':
        kw['eta'] = extra
    if a0 is not None:
        kw['alpha'] = relayout(a0, lay(case, 'a'))
    if w0 is not None:
        kw['weights'] = relayout(w0, lay(case, 'w'))
    if case.get('history'):
        kw['_history'] = True
    if case.get('xorder') not in (None, 'sorted'):
        kw['_perm'] = perm_of(case['xorder'], N)
    y_in = relayout(y, lay(case, 'y'))
    out = []

    def call(**more):
        import pybaselines._banded_utils as bu
        old = bu._HAS_PENTAPY
        bu._HAS_PENTAPY = bool(hp) and old
        try:
            with np.errstate(all='ignore'):
                return run_method(method, y_in, bs, **kw, **more)
        except Exception:  # noqa   singular system / non-finite solver output
            return None
        finally:
            bu._HAS_PENTAPY = old

    def check(what, base, w, al, info):
        if base is None or not np.all(np.isfinite(base)) or not np.all(np.isfinite(w)):
            return
        if al is not None and not np.all(np.isfinite(al)):
            return
        A, b = doc_float(method, N, d, lam, extra, w, al, y)
        out.append((what, backward_error(A, base, b), N, info))

    w_in = np.ones(N) if w0 is None else w0
    a_in = (np.ones(N) if a0 is None else a0) if method == 'aspls' else None
    if case['mode'] == 'traj':
        for k in range(K + 1):
            res = call(max_iter=k, tol=-1.0)
            if res is None:
                break
            base, par = res
            hist = np.atleast_1d(par['tol_history'])
            if len(hist) < k + 1:
                # early exit: weights not updated -> the returned pair belongs together
                check('returned-pair:early-exit', base, par['weights'], par.get('alpha'), f'max_iter={k}, tol=-1')
                break
            check(f'pass:{k}', base, w_in, a_in, f'max_iter={k}, tol=-1, pass {k}')
            w_in = np.array(par['weights'], dtype=float)
            if method == 'aspls':
                a_in = np.array(par['alpha'], dtype=float)
    elif case['mode'] == 'conv0':
        res = call(max_iter=3, tol=1e300)
        if res is not None:
            base, par = res
            if method != 'brpls' and len(np.atleast_1d(par['tol_history'])) == 1:
                if not np.array_equal(par['weights'], w_in):
                    out.append(('returned-pair:converged-weights-changed', float('inf'), N, 'max_iter=3, tol=1e300'))
            check('returned-pair:converged', base, par['weights'], par.get('alpha'), 'max_iter=3, tol=1e300')
    else:
        mi = 30
        res = call(max_iter=mi, tol=1e-3)
        if res is not None:
            base, par = res
            hist = np.asarray(par['tol_history'], dtype=float)
            if method == 'brpls':
                check('returned-pair:brpls', base, par['weights'], None, f'max_iter={mi}, tol=1e-3')
            elif hist.ndim == 1 and (len(hist) < mi + 1 or (len(hist) and hist[-1] < 1e-3)):
                check('returned-pair:converged', base, par['weights'], par.get('alpha'), f'max_iter={mi}, tol=1e-3')
    return out


# ------------------------------------------------------------------ oracle: whittaker_smooth and the single-solve users
def entrywise_bad(Acap, parts):
    """Captured dense matrix vs the sum of `parts` (each computed with one rounding): first offending entry."""
    Adoc = sum(parts)
    mag = sum(np.abs(p_) for p_ in parts)
    bad = np.abs(Acap.astype(LD) - Adoc) > 4 * EPS * mag
    if bad.any():
        i, j = np.argwhere(bad)[0]
        return f'entry ({i},{j}) = {float(Acap[i, j])!r} but documented {float(Adoc[i, j])!r}'
    return None


def single_case(case):
    """[(what, message or None)] : checks of one single-solve run; an implementation exception ends the case."""
    m, N, d, lam, bs, hp = case['method'], case['N'], case['d'], case['lam'], case['bs'], case['hp']
    y = np.array(case['y'], dtype=float)
    kw = {k: (np.array(v, dtype=float) if isinstance(v, list) else v) for k, v in case['kw'].items()}
    if isinstance(kw.get('weights'), np.ndarray):
        kw['weights'] = relayout(kw['weights'], lay(case, 'w'))
    out = []
    with Capture(hp) as cap:
        try:
            with np.errstate(all='ignore'):
                if case.get('xorder') not in (None, 'sorted'):
                    kw['_perm'] = perm_of(case['xorder'], N)
                base, par = run_method(m, relayout(y, lay(case, 'y')), bs, **kw)
        except Exception:  # noqa
            return out
    calls = [c for c in cap.calls if 'out' in c]
    if not calls or not np.all(np.isfinite(base)):
        return out
    P = DtD_ld(N, d)
    eye = np.eye(N, dtype=LD)
    bound = BOUND_C * N * EPS

    def check_call(tag, call, parts, b_doc, result):
        try:
            A = densify(call, N)
        except ValueError as e:
            out.append((f'{tag}:call', str(e)))
            return
        msg = entrywise_bad(A, parts)
        if msg:
            out.append((f'{tag}:lhs', f'matrix reaching {call["solver"]}: {msg}'))
        if b_doc is not None:
            bd = np.asarray(b_doc, dtype=LD)
            badb = np.abs(call['b'].astype(LD) - bd) > 4 * EPS * np.abs(bd)
            if badb.any():
                k = int(np.argwhere(badb)[0][0])
                out.append((f'{tag}:rhs', f'right-hand side entry {k} = {float(call["b"][k])!r} but documented {float(bd[k])!r}'))
        sol = np.asarray(call['out'], dtype=float)
        if np.all(np.isfinite(sol)):
            eta = backward_error(sum(parts), sol, (np.asarray(b_doc, dtype=LD) if b_doc is not None else call['b'].astype(LD)))
            if not (eta <= bound):
                out.append((f'{tag}:residual', f'solver output has normwise backward error {eta:.3e} > {bound:.3e}'))
            if result is not None and not np.array_equal(sol, result):
                out.append((f'{tag}:returned', 'the returned array is not the output of this solve'))
        out.append((f'{tag}:ok', None))

    if m == 'whittaker_smooth':
        w = np.ones(N) if kw.get('weights') is None else np.asarray(kw['weights'], dtype=float)
        check_call('system', calls[-1], [np.diag(w.astype(LD)), LD(lam) * P], w.astype(LD) * y.astype(LD), base)
    elif m in ('mpls', 'fabc', 'rubberband'):
        w = np.asarray(par['weights'] if 'weights' in par else par['mask'], dtype=float)
        if isinstance(kw.get('weights'), np.ndarray) and (m == 'mpls' or (m == 'fabc' and kw.get('weights_as_mask'))):
            # these hosts use the user's weights as they are: point i keeps weight i as supplied
            if not np.array_equal(w, np.asarray(kw['weights'], dtype=float)):
                out.append(('system:user-weights', 'the weights reported/used are not the user weights of the same data points'))
        check_call('system', calls[-1], [np.diag(w.astype(LD)), LD(lam) * P], w.astype(LD) * y.astype(LD), base)
    elif m == 'peak_filling':
        check_call('smooth', calls[0], [eye, LD(lam) * P], y.astype(LD), None)
    elif m == 'custom_bc':
        check_call('smooth', calls[-1], [eye, LD(lam) * P], None, base)
    elif m == 'jbcd':
        alpha, beta, gamma = kw.get('alpha', 0.1), kw.get('beta', 10.0), kw.get('gamma', 1.0)
        bm, gm = kw.get('beta_mult', 1.1), kw.get('gamma_mult', 0.909)
        for k in range(len(calls) // 2):
            last = 2 * k + 2 == len(calls)
            check_call('signal', calls[2 * k], [eye, LD(gamma) * P], None, par['signal'] if last else None)
            check_call('baseline', calls[2 * k + 1], [LD(1 + 2 * alpha) * eye, LD(2 * beta) * P], None, base if last else None)
            gamma *= gm
            beta *= bm
    return out


def oracle_single(ctx, budget):
    rng = ctx.rng
    has_penta = pentapy_available()
    found = 0
    methods = ['whittaker_smooth'] * 6 + ['mpls', 'fabc', 'rubberband', 'peak_filling', 'custom_bc', 'jbcd']
    for run_i in range(ctx.n(1200, 6000) * budget):
        m = methods[run_i % len(methods)]
        nrng = np.random.default_rng(rng.getrandbits(32))
        d = rng.choice([1, 2, 2, 3, 4])
        lam = 10 ** rng.uniform(-2, 8)
        bs = rng.choice([1, 2, 3, 4])
        hp = has_penta and rng.random() < 0.7
        if m == 'whittaker_smooth':
            d = rng.choice([0, 1, 2, 2, 3, 4])
            N = rng.randint(d + 2, 3 * d + 6) if rng.random() < 0.7 else rng.randint(d + 2, 80)
            y = make_data(rng, N, rng.choice(['plain', 'offset', 'small', 'integer']))
            kind = rng.choice(['frac', 'big', 'zeros', 'none', 'int'])
            if kind == 'frac':
                w = nrng.uniform(0.05, 1.0, N)
            elif kind == 'big':
                w = nrng.uniform(0.5, 50.0, N)
            elif kind == 'zeros':
                w = nrng.uniform(0.1, 3.0, N)
                w[nrng.random(N) < 0.35] = 0.0
                w[nrng.choice(N, size=min(N, d + 1), replace=False)] = 2.5
            elif kind == 'int':
                w = nrng.integers(1, 4, N).astype(float)
            else:
                w = None
            kw = dict(lam=lam, diff_order=d, check_finite=rng.random() < 0.5)
            if w is not None:
                kw['weights'] = w
            bs = 1
        else:
            N = rng.randint(40, 90)
            y = make_data(rng, N, rng.choice(['plain', 'offset', 'small']))
            if m == 'mpls':
                kw = dict(lam=lam, diff_order=d, half_window=rng.randint(2, 6), p=rng.choice([0.0, 0.01, 0.2]))
                if rng.random() < 0.4:
                    kw['weights'] = nrng.uniform(0.05, 2.0, N)
            elif m == 'fabc':
                kw = dict(lam=lam, diff_order=d, scale=rng.choice([2, 3, 4]))
                if rng.random() < 0.4:
                    kw.update(weights=nrng.uniform(0.05, 2.0, N) * (nrng.random(N) < 0.8), weights_as_mask=True)
            elif m == 'rubberband':
                kw = dict(lam=lam, diff_order=d, segments=rng.choice([1, 2]))
            elif m == 'peak_filling':
                d = 2
                kw = dict(lam_smooth=lam, half_window=3, sections=6)
            elif m == 'custom_bc':
                kw = dict(method='poly', lam=lam, diff_order=d, sampling=rng.choice([1, 2]),
                          regions=((N // 4, N // 2),), method_kwargs={'poly_order': 2})
            else:
                lam = 1.0
                kw = dict(half_window=4, diff_order=d, max_iter=rng.choice([0, 1, 3]), alpha=rng.choice([0.1, 0.5]),
                          beta=10 ** rng.uniform(-1, 3), gamma=10 ** rng.uniform(-2, 2))
        case = {'kind': 'single', 'method': m, 'N': N, 'd': d, 'lam': lam, 'bs': bs, 'hp': hp, 'y': [float(v) for v in y],
                'kw': {k: (v.tolist() if isinstance(v, np.ndarray) else v) for k, v in kw.items()}}
        res = single_case(case)
        ctx.case(('single', m, N, d, bs, hp, run_i), nontrivial=len(res) > 0, kind=f'oracle:{m}:{"checked" if res else "no-solve"}')
        for what, msg in res:
            if msg is not None:
                found += 1
                ctx.fail(f'single:{m}:{what}', f'{m} (N={N}, diff_order={d}, lam={lam:.3g}, banded_solver={bs}, pentapy={hp}): {msg}', case)
    return found


# ------------------------------------------------------------------ memory layouts of array arguments
# The documented system is about the VALUES of the logical (M, N) arrays (vec = row-major flatten of the logical
# array, independent of strides), so every certificate is also evaluated on inputs with the same values and a
# different memory layout.
LAYOUTS_2D = ['C', 'F', 'T', 'neg', 'negF', 'slice', 'sliceF']
LAYOUTS_1D = ['C', 'neg', 'slice']


def relayout(a, kind):
    """An array equal to `a` (same shape, dtype, values) with the requested memory layout."""
    a = np.asarray(a)
    if kind in (None, 'C'):
        out = np.ascontiguousarray(a)
    elif a.ndim == 1:
        if kind == 'neg':
            out = np.ascontiguousarray(a[::-1])[::-1]
        else:                                    # non-contiguous slice of a longer buffer
            buf = np.zeros(3 * a.size + 2, dtype=a.dtype)
            buf[1::3][:a.size] = a
            out = buf[1::3][:a.size]
    elif kind == 'F':
        out = np.asfortranarray(a)
    elif kind == 'T':                            # transposed view of a C-ordered array
        out = np.ascontiguousarray(a.T).T
    elif kind == 'neg':                          # negative strides on both axes
        out = np.ascontiguousarray(a[::-1, ::-1])[::-1, ::-1]
    elif kind == 'negF':                         # column-major with a negative stride on axis 0
        out = np.asfortranarray(a[::-1])[::-1]
    elif kind == 'slice':                        # non-contiguous window of a larger C-ordered array
        buf = np.zeros((2 * a.shape[0] + 1, 2 * a.shape[1] + 3), dtype=a.dtype)
        buf[1::2, 2::2][:a.shape[0], :a.shape[1]] = a
        out = buf[1::2, 2::2][:a.shape[0], :a.shape[1]]
    elif kind == 'sliceF':                       # non-contiguous window of a larger column-major array
        buf = np.zeros((2 * a.shape[0] + 1, 2 * a.shape[1] + 3), dtype=a.dtype, order='F')
        buf[1::2, 2::2][:a.shape[0], :a.shape[1]] = a
        out = buf[1::2, 2::2][:a.shape[0], :a.shape[1]]
    else:
        raise ValueError(kind)
    assert out.shape == a.shape and np.array_equal(out, a)
    return out


def lay(case, key):
    return (case.get('layout') or {}).get(key, 'C')


# ------------------------------------------------------------------ 2-D (num_eigens=None): capture, tie, oracle
ALL_2D = ['asls', 'airpls', 'arpls', 'iarpls', 'psalsa', 'brpls', 'lsrpls', 'iasls', 'drpls', 'aspls']
NO_EIGENS_ARG = ('iasls', 'drpls', 'aspls')
HEADER2 = HEADER.replace('C06.Model.', 'C06.Model C06.Model2D.')


class Capture2D:
    """Wraps scipy.sparse.linalg.spsolve as bound in pybaselines.two_d._whittaker_utils and the
    reweighting functions."""

    def __init__(self):
        self.calls = []
        self.reweights = []

    def __enter__(self):
        import pybaselines.two_d._whittaker_utils as wu
        import pybaselines._weighting as wt
        self.wu, self.wt = wu, wt
        self.saved = wu.spsolve
        self.saved_w = {k: getattr(wt, k) for k in WEIGHT_FUNCS}
        cap = self

        def spsolve(lhs, rhs, *a, **kw):
            rec = {'A': np.array(lhs.toarray(), dtype=float, copy=True), 'b': np.array(rhs, dtype=float, copy=True).ravel()}
            cap.calls.append(rec)
            rec['out'] = out = cap.saved(lhs, rhs, *a, **kw)
            return out

        wu.spsolve = spsolve
        for k in WEIGHT_FUNCS:
            def mk(f):
                def g(*a, **kw):
                    out = f(*a, **kw)
                    cap.reweights.append(out)
                    return out
                return g
            setattr(wt, k, mk(self.saved_w[k]))
        return self

    def __exit__(self, *exc):
        self.wu.spsolve = self.saved
        for k, v in self.saved_w.items():
            setattr(self.wt, k, v)
        return False


def run_method2d(meth_name, y2, **kw):
    from pybaselines import Baseline2D
    M, N = y2.shape
    perms = kw.pop('_perm', None)
    if perms is not None and (perms[0] is not None or perms[1] is not None):
        pr = np.arange(M) if perms[0] is None else perms[0]
        pc = np.arange(N) if perms[1] is None else perms[1]
        kw2 = {k: (np.asarray(v)[pr][:, pc] if k in PER_POINT and isinstance(v, np.ndarray) and v.shape == (M, N) else v)
               for k, v in kw.items()}
        kw2['_xz'] = (None if perms[0] is None else np.arange(M, dtype=float)[pr],
                      None if perms[1] is None else np.arange(N, dtype=float)[pc])
        base, par = run_method2d(meth_name, np.asarray(y2, dtype=float)[pr][:, pc], **kw2)
        par = dict(par)

        def back(a):
            out = np.empty_like(np.asarray(a))
            out[np.ix_(pr, pc)] = a
            return out
        for k in PER_POINT:
            if k in par and np.shape(par[k]) == (M, N):
                par[k] = back(par[k])
        return back(base), par
    xz = kw.pop('_xz', None)
    hist = kw.pop('_history', False)
    xs = np.arange(M, dtype=float) if xz is None or xz[0] is None else xz[0]
    zs = np.arange(N, dtype=float) if xz is None or xz[1] is None else xz[1]
    f = Baseline2D(xs, zs, check_finite=False, assume_sorted=xz is None)
    if meth_name not in NO_EIGENS_ARG:
        kw['num_eigens'] = None
    with warnings.catch_warnings():
        warnings.simplefilter('ignore')
        if hist:
            extra = {} if meth_name in NO_EIGENS_ARG else {'num_eigens': None}
            for bad in (dict(lam=(3.0, 2.0), diff_order=(2, 2)), dict(lam=-1.0), dict(weights=np.ones((M + 1, N)))):
                try:
                    getattr(f, meth_name)(np.ascontiguousarray(np.asarray(y2, dtype=float)[::-1]), **bad, **extra)
                except Exception:  # noqa
                    pass
        return getattr(f, meth_name)(np.asarray(y2, dtype=float), **kw)


def DtD_int(n, d):
    D = np.eye(n, dtype=np.int64)
    for _ in range(d):
        D = D[1:] - D[:-1]
    return D.T @ D


def doc2_parts(method, M, N, lam, d, extra, w, alpha):
    """Documented 2-D system as exact-integer Kronecker pieces: list of (coefficient, integer matrix)
    plus per-row scaling vectors; returns a function building it in a number type."""
    Pr = np.kron(DtD_int(M, d[0]), np.eye(N, dtype=np.int64))
    Pc = np.kron(np.eye(M, dtype=np.int64), DtD_int(N, d[1]))
    P1r = np.kron(DtD_int(M, 1), np.eye(N, dtype=np.int64))
    P1c = np.kron(np.eye(M, dtype=np.int64), DtD_int(N, 1))

    def build(conv):
        w_ = np.array([conv(v) for v in w], dtype=object)
        P = conv(lam[0]) * Pr.astype(object) + conv(lam[1]) * Pc.astype(object)
        if method == 'iasls':
            P1 = conv(extra[0]) * P1r.astype(object) + conv(extra[1]) * P1c.astype(object)
            return np.diag(w_ * w_) + P1 + P, ('iasls', np.diag(w_ * w_) + P1)
        if method == 'drpls':
            P1 = P1r.astype(object) + P1c.astype(object)
            return np.diag(w_) + P1 + (1 - conv(extra) * w_)[:, None] * P, ('wy', w_)
        if method == 'aspls':
            a_ = np.array([conv(v) for v in alpha], dtype=object)
            return np.diag(w_) + a_[:, None] * P, ('wy', w_)
        return np.diag(w_) + P, ('wy', w_)
    return build


def doc2_system(method, M, N, lam, d, extra, w, alpha, y, conv):
    A, (kind, X) = doc2_parts(method, M, N, lam, d, extra, w, alpha)(conv)
    y_ = np.array([conv(v) for v in y], dtype=object)
    b = X.dot(y_) if kind == 'iasls' else X * y_
    return A, b


METH2_CODE = {'iasls': 1, 'drpls': 2, 'aspls': 3}


def correspondence2d(ctx):
    rng = ctx.rng
    lits = []
    nbad = 0
    plan = []
    for method in ALL_2D:
        dpairs = [(2, 2), (2, 3), (3, 2)] if method in ('iasls', 'drpls') else [(1, 1), (1, 2), (2, 1), (2, 2), (3, 2), (2, 3)]
        if method in ('airpls', 'arpls', 'iarpls', 'psalsa', 'brpls', 'lsrpls'):
            dpairs = [rng.choice(dpairs)]
        for (dr, dc) in dpairs:
            for _ in range(ctx.n(2, 5)):
                M = rng.randint(dr + 2, dr + ctx.n(4, 6))
                N = rng.randint(dc + 2, dc + ctx.n(4, 6))
                if M == N:
                    N += 1
                plan.append((method, M, N, dr, dc))
    for (method, M, N, dr, dc) in plan:
        n = M * N
        lam = (2 ** rng.randint(0, 8), 2 ** rng.randint(0, 8))
        y = [rng.randint(-30, 30) for _ in range(n)]
        w = [rng.choice([1, 1, 2, 3, 0]) for _ in range(n)]
        for k in rng.sample(range(n), n // 2):
            w[k] = max(w[k], 1)
        extra, alpha = 0, None
        npass = 3 if method in ('asls', 'iasls') else 1
        kw = dict(lam=(float(lam[0]), float(lam[1])), diff_order=(dr, dc), weights=np.array(w, dtype=float).reshape(M, N),
                  max_iter=npass - 1, tol=-1.0)
        if method == 'iasls':
            l1 = 2 ** rng.randint(0, 4)
            extra = (l1, l1)
            kw.update(lam_1=float(l1), p=0.25)
        elif method == 'asls':
            kw['p'] = 0.25
        elif method == 'psalsa':
            kw['p'] = 0.25
        elif method == 'drpls':
            extra = rng.choice([0, 1, 1])
            kw['eta'] = float(extra)
            if extra:
                w = [min(v, 1) for v in w]
                kw['weights'] = np.array(w, dtype=float).reshape(M, N)
        elif method == 'aspls':
            alpha = [rng.choice([0, 1, 2, 3]) for _ in range(n)]
            kw['alpha'] = np.array(alpha, dtype=float).reshape(M, N)
        key = {'kind': 'capture2d', 'method': method, 'M': M, 'N': N, 'd': [dr, dc], 'lam': list(lam), 'extra': extra,
               'y': y, 'w': w, 'alpha': alpha,
               'kw': {k: (v.tolist() if isinstance(v, np.ndarray) else v) for k, v in kw.items()}}
        # memory layouts of the array arguments: enumerated by position in the plan (values unchanged)
        pi = len(lits) + nbad
        ly, lw = LAYOUT_PAIRS_2D[pi % len(LAYOUT_PAIRS_2D)] if pi % 2 else ('C', 'C')
        key['layout'] = {'y': ly, 'w': lw, 'a': ly}
        kw['weights'] = relayout(kw['weights'], lw)
        if 'alpha' in kw:
            kw['alpha'] = relayout(kw['alpha'], ly)
        with Capture2D() as cap:
            exc = None
            try:
                run_method2d(method, relayout(np.array(y, dtype=float).reshape(M, N), ly), **kw)
            except Exception as e:  # noqa
                exc = e
        ctx.case(('cap2d', method, M, N, dr, dc, lam, tuple(y), tuple(w)), nontrivial=True, kind=f'capture2d:{method}:d=({dr},{dc})')
        if not cap.calls:
            ctx.broke(f'correspondence:capture2d:{method}', f'no spsolve call captured ({type(exc).__name__}: {exc}) for {method} {M}x{N}')
            continue
        used = []
        for k, call in enumerate(cap.calls):
            if k == 0:
                wk = np.array(w, dtype=float)
            else:
                out = cap.reweights[k - 1] if k - 1 < len(cap.reweights) else None
                if out is None or method not in ('asls', 'iasls'):
                    break
                wk = np.asarray(out[0] if isinstance(out, tuple) else out, dtype=float).ravel()
            if dyadic_scale([wk], 16) is None:
                break
            used.append((call, wk))
        S = dyadic_scale([u[1] for u in used], 16) or 1
        S2 = S * S if method == 'iasls' else S
        plist, bad = [], None
        for k, (call, wk) in enumerate(used):
            Ai, bi = exact_ints(call['A'], S2), exact_ints(call['b'], S2)
            if Ai is None or bi is None or call['A'].shape != (n, n):
                bad = f'pass {k}: captured spsolve input is not exactly representable / has shape {call["A"].shape}'
                break
            Adoc, bdoc = doc2_system(method, M, N, lam, (dr, dc), extra, [Fraction(float(v)) for v in wk], alpha, y, Fraction)
            mism = [(p_, q_) for p_ in range(n) for q_ in range(n) if Fraction(Ai[p_][q_], S2) != Adoc[p_, q_]]
            if mism:
                p_, q_ = mism[0]
                bad = (f'pass {k}: the matrix reaching spsolve has entry ({p_},{q_}) [(i,j)=({p_ // N},{p_ % N}), '
                       f"(i',j')=({q_ // N},{q_ % N})] = {Fraction(Ai[p_][q_], S2)} but the documented Kronecker system has {Adoc[p_, q_]}")
                break
            mb = [p_ for p_ in range(n) if Fraction(bi[0][p_], S2) != bdoc[p_]]
            if mb:
                bad = f'pass {k}: right-hand side entry {mb[0]} = {Fraction(bi[0][mb[0]], S2)} but documented {bdoc[mb[0]]}'
                break
            plist.append({'w': [int(Fraction(float(v)) * S) for v in wk], 'A': Ai, 'b': bi[0]})
        if bad:
            nbad += 1
            ctx.fail(f'assembly2d:{method}', f'2-D {method} ({M}x{N}, diff_order=({dr},{dc}), lam={lam}, extra={extra}, data layout {ly}, weights layout {lw}): {bad}', key)
            continue
        code = METH2_CODE.get(method, 0)
        lr, lc = lam
        e1, e2 = (extra if isinstance(extra, tuple) else (extra, 0))
        if method == 'iasls':
            lr, lc, e1, e2 = lr * S2, lc * S2, e1 * S2, e2 * S2
        elif code == 0:
            lr, lc = lr * S, lc * S
        wl = '[' + '; '.join(zlist(p_['w']) for p_ in plist) + ']'
        exp = '[' + '; '.join(f'({zlist2(p_["A"])}, {zlist(p_["b"])})' for p_ in plist) + ']'
        lits.append(f'({code}, {M}%nat, {N}%nat, {zl(lr)}, {zl(lc)}, {zl(e1)}, {zl(e2)}, {dr}%nat, {dc}%nat, {wl}, '
                    f'{zlist(alpha or [])}, {zlist(y)}, {exp})')
    ctx.traces += len(lits)
    bad_any = False
    per = 12
    for k in range(0, len(lits), per):
        sh = lits[k:k + per]
        text = HEADER2 + """
Definition case_t := (Z * nat * nat * Z * Z * Z * Z * nat * nat * list (list Z) * list Z * list Z
                      * list (list (list Z) * list Z))%type.
Fixpoint all2 {A B} (f : A -> B -> bool) (x : list A) (y : list B) : bool :=
  match x, y with [] , [] => true | a :: x', b :: y' => f a b && all2 f x' y' | _, _ => false end.
Definition ok (c : case_t) : bool :=
  let '(m, M, N, lr, lc, e1, e2, dr, dc, wl, al, y, exp) := c in
  let n := Z.of_nat M * Z.of_nat N in
  let yf := of_list y in
  let wfs := map of_list wl in
  let calls :=
    if m =? 0 then asls2 M N lr lc dr dc wfs yf
    else if m =? 1 then iasls2 M N lr lc e1 e2 dr dc wfs yf
    else if m =? 2 then drpls2 M N lr lc e1 dr dc wfs yf
    else aspls2 M N lr lc dr dc (map (fun w => (w, of_list al)) wfs) yf in
  match calls with
  | None => false
  | Some cs =>
      all2 (fun k (e : list (list Z) * list Z) => zll_eqb (dense n (c2_lhs k)) (fst e) && zl_eqb (vec n (c2_rhs k)) (snd e)) cs exp
      && all2 (fun (w : list Z) (e : list (list Z) * list Z) =>
                 let wf := of_list w in
                 zll_eqb (dense n (if m =? 0 then doc2_asls M N lr lc dr dc wf
                                   else if m =? 1 then doc2_iasls M N lr lc e1 e2 dr dc wf
                                   else if m =? 2 then doc2_drpls M N lr lc e1 dr dc wf
                                   else doc2_aspls M N lr lc dr dc wf (of_list al))) (fst e)
                 && zl_eqb (vec n (if m =? 1 then doc2_iasls_rhs M N e1 e2 wf yf else mulv wf yf)) (snd e))
              wl exp
  end.
""" + f"""
Definition cases : list case_t := [
{chr(10).join('  ' + l + (';' if i + 1 < len(sh) else '') for i, l in enumerate(sh))}
].
Eval vm_compute in (bad ok cases).
"""
        vals = ctx.coq_eval(f'cap2d{k // per}', text)
        if vals is None:
            bad_any = True
        elif not vals or not (vals[0].startswith('(0%nat, [])') or vals[0].startswith('(0, [])')):
            bad_any = True
            ctx.broke(f'correspondence:capture2d-shard{k // per}',
                      f'2-D model/documented Kronecker system and captured spsolve input disagree: {vals}')
    ob = 'correspondence:captured-spsolve-inputs-2d(model matrix, documented Kronecker system)'
    ctx.obligations.append(ob)
    if not bad_any and not nbad:
        ctx.discharged.append(ob)
    return len(lits)


def oracle2d_case(case, K=2):
    """[(what, backward error, size, info)] for one 2-D case (num_eigens=None)."""
    method, M, N, d, lam, extra = case['method'], case['M'], case['N'], tuple(case['d']), tuple(case['lam']), case['extra']
    n = M * N
    y = np.array(case['y'], dtype=float)
    w0 = None if case['w0'] is None else np.array(case['w0'], dtype=float)
    a0 = None if case['a0'] is None else np.array(case['a0'], dtype=float)
    kw = dict(lam=lam, diff_order=d)
    if method == 'iasls':
        kw['lam_1'] = extra
    elif method == 'drpls':
        kw['eta'] = extra
    if a0 is not None:
        kw['alpha'] = relayout(a0.reshape(M, N), lay(case, 'a'))
    if w0 is not None:
        kw['weights'] = relayout(w0.reshape(M, N), lay(case, 'w'))
    y_in = relayout(y.reshape(M, N), lay(case, 'y'))
    if case.get('history'):
        kw['_history'] = True
    if case.get('xorder'):
        kw['_perm'] = (perm_of(case['xorder'][0], M, 1), perm_of(case['xorder'][1], N, 2))
    out = []

    def call(**more):
        try:
            with np.errstate(all='ignore'):
                return run_method2d(method, y_in, **kw, **more)
        except Exception:  # noqa
            return None

    def check(what, base, w, al, info):
        base, w = np.ravel(base), np.ravel(w)
        if not np.all(np.isfinite(base)) or not np.all(np.isfinite(w)) or (al is not None and not np.all(np.isfinite(al))):
            return
        ex = (extra, extra) if method == 'iasls' else extra
        A, b = doc2_system(method, M, N, lam, d, ex, w, None if al is None else np.ravel(al), y, LD)
        out.append((what, backward_error(A.astype(LD), base, b.astype(LD)), n, info))

    w_in = np.ones(n) if w0 is None else w0
    a_in = (np.ones(n) if a0 is None else a0) if method == 'aspls' else None
    if case['mode'] == 'traj':
        for k in range(K + 1):
            res = call(max_iter=k, tol=-1.0)
            if res is None:
                break
            base, par = res
            if len(np.atleast_1d(par['tol_history'])) < k + 1:
                check('returned-pair:early-exit', base, par['weights'], par.get('alpha'), f'max_iter={k}, tol=-1')
                break
            check(f'pass:{k}', base, w_in, a_in, f'max_iter={k}, tol=-1, pass {k}')
            w_in = np.ravel(par['weights']).astype(float)
            if method == 'aspls':
                a_in = np.ravel(par['alpha']).astype(float)
    elif case['mode'] == 'conv0':
        res = call(max_iter=3, tol=1e300)
        if res is not None:
            base, par = res
            if method != 'brpls' and len(np.atleast_1d(par['tol_history'])) == 1 and not np.array_equal(np.ravel(par['weights']), w_in):
                out.append(('returned-pair:converged-weights-changed', float('inf'), n, 'max_iter=3, tol=1e300'))
            check('returned-pair:converged', base, par['weights'], par.get('alpha'), 'max_iter=3, tol=1e300')
    else:
        mi = 20
        res = call(max_iter=mi, tol=1e-3)
        if res is not None:
            base, par = res
            hist = np.asarray(par['tol_history'], dtype=float)
            if method == 'brpls':
                check('returned-pair:brpls', base, par['weights'], None, f'max_iter={mi}, tol=1e-3')
            elif hist.ndim == 1 and (len(hist) < mi + 1 or (len(hist) and hist[-1] < 1e-3)):
                check('returned-pair:converged', base, par['weights'], par.get('alpha'), f'max_iter={mi}, tol=1e-3')
    return out


def oracle2d(ctx, budget, stats=None):
    rng = ctx.rng
    found = 0
    for run_i in range(ctx.n(500, 3000) * budget):
        method = ALL_2D[run_i % len(ALL_2D)]
        dr, dc = rng.choice([1, 2, 2, 3]), rng.choice([1, 2, 2, 3])
        if method in ('iasls', 'drpls'):
            dr, dc = max(dr, 2), max(dc, 2)
        big = ctx.tier == 'thorough' and rng.random() < 0.15
        M = rng.randint(dr + 2, (25 if big else dr + 7))
        N = rng.randint(dc + 2, (25 if big else dc + 7))
        if M == N and rng.random() < 0.8:
            N += 1
        lam = (10 ** rng.uniform(-2, 6), 10 ** rng.uniform(-2, 6))
        nrng = np.random.default_rng(rng.getrandbits(32))
        t1, t2 = np.meshgrid(np.linspace(0, 1, M), np.linspace(0, 1, N), indexing='ij')
        y = (2 + 3 * t1 + 2 * t2 + t1 * t2 + 20 * np.exp(-0.5 * (((t1 - 0.5) / 0.15) ** 2 + ((t2 - 0.4) / 0.2) ** 2))
             + nrng.normal(0, 0.2, (M, N))).ravel()
        if rng.random() < 0.25:
            y = y * rng.choice([1e-3, 1e3])
        w0 = nrng.uniform(0.05, 1.0, M * N) if rng.random() < 0.6 else None
        extra, a0 = 0, None
        if method == 'iasls':
            extra = 10 ** rng.uniform(-5, 1)
            if w0 is None:
                w0 = np.ones(M * N)
        elif method == 'drpls':
            extra = rng.choice([0.0, 0.25, 0.5, 1.0])
        elif method == 'aspls' and rng.random() < 0.4:
            a0 = nrng.uniform(0.1, 1.0, M * N)
        mode = rng.choice(['traj', 'traj', 'conv0', 'default'])
        if method == 'brpls' and mode == 'traj':
            mode = 'conv0'
        case = {'kind': 'oracle2d', 'method': method, 'M': M, 'N': N, 'd': [dr, dc], 'lam': list(lam), 'extra': extra,
                'y': [float(v) for v in y], 'w0': None if w0 is None else [float(v) for v in w0],
                'a0': None if a0 is None else [float(v) for v in a0], 'mode': mode,
                'layout': {'y': rng.choice(LAYOUTS_2D), 'w': rng.choice(LAYOUTS_2D), 'a': rng.choice(LAYOUTS_2D)},
                'history': rng.random() < 0.2}
        checks = oracle2d_case(case)
        ctx.case(('oracle2d', method, M, N, dr, dc, mode, run_i), nontrivial=len(checks) > 0, kind=f'oracle2d:{method}:{mode}')
        for (what, eta, nn, info) in checks:
            bound = BOUND_C * nn * EPS
            if stats is not None:
                stats.append((eta / (nn * EPS), method, M, N, dr, dc, lam, what))
            if not (eta <= bound):
                found += 1
                c = dict(case)
                c['what'] = what
                ctx.fail(f'residual2d:{method}:{what if what.startswith("returned-pair") else "pass"}',
                         f'2-D {method} ({M}x{N}, diff_order=({dr},{dc}), lam=({lam[0]:.3g},{lam[1]:.3g}), num_eigens=None, {info}): '
                         f'{what}: normwise backward error {eta:.3e} > {BOUND_C}*MN*eps = {bound:.3e}', c)
    return found


# ------------------------------------------------------------------ 2-D eigendecomposition path (num_eigens set): oracle
EIGEN_2D = ['asls', 'airpls', 'arpls', 'iarpls', 'psalsa', 'brpls', 'lsrpls']
EIG_TOL = 3.0e-9        # normwise backward error of the reduced system; unchanged tree <= 1.2e-10 over 800 thorough runs
EIG_SPAN_TOL = 1.0e-2   # distance from span(U_r (x) U_c); unchanged tree <= 9e-5 (d=4 on a 260-point axis)
EIG_TERM_C = 32.0       # |lam Sigma (impl) - lam Sigma (independent)| <= C eps (lam_r 4^d_r + lam_c 4^d_c); unchanged <= 0.5
_EIG_CACHE = {}


def indep_basis(n, d, g):
    """Independent dense eigensolver: orthonormal basis of the g smallest eigenvectors of D'D
    (D = np.diff(np.eye(n), d, axis=0)) and the exact projected penalty U'(D'D)U = (DU)'(DU)."""
    key = (n, d)
    if key not in _EIG_CACHE:
        # through the SVD of D itself (not of D'D): the small eigenvalues sigma^2 keep their relative accuracy
        D = np.diff(np.eye(n), d, axis=0)
        _, sv, Vt = np.linalg.svd(D, full_matrices=True)
        order = np.concatenate((np.arange(n - d, n), np.arange(n - d - 1, -1, -1)))   # null space first, then ascending
        vecs = Vt[order].T
        vals = np.concatenate((np.zeros(d), sv[::-1] ** 2))
        if len(_EIG_CACHE) > 60:
            _EIG_CACHE.clear()
        _EIG_CACHE[key] = (vecs, vals, D)
    vecs, vals, D = _EIG_CACHE[key]
    U = vecs[:, :g]
    DU = D @ U
    return U, DU.T @ DU, vals


def eigen_case(case):
    """Single solve (max_iter=0, tol=inf, user weights) of a 2-D method with num_eigens set, certified against
    the documented reduced system written rotation-invariantly as the Galerkin system on span(U_r (x) U_c):
        B'(W + lam_r D_r'D_r (x) I + lam_c I (x) D_c'D_c) B c = B' W y,   baseline = B c,
    (= (B'WB + lam_r Sigma_r (x) I + lam_c I (x) Sigma_c) c = B'W y for exact eigenvectors).
    Certificate: normwise backward error of c = B'v in that system, and the distance of v from span(B).
    Returns (max of the two, info) or None."""
    method, M, N = case['method'], case['M'], case['N']
    d, lam, g = tuple(case['d']), tuple(case['lam']), tuple(case['num_eigens'])
    y = np.array(case['y'], dtype=float).reshape(M, N)
    w = np.array(case['w0'], dtype=float).reshape(M, N)
    from pybaselines import Baseline2D
    xo = case.get('xorder') or [None, None]
    pr, pc = perm_of(xo[0], M, 1), perm_of(xo[1], N, 2)
    pr_ = np.arange(M) if pr is None else pr
    pc_ = np.arange(N) if pc is None else pc
    permuted = pr is not None or pc is not None
    f = Baseline2D(np.arange(M, dtype=float)[pr_], np.arange(N, dtype=float)[pc_], check_finite=False,
                   assume_sorted=not permuted)
    kw = dict(lam=lam, diff_order=d, weights=relayout(w[pr_][:, pc_], lay(case, 'w')), max_iter=0, tol=np.inf)
    y_in = relayout(y[pr_][:, pc_], lay(case, 'y'))
    if not case.get('default_eigens'):
        kw['num_eigens'] = int(g[0]) if case.get('scalar_eigens') and g[0] == g[1] else g
    import pybaselines.two_d._whittaker_utils as wu
    seen = []
    orig_solve = wu.WhittakerSystem2D.solve

    def spy(self_, *a, **k):
        if self_._using_svd:
            seen.append((np.array(self_.penalty, dtype=float, copy=True), tuple(int(v) for v in self_._num_bases)))
        return orig_solve(self_, *a, **k)

    wu.WhittakerSystem2D.solve = spy
    try:
        with warnings.catch_warnings(), np.errstate(all='ignore'):
            warnings.simplefilter('ignore')
            base, par = getattr(f, method)(y_in, **kw)
    except Exception:  # noqa
        return None
    finally:
        wu.WhittakerSystem2D.solve = orig_solve
    if permuted:                                   # back to the sorted frame of the documented system
        tmp = np.empty_like(base)
        tmp[np.ix_(pr_, pc_)] = base
        base = tmp
    if not np.all(np.isfinite(base)):
        return None
    Ur, Sr, vr = indep_basis(M, d[0], g[0])
    Uc, Sc, vc = indep_basis(N, d[1], g[1])
    # a truncation inside a cluster of (numerically) equal eigenvalues would make the subspace ill-defined
    for vals, gg, dd in ((vr, g[0], d[0]), (vc, g[1], d[1])):
        if gg < len(vals) and (gg <= dd or vals[gg] - vals[gg - 1] <= 1e-6 * vals[gg]):
            return None
    gr, gc = g
    # B'WB through the Kronecker structure: F[(a,b),(a',b')] = sum_ij Ur[i,a] Ur[i,a'] W[i,j] Uc[j,b] Uc[j,b']
    F = np.einsum('ia,ic,ij,jb,jd->abcd', Ur, Ur, w, Uc, Uc, optimize=True).reshape(gr * gc, gr * gc)
    Pen = lam[0] * np.kron(Sr, np.eye(gc)) + lam[1] * np.kron(np.eye(gr), Sc)
    rhs = (Ur.T @ (w * y) @ Uc).ravel()
    A = F + Pen
    c = (Ur.T @ base @ Uc).ravel()                      # coordinates of the returned baseline in the independent basis
    back = Ur @ c.reshape(gr, gc) @ Uc.T
    scale = np.abs(base).max()
    if scale == 0:
        return None
    span = float(np.abs(base - back).max() / scale)      # the baseline must lie in span(U_r (x) U_c)
    r = A @ c - rhs
    den = np.abs(A).sum(axis=1).max() * np.abs(c).max() + np.abs(rhs).max()
    eta = float(np.abs(r).max() / den) if den > 0 else 0.0
    rowden = np.abs(A) @ np.abs(c) + np.abs(rhs)
    case['_cw'] = float((np.abs(r) / np.where(rowden > 0, rowden, 1)).max())
    # the lam * Sigma term of the documented reduced system, as the implementation holds it at the solve
    term = 0.0
    if seen and seen[0][1] == (gr, gc) and seen[0][0].shape == (gr * gc,):
        doc_pen = np.repeat(lam[0] * vr[:gr], gc) + np.tile(lam[1] * vc[:gc], gr)
        tol_pen = EIG_TERM_C * EPS * (lam[0] * 4.0 ** d[0] + lam[1] * 4.0 ** d[1])
        term = float(np.abs(seen[0][0] - doc_pen).max() / tol_pen)
    elif seen:
        term = float('inf')
    case['_parts'] = (eta, span, term)
    verdict = max(eta / EIG_TOL, span / EIG_SPAN_TOL, term)
    return verdict, (f'num_eigens={"default" if case.get("default_eigens") else g}, backward error {eta:.2e} (limit {EIG_TOL:g}), '
                     f'out-of-span {span:.2e} (limit {EIG_SPAN_TOL:g}), '
                     f'eigenvalue-term error {term:.2f} x its limit {EIG_TERM_C}*eps*(lam_r 4^d_r + lam_c 4^d_c)')


def oracle2d_eigen(ctx, budget, stats=None):
    rng = ctx.rng
    found = 0
    long_axes = {2: ctx.n([1600], [700, 1600, 2000]), 3: ctx.n([320], [320, 500]), 4: ctx.n([200], [200, 260])}
    for run_i in range(ctx.n(120, 600) * budget):
        method = EIGEN_2D[run_i % len(EIGEN_2D)]
        kind = rng.choice(['small', 'small', 'long', 'long', 'default'])
        dr, dc = rng.choice([1, 2, 2, 3]), rng.choice([1, 2, 2, 3])
        default = False
        if kind == 'long':
            dl = rng.choice([2, 3, 3, 4])
            L, S_ = rng.choice(long_axes[dl]), rng.randint(6, 10)
            ds = rng.choice([1, 2])
            if rng.random() < 0.5:
                M, N, dr, dc = L, S_, dl, ds
            else:
                M, N, dr, dc = S_, L, ds, dl
            g = (rng.randint(dr + 2, 12), rng.randint(dc + 1, min(N, 6))) if M == L else (rng.randint(dr + 1, min(M, 6)), rng.randint(dc + 2, 12))
            lam = [10 ** rng.uniform(4, 8), 10 ** rng.uniform(4, 8)]
        elif kind == 'default':
            M, N = rng.randint(12, 40), rng.randint(12, 40)
            g, default = (10, 10), True
            lam = [10 ** rng.uniform(-1, 7), 10 ** rng.uniform(-1, 7)]
        else:
            M, N = rng.randint(dr + 3, 30), rng.randint(dc + 3, 30)
            g = (rng.randint(dr + 1, min(M, 12)), rng.randint(dc + 1, min(N, 12)))
            lam = [10 ** rng.uniform(-1, 8), 10 ** rng.uniform(-1, 8)]
        nrng = np.random.default_rng(rng.getrandbits(32))
        t1, t2 = np.meshgrid(np.linspace(0, 1, M), np.linspace(0, 1, N), indexing='ij')
        y = (2 + 3 * t1 + 2 * t2 + t1 * t2 + 20 * np.exp(-0.5 * (((t1 - 0.5) / 0.15) ** 2 + ((t2 - 0.4) / 0.2) ** 2))
             + nrng.normal(0, 0.2, (M, N)))
        w = nrng.uniform(0.1, 1.0, (M, N))
        case = {'kind': 'eigen2d', 'method': method, 'M': M, 'N': N, 'd': [dr, dc], 'lam': lam, 'num_eigens': list(g),
                'default_eigens': default, 'y': [float(v) for v in y.ravel()], 'w0': [float(v) for v in w.ravel()],
                'layout': {'y': rng.choice(LAYOUTS_2D), 'w': rng.choice(LAYOUTS_2D)}}
        res = eigen_case(case)
        ctx.case(('eigen2d', method, M, N, dr, dc, tuple(g), run_i), nontrivial=res is not None,
                 kind=f'oracle2d-eigen:{kind}:{"checked" if res is not None else "skipped"}')
        if res is None:
            continue
        rel, info = res
        if stats is not None:
            stats.append((rel, method, M, N, dr, dc, tuple(g), lam, kind))
        if not (rel <= 1.0):
            found += 1
            small = {k: v for k, v in case.items() if k not in ('y', 'w0')} if M * N > 4000 else case
            small = dict(small, seed_note='data regenerated from VERIF_SEED when omitted')
            ctx.fail(f'eigen2d:{method}:{"long-axis" if kind == "long" else "grid"}',
                     f'2-D {method} ({M}x{N}, diff_order=({dr},{dc}), lam=({lam[0]:.3g},{lam[1]:.3g}), {info}, max_iter=0): the returned '
                     f'baseline does not solve the documented reduced (eigen-basis) system (worst ratio to its limit {rel:.3g})', small)
    return found


# ------------------------------------------------------------------ fixed, enumerated grid (before any random draw)
LAYOUT_PAIRS_2D = [('F', 'C'), ('T', 'F'), ('C', 'F'), ('neg', 'negF'), ('negF', 'T'), ('slice', 'sliceF'), ('sliceF', 'neg')]
LAYOUT_PAIRS_1D = [('neg', 'slice'), ('slice', 'neg'), ('neg', 'C')]


def fixed_data2d(M, N, k):
    nrng = np.random.default_rng(1000 + 31 * M + 7 * N + k)
    t1, t2 = np.meshgrid(np.linspace(0, 1, M), np.linspace(0, 1, N), indexing='ij')
    y = (2 + 3 * t1 - 2 * t2 + 4 * t1 * t2 ** 2 + 15 * np.exp(-0.5 * (((t1 - 0.3) / 0.15) ** 2 + ((t2 - 0.6) / 0.2) ** 2))
         + nrng.normal(0, 0.2, (M, N)))
    return y, nrng.uniform(0.1, 1.0, (M, N)), nrng.uniform(0.2, 1.0, (M, N))


def report_checks(ctx, prefix, label, checks, case, n_name='N'):
    bad = 0
    for (what, eta, nn, info) in checks:
        bound = BOUND_C * nn * EPS
        if not (eta <= bound):
            bad += 1
            c = dict(case)
            c['what'] = what
            ctx.fail(f'{prefix}:{what if what.startswith("returned-pair") else "pass"}',
                     f'{label} ({info}): {what}: normwise backward error {eta:.3e} > {BOUND_C}*{n_name}*eps = {bound:.3e}', c)
    return bad


def enumerated_grid(ctx):
    """Memory layouts of data / weights / alpha, objects with a history of rejected calls, extreme magnitudes:
    a fixed grid, the same for every seed."""
    found = 0
    # 2-D full-system path: every method x every layout pair
    for mi, method in enumerate(ALL_2D):
        for li, (ly, lw) in enumerate(LAYOUT_PAIRS_2D):
            M, N = [(5, 7), (7, 4), (6, 9)][(mi + li) % 3]
            d = [2, 2] if method in ('iasls', 'drpls') else [[1, 2], [2, 1], [2, 3]][(mi + li) % 3]
            y, w, al = fixed_data2d(M, N, li)
            extra = {'iasls': 0.01, 'drpls': 0.5}.get(method, 0)
            case = {'kind': 'oracle2d', 'method': method, 'M': M, 'N': N, 'd': d, 'lam': [10.0, 1000.0], 'extra': extra,
                    'y': [float(v) for v in y.ravel()], 'w0': [float(v) for v in w.ravel()],
                    'a0': [float(v) for v in al.ravel()] if method == 'aspls' else None,
                    'mode': 'conv0' if method == 'brpls' else 'traj', 'layout': {'y': ly, 'w': lw, 'a': ly},
                    'history': li % 3 == 0}
            checks = oracle2d_case(case)
            ctx.case(('grid2d', method, ly, lw), nontrivial=len(checks) > 0, kind=f'grid2d:layout:{ly}/{lw}')
            found += report_checks(ctx, f'residual2d:{method}', f'2-D {method} ({M}x{N}, diff_order={tuple(d)}, num_eigens=None, '
                                   f'data layout {ly}, weights layout {lw}, history={case["history"]})', checks, case, 'MN')
    # 2-D eigendecomposition path
    for mi, method in enumerate(EIGEN_2D):
        for li, (ly, lw) in enumerate(LAYOUT_PAIRS_2D):
            M, N = [(14, 17), (16, 12)][(mi + li) % 2]
            y, w, _ = fixed_data2d(M, N, li)
            case = {'kind': 'eigen2d', 'method': method, 'M': M, 'N': N, 'd': [2, 1], 'lam': [100.0, 1.0e4],
                    'num_eigens': [10, 10] if li == 0 else [5, 4], 'default_eigens': li == 0,
                    'y': [float(v) for v in y.ravel()], 'w0': [float(v) for v in w.ravel()], 'layout': {'y': ly, 'w': lw}}
            res = eigen_case(case)
            ctx.case(('grid-eigen2d', method, ly, lw), nontrivial=res is not None, kind=f'grid2d-eigen:layout:{ly}/{lw}')
            if res is not None and not (res[0] <= 1.0):
                found += 1
                ctx.fail(f'eigen2d:{method}:grid', f'2-D {method} ({M}x{N}, data layout {ly}, weights layout {lw}, {res[1]}): the returned '
                         f'baseline does not solve the documented reduced (eigen-basis) system (worst ratio to its limit {res[0]:.3g})', case)
    # 1-D: layouts, history, magnitudes
    for mi, method in enumerate(ALL_1D):
        for li, (ly, lw) in enumerate(LAYOUT_PAIRS_1D):
            N, d = [(9, 2), (14, 3), (23, 2)][(mi + li) % 3]
            nrng = np.random.default_rng(500 + 13 * mi + li)
            t = np.linspace(0, 1, N)
            y = (5 + 10 * t + 3 * np.sin(3 * t) + 30 * np.exp(-0.5 * ((t - 0.4) / 0.08) ** 2) + nrng.normal(0, 0.5, N))
            y = y * [1.0, 1e-100, 1e100][li]
            case = {'kind': 'oracle', 'method': method, 'N': N, 'd': d, 'lam': 100.0, 'bs': 1 + (mi + li) % 4, 'hp': li == 0,
                    'extra': {'iasls': 0.01, 'drpls': 0.5}.get(method, 0), 'y': [float(v) for v in y],
                    'w0': [float(v) for v in nrng.uniform(0.1, 1.0, N)],
                    'a0': [float(v) for v in nrng.uniform(0.2, 1.0, N)] if method == 'aspls' else None,
                    'mode': 'conv0' if method == 'brpls' else 'traj', 'layout': {'y': ly, 'w': lw, 'a': ly}, 'history': li == 1}
            checks = run_oracle_case(case)
            ctx.case(('grid1d', method, ly, lw), nontrivial=len(checks) > 0, kind=f'grid1d:layout:{ly}/{lw}')
            found += report_checks(ctx, f'residual:{method}', f'{method} (N={N}, diff_order={d}, data layout {ly}, weights layout {lw}, '
                                   f'scale {[1.0, 1e-100, 1e100][li]:g}, history={case["history"]})', checks, case)
    # order of the supplied points: the documented system is stated for the data as supplied, so user weights /
    # alpha belong to the data points they were supplied with, whatever the order of x (reversal is an involution
    # and hides inverse-permutation mistakes; rolled and shuffled orders do not)
    for mi, method in enumerate(ALL_1D):
        for xi, xo in enumerate(XORDERS[1:]):
            N, d = [(11, 2), (14, 3), (17, 2)][(mi + xi) % 3]
            nrng = np.random.default_rng(700 + 13 * mi + xi)
            y = make_y1(nrng, N)
            case = {'kind': 'oracle', 'method': method, 'N': N, 'd': d, 'lam': 30.0, 'bs': 1 + (mi + xi) % 4, 'hp': xi == 0,
                    'extra': {'iasls': 0.01, 'drpls': 0.5}.get(method, 0), 'y': [float(v) for v in y],
                    'w0': [float(v) for v in nrng.uniform(0.1, 1.0, N)],
                    'a0': [float(v) for v in nrng.uniform(0.1, 1.0, N)] if method == 'aspls' else None,
                    'mode': 'conv0' if method == 'brpls' else 'traj', 'xorder': xo}
            checks = run_oracle_case(case)
            ctx.case(('grid1d-order', method, xo), nontrivial=len(checks) > 0, kind=f'grid1d:xorder:{xo}')
            found += report_checks(ctx, f'residual:{method}', f'{method} (N={N}, diff_order={d}, x supplied {xo}, user weights'
                                   f'{" and alpha" if method == "aspls" else ""})', checks, case)
    for mi, method in enumerate(['mpls', 'fabc']):
        for xi, xo in enumerate(XORDERS):
            N = 40 + 3 * xi
            nrng = np.random.default_rng(800 + 13 * mi + xi)
            y = make_y1(nrng, N)
            kw = {'lam': 200.0, 'diff_order': 2, 'weights': [float(v) for v in nrng.uniform(0.1, 2.0, N)]}
            kw.update({'half_window': 3} if method == 'mpls' else {'weights_as_mask': True})
            case = {'kind': 'single', 'method': method, 'N': N, 'd': 2, 'lam': 200.0, 'bs': 1 + xi, 'hp': False,
                    'y': [float(v) for v in y], 'kw': kw, 'xorder': xo}
            res = single_case(case)
            ctx.case(('grid-single-order', method, xo), nontrivial=len(res) > 0, kind=f'grid1d:{method}:xorder:{xo}')
            for what, msg in res:
                if msg is not None:
                    found += 1
                    ctx.fail(f'single:{method}:{what}', f'{method} (N={N}, x supplied {xo}, user weights): {msg}', case)
    combos = [('rolled', None), (None, 'shuffled'), ('shuffled', 'rolled'), ('reversed', 'reversed')]
    for mi, method in enumerate(ALL_2D):
        for ci, xo in enumerate(combos):
            M, N = [(5, 7), (7, 5), (6, 8)][(mi + ci) % 3]
            d = [2, 2] if method in ('iasls', 'drpls') else [[1, 2], [2, 1], [2, 2]][(mi + ci) % 3]
            y, w, al = fixed_data2d(M, N, 10 + ci)
            case = {'kind': 'oracle2d', 'method': method, 'M': M, 'N': N, 'd': d, 'lam': [10.0, 300.0],
                    'extra': {'iasls': 0.01, 'drpls': 0.5}.get(method, 0),
                    'y': [float(v) for v in y.ravel()], 'w0': [float(v) for v in w.ravel()],
                    'a0': [float(v) for v in al.ravel()] if method == 'aspls' else None,
                    'mode': 'conv0' if method == 'brpls' else 'traj', 'xorder': list(xo)}
            checks = oracle2d_case(case)
            ctx.case(('grid2d-order', method, xo), nontrivial=len(checks) > 0, kind=f'grid2d:xorder:{xo[0]}/{xo[1]}')
            found += report_checks(ctx, f'residual2d:{method}', f'2-D {method} ({M}x{N}, diff_order={tuple(d)}, num_eigens=None, '
                                   f'x supplied {xo[0] or "sorted"}, z supplied {xo[1] or "sorted"}, user weights)', checks, case, 'MN')
    for mi, method in enumerate(EIGEN_2D):
        for ci, xo in enumerate(combos[:3]):
            M, N = [(14, 17), (16, 12)][(mi + ci) % 2]
            y, w, _ = fixed_data2d(M, N, 20 + ci)
            case = {'kind': 'eigen2d', 'method': method, 'M': M, 'N': N, 'd': [2, 1], 'lam': [100.0, 1.0e4],
                    'num_eigens': [5, 4], 'default_eigens': False, 'y': [float(v) for v in y.ravel()],
                    'w0': [float(v) for v in w.ravel()], 'xorder': list(xo)}
            res = eigen_case(case)
            ctx.case(('grid-eigen2d-order', method, xo), nontrivial=res is not None, kind=f'grid2d-eigen:xorder:{xo[0]}/{xo[1]}')
            if res is not None and not (res[0] <= 1.0):
                found += 1
                ctx.fail(f'eigen2d:{method}:grid', f'2-D {method} ({M}x{N}, x supplied {xo[0] or "sorted"}, z supplied {xo[1] or "sorted"}, '
                         f'{res[1]}): the returned baseline does not solve the documented reduced system (ratio {res[0]:.3g})', case)
    # eigen path: the per-axis decompositions.  Each axis' eigenpairs are determined by (points, diff_order, num_eigens)
    # of THAT axis; the cell square x unequal diff_order x equal num_eigens is where a shared decomposition is wrong
    for mi, method in enumerate(EIGEN_2D):
        for square in (True, False):
            for deq in (True, False):
                for geq in (True, False):
                    M, N = (16, 16) if square else [(16, 13), (12, 17)][mi % 2]
                    d = [2, 2] if deq else [[2, 1], [1, 3], [3, 2]][mi % 3]
                    g = [6, 6] if geq else [[6, 4], [5, 7]][mi % 2]
                    y, w, _ = fixed_data2d(M, N, 30 + mi)
                    case = {'kind': 'eigen2d', 'method': method, 'M': M, 'N': N, 'd': d, 'lam': [50.0, 2.0e3],
                            'num_eigens': g, 'default_eigens': False, 'scalar_eigens': geq and mi % 2 == 0,
                            'y': [float(v) for v in y.ravel()], 'w0': [float(v) for v in w.ravel()]}
                    res = eigen_case(case)
                    cell = f'{"square" if square else "non-square"}/{"d-equal" if deq else "d-unequal"}/{"g-equal" if geq else "g-unequal"}'
                    ctx.case(('grid-eigen2d-axes', method, cell), nontrivial=res is not None, kind=f'grid2d-eigen:axes:{cell}')
                    if res is None:
                        found += 1
                        ctx.fail(f'eigen2d:{method}:axes-no-result', f'2-D {method} ({M}x{N}, diff_order={tuple(d)}, num_eigens={tuple(g)}): '
                                 'no certificate could be evaluated (raised / non-finite) on a plain well-posed grid cell', case)
                    elif not (res[0] <= 1.0):
                        found += 1
                        ctx.fail(f'eigen2d:{method}:axes', f'2-D {method} ({M}x{N} {cell}, diff_order={tuple(d)}, {res[1]}): the returned baseline '
                                 f'does not solve the documented reduced system of its own per-axis eigenpairs (ratio {res[0]:.3g})', case)
    for li, (ly, lw) in enumerate(LAYOUT_PAIRS_1D):
        nrng = np.random.default_rng(77 + li)
        N, d = 12 + li, 1 + li
        y = make_y1(nrng, N)
        case = {'kind': 'single', 'method': 'whittaker_smooth', 'N': N, 'd': d, 'lam': 50.0, 'bs': 1, 'hp': li == 0,
                'y': [float(v) for v in y], 'layout': {'y': ly, 'w': lw},
                'kw': {'lam': 50.0, 'diff_order': d, 'weights': [float(v) for v in nrng.uniform(0.0, 3.0, N)]}}
        res = single_case(case)
        ctx.case(('grid-ws', ly, lw), nontrivial=len(res) > 0, kind=f'grid1d:whittaker_smooth:{ly}/{lw}')
        for what, msg in res:
            if msg is not None:
                found += 1
                ctx.fail(f'single:whittaker_smooth:{what}', f'whittaker_smooth (N={N}, data layout {ly}, weights layout {lw}): {msg}', case)
    return found


def make_y1(nrng, N):
    t = np.linspace(0, 1, N)
    return 5 + 10 * t + 30 * np.exp(-0.5 * ((t - 0.4) / 0.08) ** 2) + nrng.normal(0, 0.5, N)


BRPLS_KEY = 'returned-pair:brpls:first-pass-early-exit-returns-data'
BRPLS_WITNESS = {'kind': 'oracle', 'method': 'brpls', 'N': 3, 'd': 1, 'lam': 100.0, 'bs': 2, 'hp': False, 'extra': 0,
                 'y': [5.17478765233889, 25.080956802604167, 15.066639056671212], 'w0': None, 'a0': None,
                 'mode': 'default'}


def brpls_returns_data(case):
    """brpls whose very first reweighting exits early returns the input data as the baseline."""
    if case['method'] != 'brpls':
        return False
    y = np.array(case['y'], dtype=float)
    kw = dict(lam=case['lam'], diff_order=case['d'])
    if case['w0'] is not None:
        kw['weights'] = np.array(case['w0'], dtype=float)
    if case['mode'] == 'conv0':
        kw.update(max_iter=3, tol=1e300)
    else:
        kw.update(max_iter=30, tol=1e-3)
    try:
        base, par = run_method('brpls', y, case['bs'], **kw)
    except Exception:  # noqa
        return False
    return bool(np.array_equal(base, y))


def run(ctx):
    ctx.rule = ('correspondence cases: one captured run per (method, N, diff_order, banded_solver, pentapy on/off) with random '
                'integer data, integer weights 0-3, lam = 2^k, lam_1 = 2^k, eta in {0,1}, integer alpha; 3 passes for asls/iasls '
                '(p = 1/4, dyadic weights scaled exactly), 1 pass otherwise; distinct = distinct (settings, data, weights); '
                'oracle cases: random real data/weights/lam over ten decades, N from d+2, counted non-trivial when at least one '
                'residual certificate was evaluated')
    ctx.trusted += [
        'pentapy / scipy.linalg.solveh_banded / solve_banded: Section variable `solver` with the contract '
        '"output solves the banded system it was handed" (C06_returned_pair); their backward error is sampled by the oracle, not proved',
        'storage conventions of the three entry points as written in C06/Model.v `den` (checked on every captured call against '
        "an independent densifier: pentapy.tools.create_full / scipy's documented ab[u+i-j, j])",
        'C11 general path of diff_penalty_diagonals (scipy.sparse D.T@D, d>3 or N<2d+1) modelled as the specification',
        'integer model: theorems are over Z (ring identities); float rounding of the assembly for non-dyadic inputs is outside the proof',
        'reweighting rules and the loop skeleton are C09/C01; here the loop is lib/Loop.v with abstract reweight/diff/below',
    ]
    ctx.gate()
    for gen_name in ('GenBands', 'GenC06Vec', 'GenC06Order', 'GenC06EigShare'):
        ctx.translate([gen_name])     # one at a time: a refusal must not be attributed to the other generators
    ok = ctx.build_props()
    ncap = correspondence(ctx)
    ncap2 = correspondence2d(ctx)
    budget = 1 if (ok and not ctx.broken and not ctx.violations) else 4
    # regression case (repaired in /repo by 694cbb3): brpls whose first reweighting exits early must return
    # the fitted baseline, not the input data; checked like any other oracle case, keyed as before
    ctx.case(('oracle-regression', 'brpls', 'first-pass-early-exit'), nontrivial=True, kind='oracle:brpls:regression')
    if brpls_returns_data(BRPLS_WITNESS):
        ctx.fail(BRPLS_KEY, 'brpls returns the input data itself as the baseline when the first reweighting exits early '
                 '(N=3, diff_order=1): the returned baseline solves no system', BRPLS_WITNESS)
    for (what, eta, Nn, info) in run_oracle_case(BRPLS_WITNESS):
        if not (eta <= BOUND_C * Nn * EPS):
            ctx.fail(BRPLS_KEY, f'brpls regression witness (N=3, diff_order=1, {info}): {what}: normwise backward error '
                     f'{eta:.3e}', BRPLS_WITNESS)
    found = enumerated_grid(ctx)
    found += oracle_runs(ctx, budget)
    found += oracle_single(ctx, budget)
    found += oracle2d(ctx, budget)
    found += oracle2d_eigen(ctx, budget)
    ctx.note(f'{ncap} 1-D and {ncap2} 2-D captured runs compared exactly inside Coq; residual-certificate oracle budget x{budget}: {found} failing checks; '
             'utils.whittaker_smooth: theorem + exact tie + residual oracle; mpls/fabc(weights_as_mask)/rubberband/peak_filling: exact tie through the '
             'asls model with the reported weights/mask + captured-call oracle; custom_bc(lam)/jbcd: captured-call oracle only (lhs entrywise, '
             'solver residual, returned array = solver output; their right-hand sides are not re-derived); '
             '2-D: num_eigens=None path of all ten methods (theorems, exact spsolve-input tie on small grids, residual oracle); '
             '2-D eigendecomposition path (num_eigens set): oracle only (reduced-system backward error, span, lam*Sigma term vs an independent SVD-based eigensolver, long axes); '
             'fixed enumerated grid first (every method x memory layouts F/T/neg/negF/slice/sliceF of data, weights, alpha on both 2-D paths and 1-D; fitter objects with a history of rejected calls; data scaled by 1e-100 / 1e100), random layouts on top; x / z supplied sorted, reversed, rolled and shuffled with user weights (and alpha) for every Whittaker host, certificate in the frame of the supplied data; eigen path cells {square, non-square} x {equal, unequal diff_order} x {equal, unequal / scalar num_eigens} for every eigen-capable host; '
             'NOT covered: non-integer eta in the Coq tie (eta=1/4,1/2 only through the oracle), '
             'passes >= 2 of methods other than asls/iasls in the Coq tie (non-dyadic weights; covered by the oracle)')


def replay(rep):
    case = rep.get('case') or {}
    kind = case.get('kind')
    if kind == 'oracle':
        if brpls_returns_data(case):
            print('replay oracle: brpls returned the input data as baseline')
            return 1
        bad = [(w, e) for (w, e, n, _) in run_oracle_case(case) if not (e <= BOUND_C * n * EPS)]
        print('replay oracle:', bad or 'property holds on this input')
        return 1 if bad else 0
    if kind == 'capture2d':
        M, N, d = case['M'], case['N'], tuple(case['d'])
        kw = {k: (np.array(v, dtype=float) if isinstance(v, list) and k in ('weights', 'alpha') else
                  (tuple(v) if isinstance(v, list) else v)) for k, v in case['kw'].items()}
        kw['max_iter'] = 0
        lay_ = case.get('layout') or {}
        kw['weights'] = relayout(kw['weights'], lay_.get('w', 'C'))
        if 'alpha' in kw:
            kw['alpha'] = relayout(kw['alpha'], lay_.get('a', 'C'))
        with Capture2D() as cap:
            try:
                run_method2d(case['method'], relayout(np.array(case['y'], dtype=float).reshape(M, N), lay_.get('y', 'C')), **kw)
            except Exception as e:  # noqa
                print('replay capture2d: raised', type(e).__name__, e)
        if not cap.calls:
            print('replay capture2d: no spsolve call captured')
            return 1
        extra = tuple(case['extra']) if isinstance(case['extra'], list) else case['extra']
        Adoc, bdoc = doc2_system(case['method'], M, N, tuple(case['lam']), d, extra, [Fraction(v) for v in case['w']],
                                 case['alpha'], case['y'], Fraction)
        A, b = cap.calls[0]['A'], cap.calls[0]['b']
        n = M * N
        bad = [(p_, q_) for p_ in range(n) for q_ in range(n) if Fraction(float(A[p_, q_])) != Adoc[p_, q_]]
        badb = [p_ for p_ in range(n) if Fraction(float(b[p_])) != bdoc[p_]]
        print('replay capture2d:', f'matrix entries differ at {bad[:5]}, rhs at {badb[:5]}' if (bad or badb) else 'property holds on this input')
        return 1 if (bad or badb) else 0
    if kind == 'oracle2d':
        bad = [(w, e) for (w, e, n, _) in oracle2d_case(case) if not (e <= BOUND_C * n * EPS)]
        print('replay oracle2d:', bad or 'property holds on this input')
        return 1 if bad else 0
    if kind == 'eigen2d':
        if 'y' not in case:
            print('replay eigen2d: data too large to store; re-run the check with the recorded seed')
            return 1
        res = eigen_case(case)
        bad = res is not None and not (res[0] <= 1.0)
        print('replay eigen2d:', res if bad else 'property holds on this input')
        return 1 if bad else 0
    if kind == 'single':
        bad = [(w, msg) for (w, msg) in single_case(case) if msg is not None]
        print('replay single:', bad or 'property holds on this input')
        return 1 if bad else 0
    if kind == 'capture':
        c = dict(case)
        c['kw'] = {k: (np.array(v, dtype=float) if isinstance(v, list) else v) for k, v in c['kw'].items()}
        c['kw'].update({k: 0 for k in ('max_iter',) if k in c['kw'] and c['method'] not in SINGLE})
        passes, exc = capture_case(c)
        if not passes:
            print('replay capture: no solver call captured', exc)
            return 1
        call, w, al, _ = passes[0]
        try:
            A = densify(call, c['N'])
        except ValueError as e:
            print('replay capture:', e)
            return 1
        Adoc, bdoc = doc_system(c['method'] if c['method'] in METH_CODE else 'asls', c['N'], c['d'], c['lam'], c['extra'],
                                [Fraction(float(v)) for v in w], al, c['y'])
        bad = [(i, j) for i in range(c['N']) for j in range(c['N']) if Fraction(float(A[i, j])) != Adoc[i, j]]
        badb = [i for i in range(c['N']) if Fraction(float(call['b'][i])) != bdoc[i]]
        print('replay capture:', f'matrix entries differ at {bad[:5]}, rhs at {badb[:5]}' if (bad or badb) else 'property holds on this input')
        return 1 if (bad or badb) else 0
    print('replay: nothing concrete to replay; broken obligations were:', rep.get('broken_obligations'))
    return 1
