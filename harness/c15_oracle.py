"""C15 direct oracle: calls of the public methods with exactly ONE invalid argument; the observable is
the exception class (or the absence of an exception).  Pure implementation side (no Coq); tasks are
plain dicts so they can be shipped to worker processes and stored in replay files."""
import inspect
import math
import os
import warnings

import numpy as np

from . import methods as M

NAN, INF = float('nan'), float('inf')
OK_CLASSES = ('ValueError', 'TypeError')

# modules whose `half_window` is inside the property ("morphological/smoothing methods")
HW_MODULES = ('morphological', 'smooth')
# parameters the statement lists, with the value classes that the statement puts outside the domain
SCALAR_PARAMS = ('lam', 'p', 'quantile', 'eta', 'diff_order', 'poly_order', 'num_knots',
                 'spline_degree', 'half_window', 'max_half_window', 'min_half_window')
# parameters whose two-item form is documented in 1-D (left, right)
PAIR_1D = {('snip', 'max_half_window')}
# per-entry invalid values of the two-item forms: (valid entry, [(name, invalid entry)])
PAIR_ENTRIES = {
    'lam': (1e2, [('zero', 0.0), ('negative', -1.0)]),
    'diff_order': (2, [('zero', 0), ('negative', -1)]),
    'poly_order': (2, [('negative', -1), ('negative_fraction', -0.5)]),
    'num_knots': (5, [('one', 1), ('zero', 0)]),
    'spline_degree': (3, [('negative', -1), ('negative_fraction', -0.5)]),
    'half_window': (2, [('zero', 0), ('negative', -2), ('non_integer', 2.5), ('nan', NAN)]),
    'max_half_window': (5, [('zero', 0), ('negative', -2), ('non_integer', 2.5), ('nan', NAN)]),
}


def pair_classes(param):
    """one valid + one invalid entry, each position, list / tuple / ndarray containers."""
    valid, bads = PAIR_ENTRIES[param]
    out = []
    for bname, bad in bads:
        for pos, pair in (('first', [bad, valid]), ('second', [valid, bad])):
            out.append((f'pair[{pos}]:{bname}:list', list(pair), True))
            out.append((f'pair[{pos}]:{bname}:tuple', tuple(pair), True))
            out.append((f'pair[{pos}]:{bname}:ndarray', np.array(pair), True))
    return out
# p is documented on [0, 1] for these (default p=0.0); everywhere else on (0, 1)
CLOSED_P = ('mpls', 'pspline_mpls', 'mpspline')


def method_module(name, two_d):
    from pybaselines import Baseline, Baseline2D
    return getattr(Baseline2D if two_d else Baseline, name).__module__.split('.')[-1]


def method_params(name, two_d):
    from pybaselines import Baseline, Baseline2D
    sig = inspect.signature(getattr(Baseline2D if two_d else Baseline, name))
    return [p for p in sig.parameters if p not in ('self', 'data')]


def value_classes(param, name, two_d):
    """[(class name, python value, claimed)]: claimed = the statement says this must be rejected with
    ValueError/TypeError; otherwise the outcome is only observed (histogram)."""
    arr2 = lambda a, b: np.array([a, b])
    out = []
    if param == 'lam':
        out = [('zero', 0, True), ('negative', -1.5, True), ('neg_inf', -INF, True),
               ('negative_int', -3, True), ('zero_len1_array', np.array([0.0]), True),
               ('array', np.array([1e2, 1e2, 1e2]) if two_d else arr2(1e2, 1e2), True),
               ('bool_false', False, True),
               ('nan', NAN, False), ('pos_inf', INF, False)]
        if two_d:
            out += [('pair_one_zero', [1e2, 0.0], True), ('pair_one_negative', [-1.0, 1e2], True)]
    elif param in ('p', 'quantile'):
        out = [('negative', -0.5, True), ('above_one', 1.5, True), ('nan', NAN, True),
               ('pos_inf', INF, True), ('neg_inf', -INF, True), ('array', arr2(0.3, 0.3), True),
               ('negative_int', -1, True), ('two_int', 2, True)]
        if not (param == 'p' and name in CLOSED_P):
            out += [('zero', 0, True), ('one', 1, True), ('zero_float', 0.0, True), ('one_float', 1.0, True),
                    ('bool_true', True, True), ('bool_false', False, True),
                    ('one_len1_array', np.array([1.0]), True)]
    elif param == 'eta':
        out = [('negative', -0.5, True), ('above_one', 1.5, True), ('nan', NAN, True),
               ('pos_inf', INF, True), ('neg_inf', -INF, True), ('array', arr2(0.3, 0.3), True),
               ('negative_int', -1, True), ('two_int', 2, True)]
    elif param == 'diff_order':
        out = [('zero', 0, True), ('negative', -1, True), ('negative_float', -1.0, True),
               ('neg_inf', -INF, True), ('bool_false', False, True),
               ('zero_len1_array', np.array([0]), True),
               ('array', np.array([2, 2, 2]) if two_d else arr2(2, 2), True),
               ('fraction_below_one', 0.5, True),
               ('non_integer', 1.5, False), ('nan', NAN, False)]
        if two_d:
            out += [('pair_one_zero', [2, 0], True), ('pair_one_negative', [-1, 2], True)]
    elif param == 'poly_order':
        out = [('negative', -1, True), ('negative_float', -2.0, True), ('neg_inf', -INF, True),
               ('negative_fraction', -0.5, True),
               ('array', np.array([2, 2, 2]) if (two_d or name == 'adaptive_minmax') else arr2(2, 2), True),
               ('non_integer', 1.5, False), ('nan', NAN, False)]
        if two_d:
            out += [('pair_one_negative', [2, -1], True)]
    elif param == 'num_knots':
        out = [('one', 1, True), ('zero', 0, True), ('negative', -3, True), ('neg_inf', -INF, True),
               ('one_float', 1.0, True),
               ('array', np.array([8, 8, 8]) if two_d else arr2(8, 8), True),
               ('non_integer', 8.5, False), ('nan', NAN, False)]
        if two_d:
            out += [('pair_one_one', [5, 1], True)]
    elif param == 'spline_degree':
        out = [('negative', -1, True), ('negative_float', -1.0, True), ('neg_inf', -INF, True),
               ('negative_fraction', -0.5, True),
               ('array', np.array([3, 3, 3]) if two_d else arr2(3, 3), True),
               ('non_integer', 2.5, False), ('nan', NAN, False)]
        if two_d:
            out += [('pair_one_negative', [-1, 3], True)]
    elif param == 'min_half_window':
        # documented non-negative (swima): zero is valid
        out = [('negative', -2, True), ('non_integer', 2.5, True), ('negative_non_integer', -2.5, True),
               ('nan', NAN, True), ('pos_inf', INF, True), ('neg_inf', -INF, True),
               ('non_integer_len1_array', np.array([2.5]), True), ('array', arr2(2, 3), True)]
    elif param in ('half_window', 'max_half_window'):
        pairs = two_d or (name, param) in PAIR_1D
        out = [('zero', 0, True), ('negative', -2, True), ('non_integer', 2.5, True),
               ('fraction_below_one', 0.5, True), ('negative_non_integer', -2.5, True),
               ('nan', NAN, True), ('pos_inf', INF, True), ('neg_inf', -INF, True),
               ('bool_false', False, True), ('zero_len1_array', np.array([0]), True),
               ('non_integer_len1_array', np.array([2.5]), True),
               ('array', np.array([2, 2, 2]) if pairs else arr2(2, 3), True)]
        if two_d:
            out += [('pair_one_zero', [2, 0], True), ('pair_one_non_integer', [2, 2.5], True)]
    if param in PAIR_ENTRIES and (two_d or (name, param) in PAIR_1D):
        out += pair_classes(param)
    return out


def scalar_in_scope(param, name, two_d, module=None):
    """Is (method, parameter) inside the statement?  half_window only for morphological/smoothing."""
    if param in ('max_half_window', 'min_half_window'):
        return (module or method_module(name, two_d)) in HW_MODULES
    if param == 'half_window':
        # pspline_mpls lives in spline.py but is the P-spline version of the morphological mpls
        return (module or method_module(name, two_d)) in HW_MODULES or name == 'pspline_mpls'
    return param in SCALAR_PARAMS


# ------------------------------------------------------------------------------------------ data
def base_data(seed, two_d):
    rng = np.random.default_rng(seed)
    if two_d:
        x, z, y = M.make_z2d(rng, 18, 21)
        return x, z, y
    x = M.make_x(_PyRng(seed), 64)
    y = M.make_y(rng, x)
    return x, None, y


class _PyRng:
    def __init__(self, seed):
        import random
        self.r = random.Random(seed)

    def choice(self, seq):
        return self.r.choice(seq)

    def uniform(self, a, b):
        return self.r.uniform(a, b)


def positions(shape, which):
    if len(shape) == 1:
        n = shape[0]
        return {'first': (0,), 'interior': (n // 3,), 'last': (n - 1,)}[which]
    m, n = shape
    return {'first': (0, 0), 'interior': (m // 2, n // 3), 'last': (m - 1, n - 1),
            'first_row_last_col': (0, n - 1), 'edge_row': (m - 1, n // 2)}[which]


def build_tasks(seed, tier='quick', valid_comps=None):
    """The full finite grid (method x parameter x value class, data/weights x non-finite x position,
    wrong lengths, banded_solver, unknown method), 1-D and 2-D."""
    tasks = []
    for two_d in (False, True):
        dim = '2d' if two_d else '1d'
        for name in M.method_names(two_d):
            module = method_module(name, two_d)
            params = method_params(name, two_d)
            base = dict(dim=dim, method=name, module=module, seed=seed)
            # (a) scalar parameters
            for par in params:
                if par not in SCALAR_PARAMS:
                    continue
                in_scope = scalar_in_scope(par, name, two_d, module)
                if name == 'custom_bc' and par in ('lam', 'diff_order'):
                    in_scope = False   # parameters of the optional smoothing step, used only if lam is given
                for cls, val, claimed in value_classes(par, name, two_d):
                    if name == 'rubberband' and par == 'lam' and cls in ('zero', 'zero_len1_array', 'bool_false'):
                        claimed = False   # lam=0 is documented as "no smoothing" for rubberband
                    tasks.append(dict(base, kind='scalar', param=par, vclass=cls, value=_enc(val),
                                      claimed=bool(claimed and in_scope)))
            # x orderings: the sort/inverse-sort plumbing must not get in front of the validation
            orders = ('sorted', 'unsorted') if not two_d else ('sorted', 'x', 'z', 'both')

            def vc(text, xo, pos=None):
                text = text if xo == 'sorted' else f'{text}:x={xo}'
                return text if pos is None else f'{text}@{pos}'
            # (a2) cross: one invalid scalar parameter x one OTHER optional argument present with a valid value
            comps = companions(name, two_d, params)
            for par in params:
                if par not in SCALAR_PARAMS or not scalar_in_scope(par, name, two_d, module):
                    continue
                if name == 'custom_bc' and par in ('lam', 'diff_order'):
                    continue
                for cls, val, claimed in value_classes(par, name, two_d):
                    if not claimed or (name == 'rubberband' and par == 'lam' and cls in ('zero', 'zero_len1_array', 'bool_false')):
                        continue
                    for cname, ckw in comps:
                        if valid_comps is not None and (dim, name, cname) not in valid_comps:
                            continue      # the companion alone is not a valid call
                        if name == 'dietrich' and par == 'poly_order' and cname == 'variant:max_iter=0':
                            continue      # documented: max_iter=0 skips the polynomial fit, poly_order is unused
                        if par in ckw or (cname.startswith('variant:') and cname.split(':')[1].split('=')[0] == par):
                            continue
                        tasks.append(dict(base, kind='scalar_cross', param=par, vclass=f'{cls}+{cname}',
                                          value=_enc(val), comp=cname, comp_kw=_enc_kw(ckw), claimed=True))
            # (b) non-finite data
            poss = ('first', 'interior', 'last') + (('first_row_last_col', 'edge_row') if two_d else ())
            for bad in ('nan', 'pos_inf', 'neg_inf'):
                for pos in poss:
                    tasks.append(dict(base, kind='data_nonfinite', param='data', vclass=f'{bad}@{pos}',
                                      bad=bad, pos=pos, claimed=True))
            for xo in orders[1:]:
                for bad, pos in (('nan', 'interior'), ('pos_inf', 'last')):
                    tasks.append(dict(base, kind='data_nonfinite', param='data', vclass=vc(bad, xo, pos),
                                      bad=bad, pos=pos, xorder=xo, claimed=True))
            # (c) wrong data length versus x
            for xo in orders:
                for delta in ((-1, 1, 17, 'empty', 'scalar', 'extra_dim') if not two_d else
                              ('rows-1', 'cols+1', 'rows+5', 'transposed', 'empty', 'one_d')):
                    if xo != 'sorted' and delta in ('scalar', 'extra_dim', 'one_d'):
                        continue
                    tasks.append(dict(base, kind='data_length', param='data', vclass=vc(f'len:{delta}', xo),
                                      delta=delta, xorder=xo, claimed=True))
            # (d) per-point arrays
            for par in params:
                if par not in ('weights', 'alpha'):
                    continue
                if par == 'alpha' and name not in ('aspls', 'pspline_aspls'):
                    continue   # jbcd's alpha is a scalar regularisation parameter
                numeric = not (par == 'weights' and module == 'classification')
                for xo in orders:
                    for delta in ((-1, 1, 17, 'double', 'len2', 'len1', 'scalar', 'empty') if not two_d else
                                  ('rows-1', 'cols+1', 'rows+5', 'transposed', 'one_row', 'one_col', 'len1', 'scalar',
                                   'empty')):
                        tasks.append(dict(base, kind='array_length', param=par, vclass=vc(f'len:{delta}', xo),
                                          delta=delta, xorder=xo, claimed=True))
                    for bad in ('nan', 'pos_inf', 'neg_inf'):
                        for pos in ('first', 'interior', 'last'):
                            tasks.append(dict(base, kind='array_nonfinite', param=par, vclass=vc(bad, xo, pos),
                                              bad=bad, pos=pos, xorder=xo, claimed=numeric))
            # (d2) per-point arrays forwarded through method_kwargs by the optimizers
            if module == 'optimizers' and 'method_kwargs' in params:
                sides = ('left', 'right', 'both') if name == 'optimize_extended_range' else (None,)
                fw = [('weights', None)]
                if name in ('optimize_extended_range', 'collab_pls', 'custom_bc', 'individual_axes'):
                    fw.append(('alpha', 'aspls'))
                for par, meth in fw:
                    for side in sides:
                        for xo in orders:
                            tag = f'kw.{par}' + (f'[{side}]' if side else '')
                            for delta in ((-1, 1, 17, 'double', 'len2', 'len1', 'scalar', 'empty') if not two_d else
                                          ('rows-1', 'cols+1', 'rows+5', 'transposed', 'one_row', 'one_col', 'len1',
                                           'scalar', 'empty')):
                                tasks.append(dict(base, kind='kwarg_array_length', param=tag, kwarg=par, inner=meth,
                                                  side=side, vclass=vc(f'len:{delta}', xo), delta=delta, xorder=xo,
                                                  claimed=True))
                            for bad in ('nan', 'pos_inf', 'neg_inf'):
                                for pos in ('first', 'interior', 'last'):
                                    tasks.append(dict(base, kind='kwarg_array_nonfinite', param=tag, kwarg=par,
                                                      inner=meth, side=side, vclass=vc(bad, xo, pos), bad=bad, pos=pos,
                                                      xorder=xo, claimed=True))
            # (d3) every entry path of the data: objects without x (first / later call), functional interface
            if two_d:
                paths = ('noXZ_first', 'noXZ_second', 'onlyX_first', 'onlyX_second', 'onlyZ_first', 'onlyZ_second')
            else:
                paths = ('noX_first', 'noX_second') + (() if name == 'interp_pts' else ('func_noX', 'func_X'))
            for path in paths:
                second = path.endswith('_second')
                combos = ([('nan', 'interior'), ('pos_inf', 'first'), ('neg_inf', 'last')] if second else
                          [(b, q) for b in ('nan', 'pos_inf', 'neg_inf') for q in ('first', 'interior', 'last')])
                for bad, pos in combos:
                    tasks.append(dict(base, kind='entry_nonfinite', param=f'data[{path}]', path=path,
                                      vclass=f'{bad}@{pos}', bad=bad, pos=pos, claimed=True))
                shapes = ['scalar', 'extra_dim'] + (['short', 'long'] if (second or path == 'func_X'
                                                                          or path.startswith('only')) else [])
                for shp in shapes:
                    tasks.append(dict(base, kind='entry_shape', param=f'data[{path}]', path=path,
                                      vclass=f'shape:{shp}', shape=shp, claimed=True))
            # negative control: check_finite=False objects must not reject nan data in the validation
            for path in (('ctl_X', 'ctl_noX') if not two_d else ('ctl_XZ', 'ctl_noXZ')):
                tasks.append(dict(base, kind='control_nocheck', param=f'data[{path}]', path=path,
                                  vclass='nan@interior', bad='nan', pos='interior', claimed=False))
            # (e) unknown method name
            if 'method' in params:
                for bogus in ('not_a_method', 'asls_', ''):
                    tasks.append(dict(base, kind='unknown_method', param='method', vclass=f'name:{bogus!r}',
                                      value=bogus, claimed=True))
        # (f) banded_solver
        for cls, val in (('zero', 0), ('five', 5), ('negative', -1), ('bool_true', True), ('bool_false', False),
                         ('str', '2'), ('none', None), ('non_integer', 2.5), ('nan', NAN), ('pos_inf', INF),
                         ('list', [2]), ('array', np.array([1, 2]))):
            tasks.append(dict(dim=dim, method='<setter>', module='_algorithm_setup', seed=seed, kind='banded_solver',
                              param='banded_solver', vclass=cls, value=_enc(val), claimed=True))
        # (g) non-finite / wrongly shaped x at construction
        for bad in ('nan', 'pos_inf', 'neg_inf'):
            for pos in ('first', 'interior', 'last'):
                for axis in (('x',) if not two_d else ('x', 'z')):
                    tasks.append(dict(dim=dim, method='<init>', module='_algorithm_setup', seed=seed, kind='x_nonfinite',
                                      param=axis + '_data', vclass=f'{bad}@{pos}', bad=bad, pos=pos, axis=axis,
                                      claimed=True))
    # (h) objects with a HISTORY: the same invalid final call after 1-3 earlier calls on the same object
    tasks += history_tasks(seed)
    for i, t in enumerate(tasks):
        t['id'] = i
    return tasks


def history_patterns(two_d):
    """earlier events on the object: accepted calls, calls rejected up front, calls rejected INSIDE an inner fit
    of each optimizer (ValueError and TypeError), user toggles of public attributes."""
    lam = 1e2 if two_d else 1e3
    pats = [
        ('accepted_same', [{'call': '<same>', 'kw': {}}]),
        ('accepted_other', [{'call': 'arpls', 'kw': {'lam': lam}}]),
        ('rejected_upfront', [{'call': 'asls', 'kw': {'lam': -1.0}}]),
        ('rejected_data', [{'call': 'arpls', 'kw': {'lam': lam}, 'data': 'nan'}]),
        ('toggle_solver', [{'toggle': 'banded_solver', 'value': 3}]),
        ('toggle_solver_invalid', [{'toggle': 'banded_solver', 'value': 7}]),
        ('toggle_pentapy', [{'toggle': 'pentapy_solver', 'value': 1}]),
    ]
    opts = (('adaptive_minmax', {'poly_order': 2, 'method': 'imodpoly'}, {'num_std': -1}),
            ('collab_pls', {}, {'lam': -1.0}))
    opts += ((('individual_axes', {}, {'lam': -1.0}),) if two_d else
             (('optimize_extended_range', {}, {'p': 2.0}), ('custom_bc', {}, {'lam': -1.0})))
    for name, kw, bad_kw in opts:
        pats.append((f'inner_value_error:{name}', [{'call': name, 'kw': dict(kw, method_kwargs=bad_kw)}]))
        pats.append((f'inner_type_error:{name}', [{'call': name, 'kw': dict(kw, method_kwargs={'not_a_keyword': 1})}]))
    return pats


def history_tasks(seed):
    import random
    tasks = []
    for two_d in (False, True):
        dim = '2d' if two_d else '1d'
        pats = history_patterns(two_d)
        fillers = [p for p in pats if p[0] in ('accepted_other', 'rejected_upfront', 'accepted_same')]
        for name in M.method_names(two_d):
            if name == 'interp_pts':
                continue
            module = method_module(name, two_d)
            params = method_params(name, two_d)
            finals = [('data:nan', {'data': 'nan'}), ('data:pos_inf', {'data': 'pos_inf'}),
                      ('data:short', {'data': 'short'})]
            if 'weights' in params and module != 'classification' and name != 'adaptive_minmax':
                finals.append(('weights:nan', {'weights': 'nan'}))
            for par in params:
                if par in SCALAR_PARAMS and scalar_in_scope(par, name, two_d, module) \
                        and not (name in ('custom_bc', 'rubberband', 'dietrich')):
                    cls, val, claimed = value_classes(par, name, two_d)[0]
                    if claimed:
                        finals.append((f'{par}:{cls}', {'scalar': [par, _enc(val)]}))
                    break
            for pname, events in pats:
                rnd = random.Random(f'{seed}-{dim}-{name}-{pname}')
                for fname, final in finals:
                    # 1-3 earlier events: the pattern plus 0-2 fillers, in a seeded order
                    hist = [dict(e) for e in events]
                    for _ in range(rnd.randint(0, 2)):
                        hist.insert(rnd.randint(0, len(hist)), dict(rnd.choice(fillers)[1][0]))
                    tasks.append(dict(dim=dim, method=name, module=module, seed=seed, kind='history',
                                      param=f'hist[{pname}]', vclass=fname, history=_enc(hist), final=final,
                                      with_x=rnd.random() < 0.7, claimed=True))
    return tasks


def _history_run(t, two_d, x, z, y):
    from pybaselines import Baseline, Baseline2D
    name = t['method']

    def data_of(kind):
        if kind == 'nan' or kind == 'pos_inf':
            yy = y.copy()
            yy[positions(yy.shape, 'interior')] = BADVAL[kind]
            return yy
        if kind == 'short':
            return y[:-1]
        return y

    def new_fitter():
        if two_d:
            return Baseline2D(x, z) if t['with_x'] else Baseline2D()
        return Baseline(x) if t['with_x'] else Baseline()

    def call(fit, meth, kw, data='clean'):
        d = data_of(data)
        if two_d:
            return M.run_2d(meth, x, z, d, fitter=fit, **kw)
        return M.run_1d(meth, x, d, fitter=fit, **kw)

    def final(fit):
        f = t['final']
        kw, data = {}, 'clean'
        if 'data' in f:
            data = f['data']
        if 'weights' in f:
            w = np.ones_like(y)
            w[positions(w.shape, 'interior')] = NAN
            kw['weights'] = w
        if 'scalar' in f:
            kw[f['scalar'][0]] = _dec(f['scalar'][1])
        try:
            call(fit, name, kw, data)
            return 'returned'
        except Exception as exc:  # noqa
            return type(exc).__name__

    fit = new_fitter()
    if not t['with_x']:
        # the object learns its size from a first accepted call
        try:
            call(fit, 'arpls', {'lam': 1e2 if two_d else 1e3})
        except Exception:  # noqa
            pass
    prior = []
    for ev in _dec(t['history']):
        try:
            if 'toggle' in ev:
                setattr(fit, ev['toggle'], ev['value'])
            else:
                call(fit, name if ev['call'] == '<same>' else ev['call'], ev.get('kw', {}), ev.get('data', 'clean'))
            prior.append('ok')
        except Exception as exc:  # noqa
            prior.append(type(exc).__name__)
    got = final(fit)
    fresh_fit = new_fitter()
    if not t['with_x']:
        try:
            call(fresh_fit, 'arpls', {'lam': 1e2 if two_d else 1e3})
        except Exception:  # noqa
            pass
    fresh = final(fresh_fit)
    if got != fresh:
        return f'differs', f'after history {prior}: {got}; fresh object: {fresh}'
    return got, f'prior={prior}'


def _unused_tail():
    tasks = []
    return tasks


def companions(name, two_d, params):
    """[(label, kwargs)]: optional arguments given with a VALID non-default value, one at a time; the
    special kwargs '__weights__' / '__alpha__' / '__fitter__' are resolved at call time."""
    out = []
    if 'weights' in params:
        out.append(('weights', {'__weights__': True}))
    if 'alpha' in params and name in ('aspls', 'pspline_aspls'):
        out.append(('alpha', {'__alpha__': True}))
    if 'pad_kwargs' in params:
        out.append(('pad_kwargs', {'pad_kwargs': {'mode': 'reflect'}}))
    out.append(('no_x', {'__fitter__': 'no_x'}))
    out.append(('unsorted_x', {'__fitter__': 'unsorted'}))
    seen = set()
    for var in M.param_variants(name, two_d):
        (k, v), = var.items()
        if k not in params:
            continue
        label = f'variant:{k}={v!r}'
        if label in seen:
            continue
        seen.add(label)
        out.append((label, {k: v}))
    return out


def companion_probes(seed):
    """tasks that run each companion ALONE (everything else valid); only those that return are used."""
    tasks = []
    for two_d in (False, True):
        dim = '2d' if two_d else '1d'
        for name in M.method_names(two_d):
            module = method_module(name, two_d)
            params = method_params(name, two_d)
            for cname, ckw in companions(name, two_d, params):
                tasks.append(dict(dim=dim, method=name, module=module, seed=seed, kind='scalar_cross', param=None,
                                  vclass=f'probe+{cname}', comp=cname, comp_kw=_enc_kw(ckw), claimed=False,
                                  probe=True))
    for i, t in enumerate(tasks):
        t['id'] = i
    return tasks


def valid_companions(seed):
    probes = companion_probes(seed)
    res = run_all(probes)
    return {(t['dim'], t['method'], t['comp']) for t in probes if res[t['id']][0] == 'returned'}, len(probes)


def _enc_kw(kw):
    return {k: _enc(v) for k, v in kw.items()}


def _enc(v):
    """JSON-able encoding of a parameter value."""
    if isinstance(v, np.ndarray):
        return {'array': [_enc(e) for e in v.tolist()]}
    if isinstance(v, dict):
        return {'dict': {k: _enc(e) for k, e in v.items()}}
    if isinstance(v, tuple):
        return {'tuple': [_enc(e) for e in v]}
    if isinstance(v, list):
        return {'list': [_enc(e) for e in v]}
    if isinstance(v, float) and (math.isnan(v) or math.isinf(v)):
        return {'float': repr(v)}
    return v


def _dec(v):
    if isinstance(v, dict):
        if 'array' in v:
            return np.array([_dec(e) for e in v['array']])
        if 'list' in v:
            return [_dec(e) for e in v['list']]
        if 'tuple' in v:
            return tuple(_dec(e) for e in v['tuple'])
        if 'dict' in v:
            return {k: _dec(e) for k, e in v['dict'].items()}
        if 'float' in v:
            return float(v['float'])
    return v


BADVAL = {'nan': NAN, 'pos_inf': INF, 'neg_inf': -INF}


def _call(name, two_d, x, z, y, fitter=None, **extra):
    if two_d:
        return M.run_2d(name, x, z, y, fitter=fitter, **extra)
    if name == 'interp_pts':
        from pybaselines import Baseline
        pts = np.array([[x[0], 1.0], [x[len(x) // 2], 2.0], [x[-1], 1.5]])
        return (fitter if fitter is not None else Baseline(x)).interp_pts(y, baseline_points=pts, **extra)
    return M.run_1d(name, x, y, fitter=fitter, **extra)


def _reshape_for(name, y, two_d):
    return y


def run_task(t):
    """Executes one task on the implementation; returns (outcome, detail): outcome is 'returned' or
    the exception class name."""
    from pybaselines import Baseline, Baseline2D
    two_d = t['dim'] == '2d'
    x, z, y = base_data(t['seed'], two_d)
    xo = t.get('xorder', 'sorted')
    if xo != 'sorted':
        prng = np.random.default_rng(t['seed'] + 7)
        if not two_d or xo in ('x', 'both'):
            px = prng.permutation(len(x))
            if np.array_equal(px, np.arange(len(x))):
                px = px[::-1]
            x = x[px]
            y = y[px]
        if two_d and xo in ('z', 'both'):
            pz = prng.permutation(len(z))
            if np.array_equal(pz, np.arange(len(z))):
                pz = pz[::-1]
            z = z[pz]
            y = y[:, pz]
    name = t['method']
    kind = t['kind']
    with warnings.catch_warnings():
        warnings.simplefilter('ignore')
        np.seterr(all='ignore')
        try:
            if kind == 'scalar':
                extra = {t['param']: _dec(t['value'])}
                if name in ('rubberband', 'custom_bc') and t['param'] == 'diff_order':
                    extra['lam'] = 1e3    # diff_order is only used when the optional smoothing is requested
                _call(name, two_d, x, z, y, **extra)
            elif kind == 'scalar_cross':
                extra = {} if t.get('probe') else {t['param']: _dec(t['value'])}
                if name in ('rubberband',) and t['param'] == 'diff_order':
                    extra['lam'] = 1e3
                xx, zz, yy = x, z, y
                fitter = None
                for k, v in t['comp_kw'].items():
                    v = _dec(v)
                    if k == '__weights__':
                        extra['weights'] = np.ones_like(y)
                    elif k == '__alpha__':
                        extra['alpha'] = np.ones_like(y)
                    elif k == '__fitter__':
                        if v == 'no_x':
                            fitter = Baseline2D() if two_d else Baseline()
                        else:
                            prng = np.random.default_rng(t['seed'] + 11)
                            px = prng.permutation(len(x))
                            xx, yy = x[px], y[px]
                            if two_d:
                                pz = prng.permutation(len(z))
                                zz, yy = z[pz], yy[:, pz]
                    else:
                        extra[k] = v
                if fitter is not None and name == 'interp_pts':
                    fitter = None      # interp_pts needs x-values
                _call(name, two_d, xx, zz, yy, fitter=fitter, **extra)
            elif kind == 'data_nonfinite':
                yy = y.copy()
                yy[positions(yy.shape, t['pos'])] = BADVAL[t['bad']]
                _call(name, two_d, x, z, yy)
            elif kind == 'data_length':
                d = t['delta']
                if not two_d:
                    if d == 'scalar':
                        yy = 3.0
                    elif d == 'extra_dim':
                        yy = np.vstack([y, y, y])
                    elif d == 'empty':
                        yy = np.array([])
                    elif d < 0:
                        yy = y[:d]
                    else:
                        yy = np.concatenate([y, y[:d]])
                    if name == 'collab_pls' and d == 'empty':
                        Baseline(x).collab_pls(np.empty((2, 0)), **M.call_kwargs(name))
                    elif name == 'collab_pls' and d not in ('scalar', 'extra_dim'):
                        # the data set of collab_pls is (M, N): wrong N
                        fit = Baseline(x)
                        fit.collab_pls(np.vstack([yy, yy]), **M.call_kwargs(name))
                    elif name == 'collab_pls':
                        fit = Baseline(x)
                        fit.collab_pls(3.0 if d == 'scalar' else np.array([[y, y], [y, y]])[..., :-1],
                                       **M.call_kwargs(name))
                    else:
                        _call(name, two_d, x, z, yy)
                else:
                    if d == 'rows-1':
                        yy = y[:-1]
                    elif d == 'cols+1':
                        yy = np.hstack([y, y[:, :1]])
                    elif d == 'transposed':
                        yy = y.T.copy()
                    elif d == 'rows+5':
                        yy = np.vstack([y, y[:5]])
                    elif d == 'empty':
                        yy = np.empty((0, y.shape[1]))
                    else:
                        yy = y.ravel()
                    if name == 'collab_pls':
                        Baseline2D(x, z).collab_pls(np.array([yy, yy]), **M.call_kwargs(name, True))
                    else:
                        _call(name, two_d, x, z, yy)
            elif kind in ('array_length', 'array_nonfinite', 'kwarg_array_length', 'kwarg_array_nonfinite'):
                arr = np.ones_like(y)
                if name == 'individual_axes' and kind.startswith('kwarg'):
                    arr = np.ones(y.shape[0])      # per-point arrays of the 1-D method along axis 0
                if kind.endswith('array_length'):
                    d = t['delta']
                    if d == 'empty':
                        arr = np.array([])
                    elif d == 'scalar':
                        arr = 1.0
                    elif d == 'len1':
                        arr = np.ones(1) if (not two_d or arr.ndim == 1) else np.ones((1, 1))
                    elif d == 'len2':
                        arr = np.ones(2)
                    elif d == 'double':
                        arr = np.concatenate([arr, arr])
                    elif d == 'one_row':
                        arr = arr[:1] if arr.ndim == 2 else arr[:2]
                    elif d == 'one_col':
                        arr = arr[:, :1] if arr.ndim == 2 else np.concatenate([arr, arr])
                    elif arr.ndim == 1 and two_d:
                        arr = {'rows-1': arr[:-1], 'cols+1': np.concatenate([arr, arr[:1]]),
                               'rows+5': np.concatenate([arr, arr[:5]]), 'transposed': np.ones(y.shape[1])}[d]
                    elif not two_d:
                        arr = arr[:d] if d < 0 else np.concatenate([arr, arr[:d]])
                    elif d == 'rows+5':
                        arr = np.vstack([arr, arr[:5]])
                    elif d == 'rows-1':
                        arr = arr[:-1]
                    elif d == 'cols+1':
                        arr = np.hstack([arr, arr[:, :1]])
                    else:
                        arr = arr.T.copy()
                else:
                    arr[positions(arr.shape, t['pos'])] = BADVAL[t['bad']]
                if kind.startswith('kwarg'):
                    base_kw = dict((M.call_kwargs(name, two_d).get('method_kwargs')) or {})
                    if t.get('inner') == 'aspls':
                        base_kw.setdefault('lam', 1e2 if two_d else 1e3)
                    base_kw[t['kwarg']] = arr
                    extra = {'method_kwargs': base_kw}
                    if t.get('inner'):
                        extra['method'] = t['inner']
                    if t.get('side'):
                        extra['side'] = t['side']
                    if name == 'individual_axes':
                        extra['axes'] = 0
                    _call(name, two_d, x, z, y, **extra)
                else:
                    _call(name, two_d, x, z, y, **{t['param']: arr})
            elif kind == 'unknown_method':
                _call(name, two_d, x, z, y, method=t['value'])
            elif kind == 'banded_solver':
                fit = Baseline2D(x, z) if two_d else Baseline(x)
                fit.banded_solver = _dec(t['value'])
                # the setter accepted it: use it
                if two_d:
                    fit.arpls(y, lam=1e2)
                else:
                    fit.arpls(y, lam=1e3)
            elif kind == 'history':
                out = _history_run(t, two_d, x, z, y)
                return out
            elif kind in ('entry_nonfinite', 'entry_shape', 'control_nocheck'):
                _entry_call(t, name, two_d, x, z, y)
            elif kind == 'x_nonfinite':
                if two_d:
                    xx, zz = x.copy(), z.copy()
                    a = xx if t['axis'] == 'x' else zz
                    a[positions(a.shape, t['pos'])] = BADVAL[t['bad']]
                    Baseline2D(xx, zz).arpls(y, lam=1e2)
                else:
                    xx = x.copy()
                    xx[positions(xx.shape, t['pos'])] = BADVAL[t['bad']]
                    Baseline(xx).arpls(y, lam=1e3)
            else:
                return 'harness-error', f'unknown kind {kind}'
        except Exception as exc:  # noqa
            if kind == 'control_nocheck':
                return ('validation-raised' if _raised_in_validation(exc) else 'other:' + type(exc).__name__,
                        str(exc)[:120])
            return type(exc).__name__, str(exc)[:160]
    return 'returned', ''


def _raised_in_validation(exc):
    """did the exception pass through a frame of pybaselines/_validation.py?"""
    tb = exc.__traceback__
    while tb is not None:
        if tb.tb_frame.f_code.co_filename.replace('\\', '/').endswith('pybaselines/_validation.py'):
            return True
        tb = tb.tb_next
    return False


def _entry_call(t, name, two_d, x, z, y):
    """One call through a given entry path (fresh objects for every case)."""
    import importlib
    from pybaselines import Baseline, Baseline2D
    path = t['path']
    if t['kind'] == 'entry_shape':
        shp = t['shape']
        if shp == 'scalar':
            yy = 3.0
        elif shp == 'extra_dim':
            yy = np.array([y, y, y]) if not (name == 'collab_pls') else np.array([[y, y], [y, y], [y, y]])
        elif not two_d:
            yy = y[:-1] if shp == 'short' else np.concatenate([y, y[:1]])
        else:
            if path.startswith('onlyZ'):
                yy = y[:, :-1] if shp == 'short' else np.hstack([y, y[:, :1]])
            else:
                yy = y[:-1] if shp == 'short' else np.vstack([y, y[:1]])
    else:
        yy = y.copy()
        yy[positions(yy.shape, t['pos'])] = BADVAL[t['bad']]

    def wrap(d):
        # collab_pls takes a data set
        if name == 'collab_pls' and isinstance(d, np.ndarray) and d.ndim == (2 if two_d else 1):
            return np.array([d, d * 1.1 + 1])
        return d

    kw = M.call_kwargs(name, two_d)
    if name == 'interp_pts':
        kw = dict(kw, baseline_points=np.array([[x[0], 1.0], [x[len(x) // 2], 2.0], [x[-1], 1.5]]))
    if path in ('func_noX', 'func_X'):
        func = getattr(importlib.import_module('pybaselines.' + t['module']), name)
        if path == 'func_X':
            kw['x_data'] = x
        return func(wrap(yy), **kw)
    if path.startswith('ctl'):
        fit = ((Baseline2D(x, z, check_finite=False) if path == 'ctl_XZ' else Baseline2D(check_finite=False))
               if two_d else (Baseline(x, check_finite=False) if path == 'ctl_X' else Baseline(check_finite=False)))
        return getattr(fit, name)(wrap(yy), **kw)
    if two_d:
        fit = {'noXZ': Baseline2D(), 'onlyX': Baseline2D(x_data=x), 'onlyZ': Baseline2D(z_data=z)}[path.split('_')[0]]
    else:
        fit = Baseline()
    if path.endswith('_second'):
        getattr(fit, name)(wrap(y), **M.call_kwargs(name, two_d) if name != 'interp_pts' else kw)
    return getattr(fit, name)(wrap(yy), **kw)


def expected_ok(t, outcome):
    if t['kind'] == 'unknown_method':
        return outcome == 'AttributeError'
    return outcome in OK_CLASSES


def task_key(t, outcome):
    return f"{t['dim']}:{t['method']}:{t['param']}:{t['vclass'].split('@')[0]}:{outcome}"


def _worker(chunk):
    os.environ.setdefault('OMP_NUM_THREADS', '1')
    res = []
    for t in chunk:
        try:
            res.append((t['id'],) + run_task(t))
        except BaseException as exc:  # noqa
            res.append((t['id'], 'harness-error', f'{type(exc).__name__}: {exc}'[:200]))
    return res


def run_all(tasks, nproc=None):
    """Runs the tasks in worker processes (deterministic: results are keyed by task id)."""
    import multiprocessing as mp
    nproc = nproc or min(16, os.cpu_count() or 4)
    # interleave so that slow methods are spread over the workers
    chunks = [tasks[i::nproc * 4] for i in range(nproc * 4)]
    chunks = [c for c in chunks if c]
    ctxm = mp.get_context('fork')
    with ctxm.Pool(nproc) as pool:
        parts = pool.map(_worker, chunks, chunksize=1)
    out = {}
    for part in parts:
        for tid, outcome, detail in part:
            out[tid] = (outcome, detail)
    return out
