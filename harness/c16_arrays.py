"""C16 -- array-valued keyword arguments: every per-point / sequence-valued parameter of every method in every
dtype and container form (round 5).

* corr_validator_dtype: run-time counterpart of the translator table `array_params`: every method that has a per-point
  array parameter is called with a uint8 array while `_check_optional_array` is wrapped (from outside, in this process)
  in every module that imported it; the dtype of what the validator hands back is compared, inside Coq, with the table
  (imposed float / bool, or a reviewed exception).
* oracle_array_params: the per-parameter dtype / container grid, variant call versus the float64 ndarray call holding
  the same numbers, bit for bit (baseline and all params): weights and alpha of every method (1-D, 2-D), crossed with
  non-integer values of weight-like scalar parameters, weights inside method_kwargs of the optimizers, and
  sequence-valued scalar parameters (lam, poly_order, num_knots, scales, regions, ... as list / tuple / ndarrays).
"""
import inspect
import sys
import warnings

import numpy as np

from . import methods as M

NARROW = ('uint8', 'int8', 'int16')


def _C():
    from . import c16
    return c16


def per_point_methods(two_d):
    """[(method, param)] with a per-point array parameter (None default), from the live signatures."""
    from pybaselines import Baseline, Baseline2D
    cls = Baseline2D if two_d else Baseline
    out = []
    for name in M.method_names(two_d):
        sig = inspect.signature(getattr(cls, name))
        for par in ('weights', 'alpha'):
            if par in sig.parameters and sig.parameters[par].default is None:
                out.append((name, par))
    return out


def method_call(two_d, name, fit, data, extra):
    kw = M.call_kwargs(name, two_d)
    kw.update(extra)
    return getattr(fit, name)(data, **kw)


def base_inputs(ctx, two_d, name, k=0):
    nrng = np.random.default_rng([ctx.seed, 55, k, len(name)])
    if two_d:
        x, z, y = M.make_z2d(nrng, 12, 15)
        data = np.array([y, y * 1.1 + 1]) if name == 'collab_pls' else y
        return (x, z), data, y.shape
    x = np.linspace(-3.0, 12.0, 59)
    y = M.make_y(nrng, x, 'noise')
    data = np.vstack([y, y * 1.1 + 1]) if name == 'collab_pls' else y
    return (x,), data, y.shape


def make_fit(two_d, axes):
    from pybaselines import Baseline, Baseline2D
    return Baseline2D(*axes) if two_d else Baseline(*axes)


# ====================================================================== run-time tie of the routing table
def corr_validator_dtype(ctx):
    C = _C()
    mods = [m for n, m in list(sys.modules.items())
            if n.startswith('pybaselines') and m is not None and hasattr(m, '_check_optional_array')
            and n != 'pybaselines._validation']
    import pybaselines._validation as V
    real = V._check_optional_array
    seen = []

    def recorder(data_size, array=None, *a, **k):
        out = real(data_size, array, *a, **k)
        if array is not None:
            seen.append((k.get('name', 'weights'), np.asarray(out).dtype.name))
        return out

    lits = []
    saved = [(m, m._check_optional_array) for m in mods]
    try:
        for m, _ in saved:
            m._check_optional_array = recorder
        for two_d in (False, True):
            for name, par in per_point_methods(two_d):
                axes, data, shape = base_inputs(ctx, two_d, name)
                arr = (np.arange(int(np.prod(shape))).reshape(shape) % 3 + 1).astype(np.uint8)
                del seen[:]
                _, e = C.quiet(lambda: method_call(two_d, name, make_fit(two_d, axes), data, {par: arr}))
                codes = [{'float64': 0, 'bool': 1}.get(dt, 2) for nm, dt in seen if nm == par]
                ctx.case(('validator-dtype', two_d, name, par), nontrivial=True, kind='validator-dtype')
                lits.append(f'({C.coqbool(two_d)}, {C.cstr(name)}, {C.cstr(par)}, {C.zlist(codes)}, {C.coqbool(e is None)})')
    finally:
        for m, f in saved:
            m._check_optional_array = f
    body = """
From PB Require Import C16.ArrayParams.
Definition find_ap (d : bool) (m p : string) : option aparam :=
  find (fun a => Bool.eqb (ap_two_d a) d && String.eqb (ap_method a) m && String.eqb (ap_param a) p) array_params.
(* the array the validator returned has the dtype the table says is imposed (0 float64, 1 bool); a reviewed exception may keep
   the caller's dtype; at least one validator call was observed for a call that returned *)
Definition ok (c : bool * string * string * list Z * bool) : bool :=
  let '(d, m, p, codes, returned) := c in
  match find_ap d m p with
  | None => false
  | Some a =>
      if is_reviewed a then true
      else forallb (fun k => Z.eqb k 0 || Z.eqb k 1) codes && (negb returned || negb (Nat.eqb (length codes) 0))
           (* every route of the table is seen at run time (a method may in addition validate arrays it built itself) *)
           && (negb returned || forallb (fun r => existsb (fun k => match route_dtype setups d r with
                                                  | Some WFloat => Z.eqb k 0 | Some WBool => Z.eqb k 1 | _ => false end) codes) (ap_routes a))
  end.
"""
    text = C.HEADER + body + ('Definition cases : list (bool * string * string * list Z * bool) := [\n'
                              + ';\n'.join('  ' + l for l in lits) + '\n].\n')
    text += 'Eval vm_compute in (bad ok cases).\n'
    text += f'Eval vm_compute in (if Nat.eqb (length array_params) {len(lits)} then 0%nat else 1%nat, @nil nat).\n'
    vals = ctx.coq_eval('valdtype', text)
    ctx.obligations.append('correspondence:validator-imposes-dtype')
    if vals is not None:
        if C.is_zero(vals) and len(vals) > 1 and C.is_zero(vals[1:2]):
            ctx.discharged.append('correspondence:validator-imposes-dtype')
        else:
            ctx.broke('correspondence:validator-imposes-dtype',
                      'the dtype handed back by _check_optional_array for a uint8 per-point argument (or the set of methods with '
                      f'such an argument) differs from the translated routing table: {[v[:200] for v in vals[:2]]}')
    ctx.note(f'validator dtype observed at run time for {len(lits)} (method, per-point parameter) pairs')


# ====================================================================== the per-parameter variant grid
def int_valued(shape, nrng, lo=1, hi=3):
    return nrng.integers(lo, hi + 1, size=shape).astype(float)


def dtype_container_variants(w):
    """(tag, object) holding exactly the numbers of the integer-valued float64 array w."""
    C = _C()
    out = [(dt, w.astype(dt)) for dt in ('float32', 'float16', 'int64', 'int32', 'int16', 'int8', 'uint8')]
    out.append(('int-list', w.astype(int).tolist()))
    out.append(('float-list', w.tolist()))

    def tup(v):
        return tuple(tup(u) for u in v) if isinstance(v, list) else v
    out.append(('int-tuple', tup(w.astype(int).tolist())))
    big = np.full(tuple(2 * n for n in w.shape), 77, dtype=np.uint8)
    view = big[tuple(slice(None, None, 2) for _ in w.shape)]
    view[...] = w.astype(np.uint8)
    out.append(('uint8-strided', view))
    out.append(('int16-F', np.asfortranarray(w.astype(np.int16))))
    if w.ndim == 1:
        out.append(('int8-col', w.astype(np.int8)[:, None]))
        out.append(('uint8-row', w.astype(np.uint8)[None, :]))
    return out


def pick(rng, variants, full, k=4):
    if full:
        return variants
    narrow = [v for v in variants if v[0].split('-')[0] in NARROW]
    rest = [v for v in variants if v not in narrow]
    return [rng.choice(narrow)] + [v for v in variants if v[0] == 'float16'][:1] + rng.sample(rest, k - 2)


def fractional_scalars(two_d, name):
    """{param: non-integer value} for weight-like scalar parameters (values written into / multiplied onto the weights)."""
    from pybaselines import Baseline, Baseline2D
    sig = inspect.signature(getattr(Baseline2D if two_d else Baseline, name))
    out = {}
    for par, p in sig.parameters.items():
        if 'weight' in par and par != 'weights' and isinstance(p.default, (int, float)) and not isinstance(p.default, bool):
            out[par] = 2.5
    return out


def compare(ctx, orc, dim, name, tag, got, exc, want, case):
    C = _C()
    orc.n_cmp += 1
    key = f'{dim}:{name}:{tag}'
    ctx.case((dim, name, tag), nontrivial=True, kind=f'oracle:{dim}:array-param:{tag.split("=")[0]}')
    if exc is not None:
        ctx.fail(key, f'{dim} {name}: the variant {tag} raised {type(exc).__name__}: {str(exc)[:110]} while the float64 ndarray '
                 'holding the same numbers returns', case)
        return
    if not C.same(got[0], want[0]):
        with warnings.catch_warnings():
            warnings.simplefilter('ignore')
            try:
                dev = float(np.nanmax(np.abs(np.asarray(got[0], dtype=float) - np.asarray(want[0], dtype=float))))
            except Exception:  # noqa
                dev = float('nan')
        ctx.fail(key, f'{dim} {name}: baseline of the variant {tag} differs from the float64 ndarray holding the same numbers '
                 f'(max abs difference {dev:.3g})', case)
    elif not params_equal(got[1], want[1]):
        ctx.fail(key, f'{dim} {name}: params of the variant {tag} differ from the float64 ndarray call', case)


def params_equal(p, q):
    """all params, nested ones included, except tol_history (reduction order, see c16.params_same)."""
    if isinstance(p, dict) or isinstance(q, dict):
        if not (isinstance(p, dict) and isinstance(q, dict)) or set(p) != set(q):
            return False
        return all(k == 'tol_history' or params_equal(p[k], q[k]) for k in p)
    if isinstance(p, (list, tuple)) or isinstance(q, (list, tuple)):
        if not (isinstance(p, (list, tuple)) and isinstance(q, (list, tuple)) and len(p) == len(q)):
            return False
        return all(params_equal(u, v) for u, v in zip(p, q))
    try:
        a, b = np.asarray(p), np.asarray(q)
    except Exception:  # noqa
        return p is q or p == q
    if a.dtype == object or b.dtype == object:
        return a.shape == b.shape and all(params_equal(u, v) for u, v in zip(a.ravel().tolist(), b.ravel().tolist()))
    # values, not dtypes: a params entry that echoes an input scalar (e.g. the best scale) keeps the input's integer type
    return a.shape == b.shape and bool(np.array_equal(a, b, equal_nan=a.dtype.kind in 'fc' and b.dtype.kind in 'fc'))


def oracle_array_params(ctx, orc, budget, only=None):
    C = _C()
    rng = ctx.rng
    full = budget > 1
    n0 = orc.n_cmp
    # ---- 1. weights / alpha of every method
    for two_d in (False, True):
        dim = '2d' if two_d else '1d'
        for name, par in per_point_methods(two_d):
            if only and (dim, name) != only:
                continue
            if name == 'collab_pls':
                continue
            axes, data, shape = base_inputs(ctx, two_d, name)
            nrng = np.random.default_rng([ctx.seed, 56, len(name), int(two_d)])
            w = int_valued(shape, nrng)
            extras = [{}]
            fr = fractional_scalars(two_d, name)
            if fr:
                extras.append(fr)
            for extra in extras:
                etag = ''.join(f'*{k}={v}' for k, v in extra.items())
                want, e0 = C.quiet(lambda: method_call(two_d, name, make_fit(two_d, axes), data, dict(extra, **{par: w})))
                if e0 is not None:
                    continue
                for tag, obj in pick(rng, dtype_container_variants(w), full):
                    got, e = C.quiet(lambda: method_call(two_d, name, make_fit(two_d, axes), data, dict(extra, **{par: obj})))
                    compare(ctx, orc, dim, name, f'{par}={tag}{etag}', got, e, want,
                            {'kind': 'oracle-array-param', 'dim': dim, 'method': name})
            # a 0/1 mask as bool
            mask = (nrng.random(shape) < 0.85).astype(float)
            want, e0 = C.quiet(lambda: method_call(two_d, name, make_fit(two_d, axes), data, {par: mask}))
            if e0 is None and par == 'weights':
                for tag, obj in (('bool', mask.astype(bool)), ('uint8-mask', mask.astype(np.uint8))):
                    got, e = C.quiet(lambda: method_call(two_d, name, make_fit(two_d, axes), data, {par: obj}))
                    compare(ctx, orc, dim, name, f'{par}={tag}', got, e, want,
                            {'kind': 'oracle-array-param', 'dim': dim, 'method': name})
    # ---- 2. weights inside method_kwargs of the optimizers
    from pybaselines import Baseline, Baseline2D
    plans = [('1d', 'collab_pls', 'asls', lambda f, d, mk: f.collab_pls(d, method='asls', method_kwargs=mk), True),
             ('1d', 'optimize_extended_range', 'asls',
              lambda f, d, mk: f.optimize_extended_range(d, method='asls', min_value=2, max_value=4, method_kwargs=mk), False),
             ('1d', 'custom_bc', 'asls', lambda f, d, mk: f.custom_bc(d, method='asls', method_kwargs=mk), False),
             ('1d', 'custom_bc', 'modpoly', lambda f, d, mk: f.custom_bc(d, method='modpoly', method_kwargs=mk), False),
             ('2d', 'collab_pls', 'asls', lambda f, d, mk: f.collab_pls(d, method='asls', method_kwargs=mk), True),
             ('2d', 'individual_axes', 'asls', None, False)]
    for dim, opt, inner, call, stack in plans:
        if only and (dim, opt) != only:
            continue
        two_d = dim == '2d'
        axes, data, shape = base_inputs(ctx, two_d, 'collab_pls' if stack else opt)
        nrng = np.random.default_rng([ctx.seed, 57, len(opt), int(two_d)])
        if opt == 'individual_axes':
            w = int_valued((shape[1],), nrng)        # rows are fitted along z: one weight per column

            def call(f, d, mk):       # noqa
                return f.individual_axes(d, axes=1, method='asls', method_kwargs=mk)
        else:
            w = int_valued(shape, nrng)
        inner_kw = {'lam': 1e3} if inner != 'modpoly' else {}
        want, e0 = C.quiet(lambda: call(make_fit(two_d, axes), data, dict(inner_kw, weights=w)))
        if e0 is not None:
            continue
        variants = dtype_container_variants(w)
        for tag, obj in pick(rng, variants, full, 3):
            got, e = C.quiet(lambda: call(make_fit(two_d, axes), data, dict(inner_kw, weights=obj)))
            compare(ctx, orc, dim, opt, f'method_kwargs[weights]={tag}', got, e, want,
                    {'kind': 'oracle-array-param', 'dim': dim, 'method': opt})
    # ---- 3. sequence-valued scalar parameters
    seqs = [('1d', 'cwt_br', {'scales': [2, 3, 4]}), ('1d', 'custom_bc', {'regions': [[5, 20], [30, 45]]}),
            ('1d', 'interp_pts', None), ('1d', 'golotvin', {'pad_kwargs': None}),
            ('1d', 'optimize_extended_range', {'pad_kwargs': {'extrapolate_window': [6, 9]}}),
            ('2d', 'asls', {'lam': [100.0, 1000.0]}), ('2d', 'asls', {'diff_order': [2, 1]}),
            ('2d', 'poly', {'poly_order': [2, 3]}), ('2d', 'modpoly', {'poly_order': [1, 2]}),
            ('2d', 'pspline_asls', {'num_knots': [5, 6]}), ('2d', 'pspline_asls', {'spline_degree': [3, 2]}),
            ('2d', 'mor', {'half_window': [2, 3]}), ('2d', 'noise_median', {'half_window': [2, 3]}),
            ('2d', 'arpls', {'num_eigens': [4, 5]}), ('2d', 'individual_axes', {'axes': [1, 0]})]
    for dim, name, skw in seqs:
        if only and (dim, name) != only:
            continue
        two_d = dim == '2d'
        if skw is None or any(v is None for v in skw.values()):
            continue
        axes, data, shape = base_inputs(ctx, two_d, name)
        (par, val), = skw.items()
        nested = isinstance(val, dict)
        seq = list(val.values())[0] if nested else val
        arr = np.array(seq)

        def wrap(obj):
            return {par: ({list(val.keys())[0]: obj} if nested else obj)}
        want, e0 = C.quiet(lambda: method_call(two_d, name, make_fit(two_d, axes), data, wrap(seq)))
        if e0 is not None:
            continue

        def tup(v):
            return tuple(tup(u) for u in v) if isinstance(v, list) else v
        forms = [('tuple', tup(seq)), ('ndarray', arr)]
        if arr.dtype.kind == 'i':
            forms += [('int32', arr.astype(np.int32)), ('uint8', arr.astype(np.uint8)), ('int16', arr.astype(np.int16)),
                      ('int8', arr.astype(np.int8)), ('uint16', arr.astype(np.uint16))]
        else:
            forms += [('float32', arr.astype(np.float32)), ('int64', arr.astype(np.int64))]
        for tag, obj in (forms if full else forms[:2] + rng.sample(forms[2:], 2)):
            got, e = C.quiet(lambda: method_call(two_d, name, make_fit(two_d, axes), data, wrap(obj)))
            compare(ctx, orc, dim, name, f'{par}={tag}', got, e, want,
                    {'kind': 'oracle-array-param', 'dim': dim, 'method': name})
    return orc.n_cmp - n0


def regressions(ctx, orc):
    """Three discrepancies found by this check and repaired in /repo (c2bed14, c307817, b9b374c): ordinary cases with fixed
    keys, evaluated on every run with fixed inputs."""
    C = _C()
    from pybaselines import Baseline, Baseline2D
    x = np.linspace(-3.0, 12.0, 59)
    y = M.make_y(np.random.default_rng([ctx.seed, 58]), x, 'noise')
    w = np.round(0.25 + 0.75 * np.random.default_rng(1).random(59), 3)

    def oer(ww):
        return Baseline(x).optimize_extended_range(y, method='asls', min_value=2, max_value=4, method_kwargs={'weights': ww})
    want, e0 = C.quiet(lambda: oer(w))
    if e0 is None:
        for tag, ww in (('(N,1)', w.reshape(-1, 1)), ('(1,N)', w.reshape(1, -1))):
            got, e = C.quiet(lambda: oer(ww))
            compare(ctx, orc, '1d', 'optimize_extended_range', f'method_kwargs.weights={tag}', got, e, want,
                    {'kind': 'oracle-regression', 'which': 'oer'})
    x2, z2, y2 = M.make_z2d(np.random.default_rng([ctx.seed, 59]), 12, 15)
    al = np.round(0.25 + 0.75 * np.random.default_rng(3).random((12, 15)), 3).astype(np.float32)
    want, e0 = C.quiet(lambda: Baseline2D(x2, z2).aspls(y2, lam=1e2, alpha=al.astype(float)))
    if e0 is None:
        got, e = C.quiet(lambda: Baseline2D(x2, z2).aspls(y2, lam=1e2, alpha=al))
        compare(ctx, orc, '2d', 'aspls', 'alpha=float32', got, e, want, {'kind': 'oracle-regression', 'which': 'alpha'})
    want, e0 = C.quiet(lambda: Baseline(x).cwt_br(y, poly_order=2, scales=[2, 3, 4]))
    if e0 is None:
        for dt in (np.uint8, np.uint16):
            got, e = C.quiet(lambda: Baseline(x).cwt_br(y, poly_order=2, scales=np.array([2, 3, 4], dtype=dt)))
            compare(ctx, orc, '1d', 'cwt_br', f'scales={np.dtype(dt).name}', got, e, want,
                    {'kind': 'oracle-regression', 'which': 'scales'})
