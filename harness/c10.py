"""C10 -- answers do not depend on the linear-algebra backend or optional dependencies.
DESIGN.md section 4 / C10.

Proof: coq/props/C10.v (configuration model over gen/GenC10.v, C11 layout theorems).
Tie 1 (translator): tools/gen_c10.py regenerates gen/GenC10.v (banded_solver thresholds, flag
  expressions of reset_diagonals, the arms of PenalizedSystem.solve, the jit shim) from the source.
Tie 2 (exact-input correspondence): worker processes with REAL import blockers for numba / pentapy
  capture, at the library boundary, what every band-assembling method hands to pentapy.solve /
  solveh_banded / solve_banded under all 16 configurations for integer inputs; the bands must equal the
  model's (evaluated inside Coq), and after an independent densification by the library's documented
  storage convention the dense matrices must be EQUAL across the 16 configurations and equal to the
  documented matrix of the theorems.  No tolerance.
Direct oracle: every catalogue method and targeted parameter variants under all 16 configurations in
  worker processes; baselines compared with the reference configuration."""
import json
import os
import subprocess
import sys
from concurrent.futures import ThreadPoolExecutor
from fractions import Fraction

import numpy as np

from . import methods
from .common import VERIF, REPO, coqbool, zl, zlist, zlist2

PROP = 'C10'

HEADER = """From Coq Require Import ZArith List Bool.
From PB Require Import lib.SumZ lib.PySlice lib.Arr lib.CaseUtil C11.DtD C11.Table gen.GenBands C11.Banded
                       C10.Syntax gen.GenC10 C10.Model.
Import ListNotations.
Open Scope Z_scope.
"""

ENVS = [(0, 0), (0, 1), (1, 0), (1, 1)]        # (block_numba, block_pentapy)
BS = [1, 2, 3, 4]
REF = ((0, 0), 2)                              # reference configuration: default environment, banded_solver 2
METH_CODE = {'plain': 0, 'iasls': 1, 'drpls': 2, 'aspls': 3, 'jbcd1': 4, 'jbcd2': 5}
COQ_METHOD = ['MPlain', 'MIasls', 'MDrpls', 'MAspls', 'MJbcd1', 'MJbcd2']


# ------------------------------------------------------------------ workers
def spawn(env, job, timeout=900):
    e = dict(os.environ)
    e['PYTHONPATH'] = f'{VERIF}:{REPO}'
    e.setdefault('NUMBA_CACHE_DIR', os.path.join(VERIF, '.cache', 'numba'))
    e['PYTHONDONTWRITEBYTECODE'] = '1'
    e['PYTHONHASHSEED'] = '0'
    for k in ('OMP_NUM_THREADS', 'OPENBLAS_NUM_THREADS', 'MKL_NUM_THREADS'):
        e[k] = '1'
    p = subprocess.run([sys.executable, '-m', 'harness.c10_worker', str(env[0]), str(env[1])],
                       input=json.dumps(job), stdout=subprocess.PIPE, stderr=subprocess.PIPE, text=True,
                       cwd=VERIF, env=e, timeout=timeout)
    for line in p.stdout.split('\n'):
        if line.startswith('C10RESULT'):
            return json.loads(line[len('C10RESULT'):])
    raise RuntimeError(f'worker {env} failed (rc={p.returncode}): {p.stderr[-1500:]}')


def run_workers(tasks):
    """tasks: list of (env, job) -> list of results (same order), in parallel."""
    with ThreadPoolExecutor(max_workers=min(len(tasks), max(2, (os.cpu_count() or 4)))) as ex:
        futs = [ex.submit(spawn, env, job) for env, job in tasks]
        return [f.result() for f in futs]


# ------------------------------------------------------------------ capture cases
def gen_capture_cases(ctx):
    rng = ctx.rng
    cases = []
    reps = ctx.n(1, 3)
    for method in ('asls', 'arpls', 'iasls', 'drpls', 'aspls', 'jbcd'):
        for d in (1, 2, 3, 4):
            if method in ('iasls', 'drpls') and d < 2:
                continue
            sizes = {d + 2, 2 * d + 1, 3 * d + 2}
            if method == 'arpls':
                sizes = {d + 3}
            while len(sizes) < (1 if method == 'arpls' else 3 + reps):
                sizes.add(rng.randint(d + 2, ctx.n(14, 22)))
            for N in sorted(sizes):
                if method == 'jbcd' and N < 5:
                    continue
                lam = 2 ** rng.randint(0, 10)
                y = [rng.randint(-40, 40) for _ in range(N)]
                w = [rng.choice([0, 1, 1, 2, 3]) for _ in range(N)]
                for i in rng.sample(range(N), min(N, d + 2)):
                    w[i] = max(w[i], 1)
                kw = {'lam': float(lam), 'diff_order': d, 'max_iter': 0}
                arrays = {'weights': w}
                p, q, alpha = 0, 0, []
                if method in ('asls', 'iasls'):
                    kw['p'] = 0.25
                if method == 'iasls':
                    p = 2 ** rng.randint(0, 4)
                    kw['lam_1'] = float(p)
                elif method == 'drpls':
                    p = rng.choice([0, 1, 1])
                    kw['eta'] = float(p)
                elif method == 'aspls':
                    alpha = [rng.choice([0, 1, 2, 3]) for _ in range(N)]
                    arrays['alpha'] = alpha
                elif method == 'jbcd':
                    gamma, beta, q = rng.choice([1, 2, 8]), rng.choice([1, 3, 4]), rng.choice([0, 1, 2])
                    hw = rng.choice([1, 2])
                    kw = {'half_window': hw, 'alpha': float(q), 'beta': float(beta), 'gamma': float(gamma),
                          'diff_order': d, 'max_iter': 0, 'robust_opening': False}
                    arrays = {}
                    p = (gamma, beta)
                    lam = 1
                cases.append({'id': f'c{len(cases)}', 'method': method, 'N': N, 'd': d, 'lam': lam, 'p': p, 'q': q,
                              'y': y, 'w': w, 'alpha': alpha, 'kw': kw, 'arrays': arrays, 'bs_list': BS,
                              'ncalls': 2 if method == 'jbcd' else 1})
    return cases


def exact_ints(a):
    out = []
    for row in a:
        r = []
        for v in row:
            f = Fraction(float(v))
            if f.denominator != 1:
                return None
            r.append(int(f))
        out.append(r)
    return out


def densify(call, N):
    """Independent converter: the dense matrix a captured library call denotes, by the library's own
    documented storage convention (Fractions of the exact float values)."""
    ab = [[Fraction(float(v)) for v in row] for row in call['ab']]
    A = [[Fraction(0)] * N for _ in range(N)]
    kw = call['kw']
    if any(len(row) != N for row in ab):
        raise ValueError(f'band rows of length {[len(r) for r in ab]} for N={N}')
    if call['solver'] == 'penta':
        if len(ab) != 5 or not kw.get('is_flat'):
            raise ValueError(f'pentapy.solve called with {len(ab)} rows, is_flat={kw.get("is_flat")}')
        for i in range(N):
            for j in range(max(0, i - 2), min(N, i + 3)):
                # row-wise flat: mat[r, i] = A[i, i + 2 - r]; column-wise flat: LAPACK ab[2 + i - j, j]
                A[i][j] = ab[2 + i - j][i] if kw.get('index_row_wise') else ab[2 + i - j][j]
        return A
    if call['solver'] == 'solveh':
        if not kw.get('lower'):
            raise ValueError('solveh_banded called with lower=False on lower-band storage')
        for r in range(len(ab)):
            for j in range(N - r):
                A[j + r][j] = ab[r][j]
                A[j][j + r] = ab[r][j]
        return A
    l, u = kw['l_and_u']
    if len(ab) != l + u + 1:
        raise ValueError(f'solve_banded l_and_u={kw["l_and_u"]} with {len(ab)} rows')
    for i in range(N):
        for j in range(max(0, i - l), min(N, i + u + 1)):
            A[i][j] = ab[u + i - j][j]
    return A


def solver_code(call, N):
    kw = call['kw']
    if call['solver'] == 'penta':
        return [0, int(bool(kw['is_flat'])), int(bool(kw['index_row_wise'])), int(kw['solver'])]
    if call['solver'] == 'solveh':
        return [1, int(bool(kw['lower'])), 0, 0]
    return [2, kw['l_and_u'][0], kw['l_and_u'][1], 0]


COQ_OK = """
Definition cap_t := (list Z * list (list Z) * list Z * list (list Z) * (bool * bool * bool))%type.
Definition case_t := (Z * (Z * bool) * (nat * nat) * (Z * Z * Z) * (list Z * list Z * list Z) * bool * cap_t)%type.
Definition meth (m : Z) : method :=
  if m =? 0 then MPlain else if m =? 1 then MIasls else if m =? 2 then MDrpls else if m =? 3 then MAspls
  else if m =? 4 then MJbcd1 else MJbcd2.
Definition beqb3 (a b : bool * bool * bool) : bool :=
  let '(a1, a2, a3) := a in let '(b1, b2, b3) := b in Bool.eqb a1 b1 && Bool.eqb a2 b2 && Bool.eqb a3 b3.
(* (a) the model's call = the captured call (entry point + keyword constants, bands, rhs);
   (b) the model's denotation = the independently densified captured bands = the documented matrix;
   (c) the flags at PenalizedSystem.solve are those of the generated expressions *)
Definition ok (cs : case_t) : bool :=
  let '(mz, (bs, hp), (N, d), (lam, p, q), (w, a, y), chk, (ecode, eab, eb, edense, eflags)) := cs in
  let m := meth mz in
  let Nz := Z.of_nat N in
  let x := {| i_lam := lam; i_p := p; i_q := q; i_w := of_list w; i_a := of_list a; i_y := of_list y |} in
  let c := {| cf_bs := bs; cf_penta := hp; cf_numba := true |} in
  let al := match m with MDrpls | MAspls => false | _ => true end in
  let rv := match m with MDrpls => Some false | MAspls => Some true | _ => None end in
  let fl := (flag_lower c d al,
             xorb (flag_rev c d rv) (match m with MDrpls => flag_penta c d | _ => false end),
             flag_penta c d) in
  match run m c N d x with
  | None => false
  | Some k =>
      let '(code, ab, b) := observe_call Nz k in
      zl_eqb code ecode && zll_eqb ab eab && (negb chk || zl_eqb b eb)
      && (negb chk || zl_eqb (vec Nz (doc_rhs m N x)) eb)
      && zll_eqb (dense Nz (den k)) edense && zll_eqb (dense Nz (doc m N d x)) edense
      && call_wf Nz k && beqb3 fl eflags
  end.
"""


def correspondence(ctx, cases, results):
    """results[env] = worker output.  Returns number of Coq cases."""
    lits = []
    py_bad = 0
    for case in cases:
        N, d, method = case['N'], case['d'], case['method']
        for ci in range(case['ncalls']):
            mname = {'asls': 'plain', 'arpls': 'plain', 'jbcd': f'jbcd{ci + 1}'}.get(method, method)
            dense_ref = None
            rhs_ref = None
            per_cfg = {}
            for env in ENVS:
                cap = results[env]['capture'][case['id']]
                for bs in BS:
                    r = cap[str(bs)]
                    key = {'kind': 'capture', 'method': method, 'call': ci, 'N': N, 'd': d, 'bs': bs,
                           'block_numba': env[0], 'block_pentapy': env[1], 'kw': case['kw'], 'y': case['y'],
                           'arrays': case['arrays']}
                    ctx.case(('cap', case['id'], ci, env, bs), nontrivial=True,
                             kind=f'capture:{mname}:d={d}:bs={bs}:numba={1 - env[0]}:pentapy={1 - env[1]}')
                    if len(r['calls']) <= ci:
                        py_bad += 1
                        ctx.fail(f'capture:{mname}:no-solver-call', f'{method} (N={N}, diff_order={d}, banded_solver={bs}, '
                                 f'numba blocked={env[0]}, pentapy blocked={env[1]}): no library solver call was made '
                                 f'({r["exc"]})', key)
                        continue
                    call, flags = r['calls'][ci], r['flags'][ci]
                    try:
                        A = densify(call, N)
                    except ValueError as e:
                        py_bad += 1
                        ctx.fail(f'dispatch:{mname}:d={d}', f'{method} (N={N}, diff_order={d}, banded_solver={bs}, numba blocked='
                                 f'{env[0]}, pentapy blocked={env[1]}): {e}', key)
                        continue
                    b = [Fraction(float(v)) for v in call['b']]
                    # entry point must be the one the flags announce, and pentapy only when importable
                    exp_solver = 'penta' if flags[2] else ('solveh' if flags[0] else 'solve_banded')
                    if call['solver'] != exp_solver or (call['solver'] == 'penta' and env[1]):
                        py_bad += 1
                        ctx.fail(f'dispatch:{mname}:entry-point', f'{method}: flags {flags} but entry point {call["solver"]} '
                                 f'(pentapy blocked={env[1]})', key)
                    if call['solver'] == 'penta' and call['kw']['solver'] != (bs if bs < 3 else 1):
                        py_bad += 1
                        ctx.fail('dispatch:pentapy-solver', f'{method}: banded_solver={bs} but pentapy solver={call["kw"]["solver"]}', key)
                    if dense_ref is None:
                        dense_ref, rhs_ref, ref_key = A, b, (env, bs)
                    else:
                        if A != dense_ref:
                            i, j = next((i, j) for i in range(N) for j in range(N) if A[i][j] != dense_ref[i][j])
                            py_bad += 1
                            ctx.fail(f'config:{mname}:d={d}:matrix',
                                     f'{method} (N={N}, diff_order={d}): the matrix handed to {call["solver"]} under banded_solver={bs}, '
                                     f'numba blocked={env[0]}, pentapy blocked={env[1]} has entry ({i},{j}) = {A[i][j]} but under '
                                     f'configuration {ref_key} it is {dense_ref[i][j]}', key)
                        exact_rhs = not (method == 'jbcd' and ci == 1)
                        if exact_rhs and b != rhs_ref:
                            py_bad += 1
                            ctx.fail(f'config:{mname}:d={d}:rhs', f'{method} (N={N}, diff_order={d}): right-hand side differs between '
                                     f'configuration {(env, bs)} and {ref_key}', key)
                        if not exact_rhs:
                            num = max(abs(float(u - v)) for u, v in zip(b, rhs_ref))
                            den_ = max(1.0, max(abs(float(v)) for v in rhs_ref))
                            if num / den_ > 1e-9:
                                py_bad += 1
                                ctx.fail(f'config:{mname}:d={d}:rhs', f'jbcd second right-hand side differs by {num / den_:.2e} '
                                         f'between configuration {(env, bs)} and {ref_key}', key)
                    per_cfg[(env, bs)] = (call, flags, A, b)
            # numba-blocked captures must be bit-identical to the numba-present ones (same pentapy setting)
            for bp in (0, 1):
                for bs in BS:
                    a0, a1 = per_cfg.get(((0, bp), bs)), per_cfg.get(((1, bp), bs))
                    if a0 and a1 and (a0[0] != a1[0] or a0[1] != a1[1]):
                        py_bad += 1
                        ctx.fail(f'config:{mname}:numba-changes-assembly', f'{method} (N={N}, d={d}, bs={bs}): the captured solver call '
                                 'differs between numba importable and numba blocked', {'kind': 'capture', 'method': method, 'N': N, 'd': d})
            # Coq cases: the 8 (banded_solver, pentapy) configurations, numba importable
            for bp in (0, 1):
                for bs in BS:
                    got = per_cfg.get(((0, bp), bs))
                    if not got:
                        continue
                    call, flags, A, b = got
                    ab = exact_ints(call['ab'])
                    Ai = exact_ints(A)
                    chk = method != 'jbcd'
                    bi = exact_ints([call['b']]) if (chk or ci == 0) else [[0] * N]
                    if ab is None or Ai is None or bi is None:
                        py_bad += 1
                        ctx.broke('correspondence:exactness', f'captured values of {method} are not integers although the inputs are ({case["kw"]})')
                        continue
                    if method == 'jbcd':
                        gamma, beta = case['p']
                        p = gamma if ci == 0 else beta
                        a_in = bi[0]
                    else:
                        p = case['p']
                        a_in = case['alpha']
                    lits.append(
                        f'({METH_CODE[mname]}, ({bs}, {coqbool(not bp)}), ({N}%nat, {d}%nat), ({zl(case["lam"])}, {zl(p)}, {zl(case["q"])}), '
                        f'({zlist(case["w"])}, {zlist(a_in)}, {zlist(case["y"])}), {coqbool(chk)}, '
                        f'({zlist(solver_code(call, N))}, {zlist2(ab)}, {zlist(bi[0])}, {zlist2(Ai)}, '
                        f'({coqbool(flags[0])}, {coqbool(flags[1])}, {coqbool(flags[2])})))')
        if len(ctx.samples) < 3:
            ctx.sample({k: case[k] for k in ('method', 'N', 'd', 'lam', 'p', 'q')})
    ctx.traces += len(lits)
    per = 90
    shards = [lits[k:k + per] for k in range(0, len(lits), per)]

    def ev(args):
        k, sh = args
        text = HEADER + COQ_OK + f"""
Definition cases : list case_t := [
{chr(10).join('  ' + l + (';' if i + 1 < len(sh) else '') for i, l in enumerate(sh))}
].
Eval vm_compute in (bad ok cases).
"""
        return k, ctx.coq_eval(f'cap{k}', text)
    bad_any = False
    with ThreadPoolExecutor(max_workers=6) as ex:
        for k, vals in ex.map(ev, list(enumerate(shards))):
            if vals is None:
                bad_any = True
            elif not vals or not (vals[0].startswith('(0%nat, [])') or vals[0].startswith('(0, [])')):
                bad_any = True
                idx = shards[k]
                ctx.broke(f'correspondence:capture-shard{k}',
                          f'model / documented matrix and captured solver input disagree: {vals}; first case of shard: {idx[0][:300]}')
    ob = 'correspondence:captured-solver-calls(16 configurations; model bands, dense equality, documented matrix)'
    ctx.obligations.append(ob)
    if not bad_any and not py_bad and lits:
        ctx.discharged.append(ob)
    elif not lits:
        ctx.broke('correspondence:no-cases', 'no capture case reached Coq')
    return len(lits)


def check_facts(ctx, results):
    """Environment facts: the blockers really took effect; the shim behaves as its model."""
    ob = 'correspondence:import-blockers-and-jit-shim'
    ctx.obligations.append(ob)
    good = True
    for env in ENVS:
        f = results[env]['facts']
        if f['HAS_NUMBA'] != (not env[0]) or f['HAS_PENTAPY'] != (not env[1]) \
                or f['numba_loaded'] != (not env[0]) or f['pentapy_loaded'] != (not env[1]):
            good = False
            ctx.broke(ob, f'worker {env}: flags {f["HAS_NUMBA"]}/{f["HAS_PENTAPY"]}, loaded {f["numba_loaded"]}/{f["pentapy_loaded"]}')
        if env[0]:
            for name, vals in f.get('shim', {}).items():
                ctx.case(('shim', env, name), nontrivial=True, kind='shim')
                if not all(vals):
                    good = False
                    ctx.fail(f'shim:{name}', f'no-numba jit shim: decorator shape `{name}` does not behave as the undecorated '
                             f'function (checks {vals})', {'kind': 'shim', 'shape': name, 'env': env})
            if 'shim' not in f:
                good = False
                ctx.broke(ob, 'shim tests did not run in the numba-blocked worker')
        if env[1] and f.get('penta_dummy') != 'NotImplementedError':
            good = False
            ctx.fail('compat:pentapy-dummy', f'_pentapy_solve fallback: {f.get("penta_dummy")}', {'kind': 'facts', 'env': env})
    disp = {k for k, v in results[(0, 0)]['facts']['kernels'].items() if v == 'dispatcher'}
    for env in ((1, 0), (1, 1)):
        ker = results[env]['facts']['kernels']
        missing = sorted(k for k in disp if ker.get(k) != 'wrapper')
        if missing:
            good = False
            ctx.fail('shim:kernel-binding', f'kernels not bound to a functools.wraps wrapper without numba: {missing}',
                     {'kind': 'facts', 'env': env})
    ctx.extra['jit_kernels'] = sorted(disp)
    if good:
        ctx.discharged.append(ob)



# ------------------------------------------------------------------ growth: banded products of beads
BDB_HEADER = """From Coq Require Import ZArith List Bool.
From PB Require Import lib.SumZ lib.Arr lib.CaseUtil C10.BeadsModel.
Import ListNotations.
Open Scope Z_scope.
Definition case_t := ((Z * Z * Z * Z * bool) * list (list Z) * list (list Z) * list (list Z) * list (list Z))%type.
(* the kernel's cells and the wrapper's output (with the completion loop) are the model's *)
Definition ok (cs : case_t) : bool :=
  let '((al, au, bl, bu, sym), a, b, ekernel, ewrapper) := cs in
  let A := of_rows a in let B := of_rows b in
  let n := nc A in
  let cu := c_upper au bu n in let cl := c_lower al bl n in
  zll_eqb (tab (kernel A B al au bl bu cu n (if sym then 0 else al + bl) (cl + cu + 1))) ekernel
  && zll_eqb (tab (banded_dot_banded A B al au bl bu sym)) ewrapper.
"""


def gen_bdb_cases(ctx):
    rng = ctx.rng
    cases = []
    for k in range(ctx.n(60, 240)):
        n = rng.choice([1, 2, 3, 3, 4, 5, 6, 7, 9, 12])
        sym = rng.random() < 0.5
        if sym:
            # what beads does: symmetric band matrices with equal lower/upper counts
            al = au = rng.randint(0, 3)
            bl = bu = rng.randint(0, 3)
            if al + bl > 2 * n - 1:
                continue
        else:
            al, au, bl, bu = (rng.randint(0, 3) for _ in range(4))

        def band(l, u, symm):
            rows = [[rng.randint(-5, 5) for _ in range(n)] for _ in range(l + u + 1)]
            if symm:   # LAPACK storage of a symmetric matrix: ab[u + o, j] = ab[u - o, j + o]
                for o in range(1, l + 1):
                    for j in range(n):
                        rows[u + o][j] = rows[u - o][j + o] if j + o < n else 0
            return rows
        same = sym and rng.random() < 0.5 and al == bl
        a = band(al, au, sym)
        b = a if same else band(bl, bu, sym)
        cases.append({'id': f'k{len(cases)}', 'n': n, 'al': al, 'au': au, 'bl': bl, 'bu': bu, 'sym': int(sym), 'a': a, 'b': b})
    return cases


def dense_of_bands(rows, l, u, n):
    A = [[0] * n for _ in range(n)]
    for i in range(n):
        for j in range(n):
            if -u <= i - j <= l:
                A[i][j] = int(rows[u + i - j][j])
    return A


def check_bdb(ctx, cases, results):
    ob = 'correspondence:_numba_banded_dot_banded/_banded_dot_banded (numba, py_func, no-numba = model; = dense product)'
    ctx.obligations.append(ob)
    good = True
    lits = []
    for case in cases:
        n, al, au, bl, bu, sym = (case[k] for k in ('n', 'al', 'au', 'bl', 'bu', 'sym'))
        outs = []
        for env in ENVS:
            r = results[env]['bdb'].get(case['id'])
            if r is None:
                continue
            for name in ('wrapper', 'kernel', 'py_func'):
                if name in r:
                    outs.append((env, name, r[name]))
                elif name + '_exc' in r:
                    good = False
                    ctx.fail(f'beads-product:{name}:raises', f'_banded_dot_banded{(n, al, au, bl, bu, bool(sym))} raised {r[name + "_exc"]} '
                             f'(numba blocked={env[0]})', {'kind': 'bdb', 'case': case, 'env': env})
        ctx.case(('bdb', n, al, au, bl, bu, sym, json.dumps(case['a']), json.dumps(case['b'])), nontrivial=n > 1,
                 kind=f'bdb:sym={sym}:clamped={int(au + bu > n - 1 or al + bl > n - 1)}')
        ker = [o for o in outs if o[1] in ('kernel', 'py_func')]
        wr = [o for o in outs if o[1] == 'wrapper']
        if not ker or not wr:
            continue
        for grp in (ker, wr):
            for o in grp[1:]:
                if o[2] != grp[0][2]:
                    good = False
                    ctx.fail('beads-product:numba-vs-python', f'_banded_dot_banded{(n, al, au, bl, bu, bool(sym))}: {o[1]} output under numba '
                             f'blocked={o[0][0]} differs from {grp[0][1]} under numba blocked={grp[0][0][0]}', {'kind': 'bdb', 'case': case})
        # independent dense product
        A, B = dense_of_bands(case['a'], al, au, n), dense_of_bands(case['b'], bl, bu, n)
        C = [[sum(A[i][k] * B[k][j] for k in range(n)) for j in range(n)] for i in range(n)]
        cu, cl = min(au + bu, n - 1), min(al + bl, n - 1)
        W = wr[0][2]
        clamped = (al + bl > n - 1) or (au + bu > n - 1)
        if not (sym and clamped):       # the clamped symmetric completion is outside the theorem (source TODO)
            for i in range(n):
                for j in range(n):
                    want = C[j][i] if (sym and i > j) else C[i][j]     # symmetric_output mirrors the computed upper bands
                    if -cu <= i - j <= cl and W[cu + i - j][j] != want:
                        good = False
                        ctx.fail(f'beads-product:value:sym={sym}', f'_banded_dot_banded{(n, al, au, bl, bu, bool(sym))}: band entry for '
                                 f'({i},{j}) is {W[cu + i - j][j]} but the product has {want}', {'kind': 'bdb', 'case': case})
                        break
        ek, ew = exact_ints(ker[0][2]), exact_ints(W)
        if ek is None or ew is None:
            good = False
            ctx.broke(ob, 'non-integer output for integer band arrays')
            continue
        lits.append(f'(({al}, {au}, {bl}, {bu}, {coqbool(sym)}), {zlist2(case["a"])}, {zlist2(case["b"])}, {zlist2(ek)}, {zlist2(ew)})')
    per = 80
    shards = [lits[k:k + per] for k in range(0, len(lits), per)]
    for k, sh in enumerate(shards):
        text = BDB_HEADER + f"""
Definition cases : list case_t := [
{chr(10).join('  ' + l + (';' if i + 1 < len(sh) else '') for i, l in enumerate(sh))}
].
Eval vm_compute in (bad ok cases).
"""
        vals = ctx.coq_eval(f'bdb{k}', text)
        if vals is None or not vals or not (vals[0].startswith('(0%nat, [])') or vals[0].startswith('(0, [])')):
            good = False
            if vals is not None:
                ctx.broke(f'correspondence:bdb-shard{k}', f'model of _numba_banded_dot_banded / _banded_dot_banded and implementation disagree: {vals}')
    ctx.traces += len(lits)
    if good and lits:
        ctx.discharged.append(ob)
    return len(lits)


# ------------------------------------------------------------------ growth: PSpline.solve_pspline, exact dyadic inputs
def gen_ps_cases(ctx):
    rng = ctx.rng
    cases = []
    for method in ('pspline_asls', 'pspline_arpls', 'pspline_iasls', 'pspline_aspls', 'pspline_drpls'):
        for deg in (0, 1, 2):
            for k in range(ctx.n(2, 5)):
                seg = rng.choice([2, 4, 8])                  # num_knots - 1 inner segments, a power of two
                per = rng.choice([1, 2, 4])                  # data points per segment
                n = seg * per + 1
                d = rng.choice([1, 2, 3])
                if method in ('pspline_iasls', 'pspline_drpls'):
                    d = max(d, 2)
                if seg + deg <= d + 1:
                    continue
                x = [float(v) * (8.0 / (n - 1)) for v in range(n)]     # dyadic grid on [0, 8]
                y = [rng.randint(-20, 20) for _ in range(n)]
                w = [rng.choice([0, 1, 1, 2, 3]) for _ in range(n)]
                kw = {'lam': float(2 ** rng.randint(0, 6)), 'num_knots': seg + 1, 'spline_degree': deg, 'diff_order': d, 'max_iter': 0}
                if method in ('pspline_asls', 'pspline_iasls'):
                    kw['p'] = 0.25
                if method == 'pspline_iasls':
                    kw['lam_1'] = float(2 ** rng.randint(0, 3))
                if method == 'pspline_drpls':
                    kw['eta'] = float(rng.choice([0, 1]))
                arrays = {'weights': w}
                if method == 'pspline_aspls':
                    arrays['alpha'] = [rng.choice([0, 1, 2, 3]) for _ in range(n)]
                cases.append({'id': f'p{len(cases)}', 'method': method, 'x': x, 'y': y, 'kw': kw, 'arrays': arrays, 'bs_list': BS,
                              'ncalls': 1, 'want_basis': True, 'N': n, 'd': d, 'deg': deg})
    return cases


def check_ps(ctx, cases, results):
    """Exact (Fraction) equality of the system handed to the solver by PSpline.solve_pspline across numba
    importable / blocked x banded_solver 1-4, of the design matrix itself, and -- for pspline_asls/arpls --
    with B'WB + lam D'D, B'Wy computed independently from the captured design matrix."""
    ob = 'correspondence:PSpline.solve_pspline(numba accumulation vs sparse product; 16 configurations; exact dyadic inputs)'
    ctx.obligations.append(ob)
    good = True
    ncmp = 0
    for case in cases:
        ref = None
        for env in ENVS:
            cap = results[env]['capture'].get(case['id'])
            if cap is None:
                continue
            for bs in BS:
                r = cap[str(bs)]
                key = {'kind': 'capture', 'method': case['method'], 'kw': case['kw'], 'y': case['y'], 'x': case['x'],
                       'arrays': case['arrays'], 'N': None, 'call': 0}
                ctx.case(('ps', case['id'], env, bs), nontrivial=bool(r['calls']), kind=f'pspline-capture:{case["method"]}:deg={case["deg"]}:numba={1 - env[0]}')
                if not r['calls']:
                    good = False
                    ctx.fail(f'pspline:{case["method"]}:no-solver-call', f'{case["method"]}({case["kw"]}): no solver call ({r["exc"]}) under '
                             f'banded_solver={bs}, numba blocked={env[0]}', key)
                    continue
                call = r['calls'][0]
                M = len(call['ab'][0])
                key['N'] = M
                try:
                    A = densify(call, M)
                except ValueError as e:
                    good = False
                    ctx.fail(f'pspline:{case["method"]}:dispatch', f'{case["method"]}: {e}', key)
                    continue
                b = [Fraction(float(v)) for v in call['b']]
                Bm = [[Fraction(float(v)) for v in row] for row in r['basis']]
                fl = r['flags'][0] if r['flags'] else [None]
                if call['solver'] != ('solveh' if fl[0] else 'solve_banded') or (bs == 4 and call['solver'] != 'solve_banded'):
                    good = False
                    ctx.fail('pspline:dispatch:entry-point', f'{case["method"]}: banded_solver={bs} reached {call["solver"]}', key)
                ncmp += 1
                if ref is None:
                    ref = (A, b, Bm, (env, bs))
                    continue
                for what, u, v in (('matrix', A, ref[0]), ('right-hand side', b, ref[1]), ('design matrix', Bm, ref[2])):
                    if u != v:
                        good = False
                        ctx.fail(f'pspline:{case["method"]}:{what.replace(" ", "-")}', f'{case["method"]}({case["kw"]}) on the dyadic grid n={case["N"]}: the '
                                 f'{what} under banded_solver={bs}, numba blocked={env[0]}, pentapy blocked={env[1]} differs from the one under {ref[3]}', key)
        if ref is not None and case['method'] in ('pspline_asls', 'pspline_arpls'):
            A, b, Bm, _ = ref
            n, M, d = len(Bm), len(Bm[0]), case['d']
            w = [Fraction(v) for v in case['arrays']['weights']]
            y = [Fraction(v) for v in case['y']]
            D = [[Fraction(int(i == j)) for j in range(M)] for i in range(M)]
            for _ in range(d):
                D = [[D[i + 1][j] - D[i][j] for j in range(M)] for i in range(len(D) - 1)]
            lam = Fraction(case['kw']['lam'])
            for r_ in range(M):
                for c_ in range(M):
                    want = sum(Bm[i][r_] * Bm[i][c_] * w[i] for i in range(n)) + lam * sum(D[k][r_] * D[k][c_] for k in range(len(D)))
                    if A[r_][c_] != want:
                        good = False
                        ctx.fail(f'pspline:{case["method"]}:documented', f'{case["method"]}({case["kw"]}): entry ({r_},{c_}) of the system is {A[r_][c_]} '
                                 f"but B'WB + lam D'D has {want}", {'kind': 'capture', 'method': case['method']})
                        break
            if b != [sum(Bm[i][r_] * w[i] * y[i] for i in range(n)) for r_ in range(M)]:
                good = False
                ctx.fail(f'pspline:{case["method"]}:documented-rhs', f"{case['method']}({case['kw']}): right-hand side is not B'Wy", {'kind': 'capture', 'method': case['method']})
    if good and ncmp:
        ctx.discharged.append(ob)
    return ncmp


# ------------------------------------------------------------------ growth: beads on very short data
def tiny_beads_jobs(ctx):
    jobs = []
    for n in (3, 4, 5, 6, 8, 9, 12):
        for ft in (1, 2):
            y = [float(ctx.rng.randint(0, 9)) + 0.25 * k for k in range(n)]
            jobs.append({'id': f't{len(jobs)}', 'method': 'beads', 'n': n, 'seed': 0, 'y': y, 'bs_list': [2], 'tag': 'beads-tiny',
                         'kw': {'freq_cutoff': 0.1, 'filter_type': ft, 'max_iter': 2, 'tol': 0.0, 'fit_parabola': False}})
    return jobs


def check_tiny_beads(ctx, jobs, results):
    for job in jobs:
        ft, n = job['kw']['filter_type'], job['n']
        got = {env: results[env]['oracle'].get(job['id'], {}).get('2') for env in ENVS}
        if any(v is None for v in got.values()):
            continue
        ctx.case(('tiny-beads', n, ft), nontrivial=True, kind='oracle:beads-tiny')
        excs = {env: v.get('exc') for env, v in got.items()}
        if len(set(excs.values())) > 1:
            with_nb = sorted({str(excs[e]) for e in ENVS if not e[0]})
            without = sorted({str(excs[e]) for e in ENVS if e[0]})
            ctx.fail('oracle:beads:short-data:numba-only-exception',
                     f'beads(filter_type={ft}) on {n} data points: with numba importable -> {with_nb} '
                     f'(None = a baseline is returned), with numba blocked -> {without}; the banded path (_banded_dot_vector on the '
                     f'{4 * ft + 1}-band B @ B) needs n >= {4 * ft + 1}, the sparse path does not',
                     {'kind': 'oracle', 'job': dict(job, id='t'), 'block_numba': 1, 'block_pentapy': 0, 'bs': 2})



# ------------------------------------------------------------------ round 6: entry points that keep the caller's x order; kernel/fallback pairs
ORDERS = ['sorted', 'reversed', 'shuffled', 'repeated', 'appended']


def entry_jobs(ctx):
    """FIXED grid (no random draws except the data seed): public utilities and helper classes that do NOT sort x, under
    every x ordering, some memory layouts; compared across the numba / pentapy environments like any oracle job."""
    jobs = []

    def add(entry, kw, order='sorted', layout='c', n=48):
        jobs.append({'id': f'e{len(jobs)}', 'method': 'entry:' + entry, 'entry': entry, 'n': n, 'seed': 1000 + len(jobs), 'kw': kw,
                     'bs_list': [2], 'tag': f'entry:order={order}:layout={layout}', 'order': order, 'layout': layout, 'ykind': f'{order}/{layout}'})
    for order in ORDERS:
        for deg in (1, 3):
            for uw in (False, True):
                add('pspline_smooth', {'lam': 10.0, 'num_knots': 8, 'spline_degree': deg, 'diff_order': 2, 'use_weights': uw}, order)
        for al in (True, False):
            add('pspline_direct', {'lam': 10.0, 'num_knots': 9, 'spline_degree': 3, 'diff_order': 2, 'allow_lower': al, 'use_weights': True}, order)
        for deg in (0, 2, 3):
            add('spline_basis', {'num_knots': 7, 'spline_degree': deg}, order)
    for layout in ('strided', 'negstride'):
        for order in ('sorted', 'shuffled'):
            add('pspline_smooth', {'lam': 10.0, 'num_knots': 8, 'spline_degree': 3, 'diff_order': 2, 'use_weights': True}, order, layout)
            add('whittaker_smooth', {'lam': 100.0, 'diff_order': 2, 'use_weights': True}, order, layout)
    for d in (1, 2, 3):
        for uw in (False, True):
            add('whittaker_smooth', {'lam': 100.0, 'diff_order': d, 'use_weights': uw}, 'shuffled')
        for al in (True, False):
            for ap in (True, False):
                add('penalized_direct', {'lam': 100.0, 'diff_order': d, 'allow_lower': al, 'allow_pentapy': ap, 'use_weights': True,
                                         'pentapy_solver': 1 + (d % 2)}, 'shuffled')
        add('difference_matrix', {'diff_order': d}, n=9)
    # exactly-zero weights (some / many / at the ends / only the last sample) crossed with non-finite data AT those samples,
    # input validation switched off (check_finite=False): IEEE 0 * NaN = NaN, every backend must propagate alike
    for zw in ('some', 'many', 'ends', 'last'):
        for nf in (None, 'nan', '+inf', '-inf'):
            for entry, kw in (('pspline_smooth', {'lam': 10.0, 'num_knots': 8, 'spline_degree': 3, 'diff_order': 2, 'use_weights': True, 'check_finite': False}),
                              ('pspline_direct', {'lam': 10.0, 'num_knots': 9, 'spline_degree': 2, 'diff_order': 2, 'allow_lower': zw != 'many', 'use_weights': True}),
                              ('whittaker_smooth', {'lam': 100.0, 'diff_order': 2, 'use_weights': True, 'check_finite': False}),
                              ('penalized_direct', {'lam': 100.0, 'diff_order': 2, 'allow_lower': zw != 'ends', 'allow_pentapy': True, 'use_weights': True})):
                add(entry, dict(kw), 'shuffled' if zw == 'some' else 'sorted')
                jobs[-1].update({'zero_w': zw, 'nf': nf, 'tag': f'entry:zero_w={zw}:nf={nf}', 'ykind': f'zero_w={zw}/nf={nf}'})
    add('optimize_window', {})
    add('optimize_window', {'increment': 2, 'max_hits': 2})
    for mode in ('extrapolate', 'reflect', 'edge'):
        add('pad_edges', {'pad_length': 6, 'mode': mode}, 'shuffled')
    add('pad_edges', {'pad_length': 6, 'mode': 'extrapolate', 'extrapolate_window': 5}, 'shuffled', 'strided')
    add('padded_convolve', {'window': 7, 'sigma': 1.5}, 'shuffled')
    # appended (round 8): closed-loop x (first == last, many distinct values)
    add('pspline_smooth', {'lam': 10.0, 'num_knots': 8, 'spline_degree': 3, 'diff_order': 2, 'use_weights': True}, 'closed', n=41)
    add('spline_basis', {'num_knots': 7, 'spline_degree': 3}, 'closed', n=41)
    add('pspline_direct', {'lam': 10.0, 'num_knots': 9, 'spline_degree': 2, 'diff_order': 2, 'allow_lower': True, 'use_weights': True}, 'closed', n=41)
    return jobs


def pair_cases():
    cases = []
    for order in ORDERS:
        for deg, nk in ((1, 6), (2, 6), (3, 10), (3, 5)):
            cases.append({'id': f'q{len(cases)}', 'n': 40 + 3 * len(cases) % 17, 'seed': 500 + len(cases), 'order': order, 'degree': deg,
                          'num_knots': nk, 'allow_lower': len(cases) % 2 == 0})
    for zw in ('some', 'many', 'ends', 'last'):
        for nf in (None, 'nan', '+inf', '-inf'):
            cases.append({'id': f'q{len(cases)}', 'n': 40, 'seed': 700 + len(cases), 'order': 'shuffled' if zw == 'many' else 'sorted',
                          'degree': 3 if zw != 'ends' else 1, 'num_knots': 8, 'allow_lower': zw != 'some', 'zero_w': zw, 'nf': nf})
    for deg, nk in ((1, 6), (3, 8)):           # appended (round 8): closed-loop x, first == last
        cases.append({'id': f'q{len(cases)}', 'n': 41, 'seed': 900 + len(cases), 'order': 'closed', 'degree': deg, 'num_knots': nk,
                      'allow_lower': True})
    return cases


def check_pairs(ctx, cases, results):
    """Every optionally compiled kernel that has a different fallback implementation (list pinned in coq/C10/Sites.v) agrees
    with that fallback, in every environment, on sorted AND non-monotone x."""
    ob = 'correspondence:kernel-vs-fallback pairs (design matrix routes, _numba_btb_bty vs sparse product, solve_pspline arms) on all x orders'
    ctx.obligations.append(ob)
    good, n = True, 0
    for case in cases:
        for env in ENVS:
            r = (results[env].get('pairs') or {}).get(case['id'])
            if r is None:
                continue
            ck = {'kind': 'pairs', 'case': case, 'env': list(env)}
            ctx.case(('pairs', case['id'], env), nontrivial=case['order'] != 'sorted', kind=f'pairs:order={case["order"]}:numba={1 - env[0]}')
            if 'exc' in r:
                good = False
                ctx.fail(f'pair:raises:order={case["order"]}', f'kernel / fallback pair run raised {r["exc"]} for {case} (numba blocked={env[0]})', ck)
                continue
            scale = r.get('scale', 1.0)
            for k, v in sorted(r.items()):
                if k == 'scale':
                    continue
                n += 1
                tol = 1e-8 if k == 'solve_pspline:arms' else 1e-10 * scale
                if not (v <= tol):
                    good = False
                    ctx.fail(f'pair:{k.split(":")[0]}:order={case["order"]}' + (f':zero_w={case["zero_w"]}:nf={case.get("nf")}' if case.get('zero_w') else ''),
                             f'{k} differs from its fallback / reference route by {v:.3e} (allowed {tol:.1e}) for x order `{case["order"]}`, '
                             f'spline_degree={case["degree"]}, num_knots={case["num_knots"]}, n={case["n"]}, zero weights={case.get("zero_w")}, data at those '
                             f'samples={case.get("nf") or "finite"}, numba blocked={env[0]}, pentapy blocked={env[1]}', ck)
    if good and n:
        ctx.discharged.append(ob)
    return n


# ------------------------------------------------------------------ direct oracle
LOOPY = set(methods.SCHEMA_1D)


def base_kw(name):
    import inspect
    from pybaselines import Baseline
    kw = {}
    if name in LOOPY:
        sig = inspect.signature(getattr(Baseline, name)).parameters
        if 'max_iter' in sig:
            kw['max_iter'] = 3
        if 'tol' in sig and name not in ('ipsa',):
            kw['tol'] = 0.0
    return kw


def oracle_jobs(ctx):
    rng = ctx.rng
    jobs = []

    def add(method, n, kw, tag, ykind='noise'):
        jobs.append({'id': f'o{len(jobs)}', 'method': method, 'n': n, 'seed': rng.randint(0, 10 ** 6), 'kw': kw,
                     'bs_list': BS, 'tag': tag, 'ykind': ykind})
    # A. the whole catalogue
    for name in methods.method_names():
        add(name, rng.choice([48, 64, 80]), base_kw(name), 'catalogue')
    # B. band-layout methods: every diff_order, small and medium sizes
    lam_for = {1: 1e3, 2: 1e2, 3: 10.0, 4: 1.0}
    for name in ('asls', 'iasls', 'airpls', 'arpls', 'drpls', 'iarpls', 'aspls', 'psalsa', 'derpsalsa', 'brpls', 'lsrpls',
                 'jbcd', 'mpls', 'fabc', 'rubberband'):
        for d in (1, 2, 3, 4):
            if name in ('iasls', 'drpls') and d < 2:
                continue
            heavy = name in ('drpls', 'aspls', 'iasls', 'jbcd')
            sizes = [d + 2 + rng.randint(0, 3), 2 * d + 1 + rng.randint(0, 2), rng.randint(12, 40)] if heavy else [rng.randint(16, 40)]
            if ctx.tier == 'thorough':
                sizes += [rng.randint(d + 2 if heavy else 16, 60) for _ in range(3)]
            for n in sizes:
                n = max(n, 6)
                kw = dict(base_kw(name))
                kw.update({'diff_order': d})
                if name == 'jbcd':
                    kw.update({'half_window': 2, 'beta': rng.choice([0.5, 5.0]), 'gamma': rng.choice([0.5, 2.0]),
                               'alpha': rng.choice([0.05, 0.3]), 'max_iter': 2, 'tol': 0.0, 'tol_2': 0.0})
                elif name == 'mpls':
                    kw.update({'half_window': 2, 'lam': lam_for[d], 'p': 0.05})
                elif name == 'fabc':
                    kw.update({'lam': lam_for[d], 'scale': 2})
                elif name == 'rubberband':
                    kw.update({'lam': lam_for[d], 'segments': 2})
                else:
                    kw.update({'lam': lam_for[d], 'max_iter': 2, 'tol': 0.0})
                if name == 'drpls':
                    kw['eta'] = rng.choice([0.2, 0.5, 0.9])
                if name == 'iasls':
                    kw['lam_1'] = rng.choice([1e-3, 0.1, 2.0])
                if name == 'aspls':
                    kw['asymmetric_coef'] = rng.choice([0.5, 2.0])
                add(name, n, kw, f'bands:d={d}')
                if n < 12:
                    # tiny systems: thresholded outputs (weights, iteration counts) sit on knife edges; the
                    # baseline of the single linear solve is what is compared
                    jobs[-1]['baseline_only'] = True
                    jobs[-1]['kw']['max_iter'] = 0
    # C. beads: banded (numba) versus sparse assembly, non-default parameters
    for k in range(ctx.n(4, 12)):
        kw = {'freq_cutoff': rng.choice([0.02, 0.05, 0.1]), 'max_iter': rng.choice([2, 4]), 'tol': 0.0,
              'eps_0': rng.choice([1e-6, 1e-3, 1e-2]), 'eps_1': rng.choice([1e-6, 1e-4, 5e-2]),
              'lam_0': rng.choice([0.3, 1.0, 3.0]), 'lam_1': rng.choice([0.2, 1.0, 2.0]), 'lam_2': rng.choice([0.1, 1.0, 4.0]),
              'asymmetry': rng.choice([1.0, 3.0, 6.0]), 'filter_type': rng.choice([1, 2]), 'cost_function': rng.choice([1, 2, 'l1_v1', 'l1_v2']),
              'fit_parabola': rng.choice([True, False]), 'smooth_half_window': rng.choice([None, 0, 2])}
        add('beads', rng.choice([40, 64, 90]), kw, 'beads')
    # D. loess (uncompiled versus compiled kernels)
    for k in range(ctx.n(5, 14)):
        kw = {'fraction': rng.choice([0.2, 0.4, 0.7]), 'poly_order': rng.choice([0, 1, 2]), 'max_iter': rng.choice([0, 2, 3]), 'tol': 0.0,
              'conserve_memory': rng.choice([True, False]), 'symmetric_weights': rng.choice([True, False]),
              'use_threshold': rng.choice([True, False]), 'use_original': rng.choice([True, False]),
              'delta': rng.choice([None, 0.0, 1.5, 4.0]), 'return_coef': rng.choice([True, False])}
        if rng.random() < 0.3:
            kw.pop('fraction')
            kw['total_points'] = rng.choice([5, 9, 15])
        add('loess', rng.choice([30, 45]), kw, 'loess')
    # E. rolling std, interpolation, Bezier, moving-average kernels
    for k in range(ctx.n(3, 8)):
        add('std_distribution', rng.choice([48, 70]), {'half_window': rng.choice([2, 4, 7]), 'interp_half_window': rng.choice([0, 2, 5]),
                                                      'fill_half_window': rng.choice([0, 3]), 'num_std': rng.choice([1.0, 1.1, 2.0])}, 'rolling-std')
        add('fastchrom', rng.choice([48, 70]), {'half_window': rng.choice([2, 4, 7]), 'interp_half_window': rng.choice([0, 2, 5]),
                                               'min_fwhm': rng.choice([None, 3]), 'max_iter': rng.choice([0, 5])}, 'rolling-std')
        add('golotvin', rng.choice([48, 70]), {'half_window': rng.choice([3, 5]), 'sections': rng.choice([3, 6]),
                                              'interp_half_window': rng.choice([0, 3]), 'num_std': rng.choice([1.5, 2.5])}, 'interp')
        add('dietrich', rng.choice([48, 70]), {'poly_order': rng.choice([1, 3]), 'smooth_half_window': rng.choice([1, 3]),
                                              'interp_half_window': rng.choice([0, 3]), 'max_iter': rng.choice([0, 3]), 'num_std': 2.0}, 'interp')
        add('corner_cutting', rng.choice([40, 64, 100]), {'max_iter': rng.choice([2, 5, 20])}, 'bezier')
        add('peak_filling', rng.choice([48, 80]), {'half_window': rng.choice([2, 3, 5]), 'sections': rng.choice([4, 6, 9]),
                                                  'max_iter': rng.choice([1, 4]), 'lam_smooth': rng.choice([None, 1.0])}, 'moving-avg')
    # F. P-splines: numba B'WB accumulation and design matrix versus the SciPy / sparse paths
    for name in ('pspline_asls', 'pspline_iasls', 'pspline_airpls', 'pspline_arpls', 'pspline_drpls', 'pspline_iarpls',
                 'pspline_aspls', 'pspline_psalsa', 'pspline_derpsalsa', 'pspline_mpls', 'pspline_brpls', 'pspline_lsrpls',
                 'mixture_model', 'irsqr', 'mpspline'):
        for k in range(ctx.n(2, 5)):
            deg = rng.choice([1, 2, 3, 3, 4])
            d = rng.choice([1, 2, 3]) if name not in ('pspline_iasls', 'pspline_drpls') else rng.choice([2, 3])
            kw = dict(base_kw(name))
            kw.update({'spline_degree': deg, 'diff_order': d, 'num_knots': rng.choice([5, 9, 16]), 'lam': rng.choice([0.1, 1.0, 10.0])})
            if name in ('pspline_mpls', 'mpspline'):
                kw['half_window'] = 3
            if name == 'mpspline':
                kw.pop('diff_order', None)
                kw['lam'] = 10.0
            add(name, rng.choice([40, 64]), kw, 'pspline')
    # H. methods that solve internally on behalf of another method (optimizers / wrappers): every params entry is
    #    compared, with and without the optional output smoothing, truncation, resampling
    inner = {'asls': {'lam': 1e3, 'max_iter': 3, 'tol': 0.0}, 'arpls': {'lam': 1e3, 'max_iter': 3, 'tol': 0.0},
             'airpls': {'lam': 1e3, 'max_iter': 3, 'tol': 0.0}, 'iasls': {'lam': 1e3, 'max_iter': 3, 'tol': 0.0},
             'poly': {'poly_order': 2}, 'modpoly': {'poly_order': 2}, 'imodpoly': {'poly_order': 2},
             'snip': {'max_half_window': 5}, 'mor': {'half_window': 4},
             'pspline_asls': {'num_knots': 8, 'lam': 10, 'max_iter': 3, 'tol': 0.0},
             'pspline_arpls': {'num_knots': 8, 'lam': 10, 'max_iter': 3, 'tol': 0.0}}
    nrep = ctx.n(1, 3)
    for _ in range(nrep):
        for m in ('asls', 'poly', 'snip', 'arpls', 'mor', 'pspline_asls'):
            # always: the setting in which every backend (pentapy included) can take part and nothing is truncated
            add('custom_bc', rng.choice([48, 64]), {'method': m, 'method_kwargs': dict(inner[m]),
                                                    'lam': rng.choice([5.0, 1e2, 1e4]), 'sampling': 1, 'diff_order': 2}, 'wrapper')
            if rng.random() < 0.35:
                jobs.append(dict(jobs[-1], id=f'o{len(jobs)}', tag='wrapper-functional', functional=True, bs_list=[2]))
            # and a random variation
            kw = {'method': m, 'method_kwargs': dict(inner[m]), 'lam': rng.choice([None, 5.0, 1e3]), 'sampling': rng.choice([1, 2, 3]),
                  'diff_order': rng.choice([1, 2, 3])}
            if rng.random() < 0.4:
                kw['regions'] = [[None, rng.randint(10, 20)], [rng.randint(30, 40), None]]
            add('custom_bc', rng.choice([48, 64]), kw, 'wrapper')
        for m in ('asls', 'arpls', 'poly', 'pspline_asls'):
            add('optimize_extended_range', rng.choice([48, 64]),
                {'method': m, 'method_kwargs': {k: v for k, v in inner[m].items() if k not in ('lam', 'poly_order')},
                 'side': rng.choice(['both', 'left', 'right']), 'min_value': 2, 'max_value': 4}, 'wrapper')
        for m in ('asls', 'arpls', 'airpls', 'iasls', 'pspline_arpls'):
            add('collab_pls', rng.choice([48, 64]), {'method': m, 'method_kwargs': dict(inner[m]),
                                                    'average_dataset': rng.choice([True, False])}, 'wrapper')
        for m in ('modpoly', 'imodpoly'):
            add('adaptive_minmax', rng.choice([48, 64]), {'method': m, 'poly_order': rng.choice([None, 2, [1, 3]]),
                                                         'constrained_fraction': rng.choice([0.01, 0.1])}, 'wrapper')
    # I. magnitude: the same spectrum scaled towards both ends of the float range.  What is compared first is the
    #    OUTCOME KIND (returns / raises, exception class) per configuration, then the values.  Every method whose solves
    #    validate the solver output (check_output=True) at every scale, a sample of the others.
    scales = ['1e-300', '1e-150', '1e-30', '1', '1e30', '1e150', '1e160']
    for name, kw, n in (('airpls', {'lam': 1e6}, 100), ('airpls', {'lam': 1e3, 'max_iter': 3, 'tol': 0.0}, 64)):
        for sc in scales:
            add(name, n, dict(kw), f'scale={sc}', ykind='scale' + sc)
    sample = ['asls', 'arpls', 'drpls', 'aspls', 'iasls', 'iarpls', 'psalsa', 'derpsalsa', 'brpls', 'lsrpls', 'jbcd', 'mpls',
              'fabc', 'rubberband', 'pspline_asls', 'pspline_airpls', 'mixture_model', 'irsqr', 'beads', 'loess',
              'std_distribution', 'custom_bc', 'imodpoly', 'snip']     # (collab_pls: the catalogue's second spectrum has a fixed offset)
    for name in sample:
        for sc in (scales if ctx.tier == 'thorough' else rng.sample(scales, 2)):
            kw = dict(base_kw(name))
            if name == 'beads':
                kw = {'freq_cutoff': 0.05, 'max_iter': 3, 'tol': 0.0}      # fixed pass count: the stop rule is a knife edge
            add(name, rng.choice([48, 64]), kw, f'scale={sc}', ykind='scale' + sc)
    # J. zero weights x non-finite data at those samples through the fitter (created with check_finite=False): FIXED grid
    zw_methods = [('asls', {'lam': 1e3, 'max_iter': 0}), ('iasls', {'lam': 1e3, 'max_iter': 0}), ('arpls', {'lam': 1e3, 'max_iter': 0}),
                  ('airpls', {'lam': 1e3, 'max_iter': 0}), ('drpls', {'lam': 1e3, 'max_iter': 0}), ('aspls', {'lam': 1e3, 'max_iter': 0}),
                  ('mpls', {'lam': 1e3, 'half_window': 4}), ('pspline_asls', {'num_knots': 8, 'lam': 10, 'max_iter': 0}),
                  ('pspline_arpls', {'num_knots': 8, 'lam': 10, 'max_iter': 0}), ('pspline_iasls', {'num_knots': 8, 'lam': 10, 'max_iter': 0}),
                  ('pspline_mpls', {'num_knots': 8, 'lam': 10, 'half_window': 4}), ('mpspline', {'num_knots': 8, 'half_window': 4})]
    for gi, (name, kw) in enumerate(zw_methods):
        for zw in ('some', 'many', 'ends', 'last'):
            for nf in (None, 'nan', '+inf', '-inf'):
                jobs.append({'id': f'o{len(jobs)}', 'method': name, 'n': 40, 'seed': 9000 + gi, 'kw': dict(kw), 'bs_list': BS,
                             'tag': f'zero_w={zw}:nf={nf}', 'ykind': f'zero_w={zw}/nf={nf}', 'zero_w': zw, 'nf': nf})
    # G. data kinds: large pedestals (relative to the noise), extreme overall scales, integer counts -- for every
    #    method that reaches an optionally compiled kernel (see expected_jit_functions in coq/C10/Sites.v) or a solver.
    #    A fallback that is only algebraically equal to the compiled kernel (e.g. E[x^2] - E[x]^2) cancels here.
    kinds = ['off1e6', 'off1e8', 'off1e10', 'neg1e7', 'tiny', 'huge', 'integer', 'intoff']
    for name, kw in KERNEL_METHODS:
        for kind in (kinds if ctx.tier == 'thorough' else rng.sample(kinds[:4], 2) + rng.sample(kinds[4:], 2) + ['off1e8']):
            kw2 = dict(base_kw(name))
            kw2.update(kw)
            add(name, rng.choice([48, 64]), kw2, f'kind:{kind}', ykind=kind)
            jobs[-1]['bs_list'] = [2, 4] if name.startswith('pspline') or name in ('mixture_model', 'irsqr', 'mpspline') else [2]
    for name in ('asls', 'arpls', 'airpls', 'drpls', 'aspls', 'iasls', 'jbcd', 'mpls', 'fabc'):
        for kind in (kinds if ctx.tier == 'thorough' else rng.sample(kinds, 2)):
            kw2 = dict(base_kw(name))
            kw2.update(methods.call_kwargs(name))
            kw2.update({'max_iter': 2} if 'max_iter' in kw2 or name in LOOPY else {})
            add(name, rng.choice([40, 64]), kw2, f'kind:{kind}', ykind=kind)
    return jobs


# one representative call per optionally compiled kernel (and the spline / beads / loess paths)
KERNEL_METHODS = [
    ('std_distribution', {'half_window': 4, 'interp_half_window': 2}),        # _rolling_std, _interp_inplace
    ('fastchrom', {'half_window': 4, 'interp_half_window': 2}),               # _rolling_std, _interp_inplace
    ('golotvin', {'half_window': 4, 'sections': 4, 'interp_half_window': 2}), # _interp_inplace
    ('dietrich', {'poly_order': 2, 'smooth_half_window': 2, 'interp_half_window': 2}),
    ('cwt_br', {'poly_order': 2, 'scales': [2, 3, 4]}),
    ('fabc', {'lam': 1e3, 'scale': 3}),
    ('corner_cutting', {'max_iter': 5}),                                      # _quadratic_bezier(_spline)
    ('peak_filling', {'half_window': 3, 'sections': 6}),                      # _directional_min_moving_avg
    ('loess', {'fraction': 0.3, 'max_iter': 2, 'tol': 0.0}),                  # _loess_* , _determine_fits
    ('loess', {'fraction': 0.3, 'max_iter': 1, 'tol': 0.0, 'delta': 2.0, 'conserve_memory': False}),   # _fill_skips
    ('beads', {'freq_cutoff': 0.05, 'max_iter': 3, 'tol': 0.0}),              # _numba_banded_dot_banded
    ('pspline_asls', {'num_knots': 8, 'lam': 10}),                            # _make_design_matrix, _numba_btb_bty
    ('pspline_arpls', {'num_knots': 8, 'lam': 10, 'spline_degree': 2}),
    ('mixture_model', {'num_knots': 8, 'lam': 10}),
    ('irsqr', {'num_knots': 8, 'lam': 10}),
    ('mpspline', {'half_window': 4, 'num_knots': 8}),
    ('pspline_mpls', {'half_window': 4, 'num_knots': 8, 'lam': 10}),
]


# Conditioning-scaled tolerance.  The reference worker also runs every job on data perturbed by ~1 ulp
# (relative 2^-50, random signs); s = the relative change of the result.  A configuration may deviate
# from the reference by max(FLOOR, GAIN * s): solver / accumulation-order rounding is a perturbation of
# that size applied at every step, GAIN is the margin (calibrated over seeds 0..7 on the unchanged tree:
# the largest ratio deviation / s observed for s > 1e-14 is ~4000, for order-4 penalties).  Problems whose allowance exceeds
# ILL (discontinuous decisions such as `spline_fit == opening`, singular systems) are counted as
# ill-conditioned and not compared.  A band-layout or kernel error shows as a deviation >= 1e-4 on
# problems with s ~ 1e-15.
FLOOR = {'baseline': 1e-10, 'param': 1e-8}
GAIN = 5e4
ILL = 0.2


def tolerance(job, key='baseline', s=0.0):
    floor = FLOOR['baseline' if key == 'baseline' else 'param']
    return max(floor, GAIN * s)


def reldev(a, b, spread=False):
    a, b = np.array(a, dtype=float), np.array(b, dtype=float)
    if a.shape != b.shape:
        return None
    if not a.size:
        return 0.0
    fin = np.isfinite(a)
    if not np.array_equal(fin, np.isfinite(b)):
        return float('inf')
    if not fin.any():
        return 0.0
    scale = max(float(np.max(np.abs(a[fin]))), 1e-300)
    if spread:
        # relative to the variation of the reference, not to its level: a pedestal of 1e8 must not hide a
        # change of the size of the peaks
        ptp = float(np.max(a[fin]) - np.min(a[fin]))
        if ptp > 0:
            scale = ptp
    return float(np.max(np.abs(a[fin] - b[fin]))) / scale


def compare_oracle(ctx, jobs, results_by_env, enlarged=False):
    nfail = 0
    worst, ratio = {}, {}
    skipped = {'singular': 0, 'ill-conditioned': 0}
    ill_jobs = []
    singular_jobs = []
    for job in jobs:
        per_ref = results_by_env[REF[0]]['oracle'].get(job['id'], {})
        ref = per_ref.get(str(REF[1]))
        perts = [per_ref[k] for k in ('pert0', 'pert1', 'pert2') if k in per_ref]
        if ref is None:
            continue
        key = f'oracle:{job["method"]}:{job["tag"]}'
        # sensitivity of every compared output to a 1-ulp change of the data
        sens = {}
        ill = False
        for pert in perts:
            if ('exc' in ref) or ('exc' in pert):
                ill = ill or ref.get('exc') != pert.get('exc')      # raising depends on the last bit of the data
                continue
            for k in ref:
                if k == 'exc_msg':
                    continue
                if k == 'n_tol':
                    ill = ill or ref[k] != pert.get(k)
                    continue
                dv = reldev(ref[k], pert.get(k, []), spread=(k == 'baseline'))
                sens[k] = max(sens.get(k, 0.0), float('inf') if dv is None else dv)
        if 'baseline' in sens and 'baseline' in ref and 'exc' not in ref:
            a = np.array(ref['baseline'], dtype=float)
            a = a[np.isfinite(a)]
            if a.size and float(np.max(a) - np.min(a)) > 0:
                # the data are only known to one unit in the last place of their LEVEL: relative to the spread of the
                # result that is eps * level / spread, however the three random perturbations happened to round
                sens['baseline'] = max(sens['baseline'], 2.0 ** -52 * float(np.max(np.abs(a))) / float(np.max(a) - np.min(a)))
        ill = ill or any(GAIN * v > ILL for v in sens.values())
        if ill:
            ill_jobs.append(f"{job['method']}:{job['tag']}:n={job['n']}:sens={ {k: float(f'{v:.1e}') for k, v in sens.items()} }")
        # a system that LAPACK reports as singular / not positive definite in ANY configuration is ill-posed: Cholesky
        # refuses it, LU and pentapy return whatever the elimination produces (zeros, NaN); nothing is compared
        singular_job = False
        for env in ENVS:
            per = results_by_env[env]['oracle'].get(job['id']) or {}
            for bs in job['bs_list']:
                g = per.get(str(bs)) or {}
                m = (g.get('exc_msg') or '').lower()
                if g.get('exc') == 'LinAlgError' and ('positive definite' in m or 'singular' in m):
                    singular_job = True
        if singular_job:
            singular_jobs.append(f"{job['method']}:{job['tag']}:n={job['n']}:seed={job['seed']}:kw={job['kw']}")
        for env in ENVS:
            per = results_by_env[env]['oracle'].get(job['id'])
            if per is None:
                continue
            for bs in job['bs_list']:
                got = per[str(bs)]
                if (env, bs) == REF:
                    continue
                if singular_job:
                    skipped['singular'] += 1
                    continue
                ctx.case(('oracle', job['method'], job['tag'], job['n'], job['seed'], env, bs, job.get('ykind'), json.dumps(job['kw'], sort_keys=True, default=str)),
                         nontrivial='baseline' in ref and not ill, kind=f'oracle:{job["tag"]}:numba={1 - env[0]}:pentapy={1 - env[1]}')
                case = {'kind': 'oracle', 'job': job, 'block_numba': env[0], 'block_pentapy': env[1], 'bs': bs}
                if ill:
                    skipped['ill-conditioned'] += 1
                    continue
                msgs = (ref.get('exc_msg') or '') + ' ' + (got.get('exc_msg') or '')
                if 'LinAlgError' in (ref.get('exc'), got.get('exc')) and ref.get('exc') != got.get('exc') \
                        and ('positive definite' in msgs.lower() or 'singular' in msgs.lower()):
                    skipped['singular'] += 1      # numerically singular / indefinite: Cholesky refuses what LU accepts
                    continue
                if ref.get('exc') != got.get('exc'):
                    nfail += 1
                    ctx.fail(key + ':outcome', f'{job["method"]}({job["kw"]}) n={job["n"]} seed={job["seed"]}: reference configuration gives '
                             f'{ref.get("exc", "a baseline")} ({ref.get("exc_msg", "")}) but banded_solver={bs}, numba blocked={env[0]}, '
                             f'pentapy blocked={env[1]} gives {got.get("exc", "a baseline")} ({got.get("exc_msg", "")}); data kind {job.get("ykind")}', case)
                    continue
                if 'exc' in ref:
                    continue
                for k in sorted(ref):
                    if job.get('baseline_only') and k != 'baseline':
                        continue
                    if k == 'n_tol':
                        if ref[k] != got.get(k):
                            nfail += 1
                            ctx.fail(key + ':iterations', f'{job["method"]}({job["kw"]}): {ref[k]} recorded iterations in the reference '
                                     f'configuration, {got.get(k)} under bs={bs}, numba blocked={env[0]}, pentapy blocked={env[1]}', case)
                        continue
                    if 'tol_history' in k and not k.endswith('#shape') and not (
                            np.all(np.isfinite(np.array(ref[k], dtype=float))) and np.all(np.isfinite(np.array(got.get(k, []), dtype=float)))):
                        skipped['overflowed-convergence-record'] = skipped.get('overflowed-convergence-record', 0) + 1
                        continue      # the cost / norm behind the record overflowed or underflowed: inf and nan are not ordered
                    dev = reldev(ref[k], got.get(k, []), spread=(k == 'baseline'))
                    if dev is None:
                        nfail += 1
                        ctx.fail(key + ':shape', f'{job["method"]}: {k} has a different shape', case)
                        continue
                    worst[job['tag']] = max(worst.get(job['tag'], 0.0), dev)
                    wm = f"{job['method']}|{job['tag']}|{k}"
                    this_tol = tolerance(job, k, sens.get(k, 0.0))
                    ratio[wm] = max(ratio.get(wm, 0.0), dev / this_tol)
                    if dev > this_tol:
                        nfail += 1
                        ctx.fail(key, f'{job["method"]}({job["kw"]}) on n={job["n"]} seed={job["seed"]}: {k} deviates from the reference '
                                 f'configuration by {dev:.3e} (relative to the spread of the reference baseline, resp. max |param|; allowance {this_tol:.1e} = max(floor, {GAIN:.0f} x the change '
                                 f'{sens.get(k, 0.0):.1e} caused by a 1-ulp perturbation of the data)) under banded_solver={bs}, '
                                 f'numba blocked={env[0]}, pentapy blocked={env[1]}', case)
    ctx.extra['oracle_worst_relative_deviation'] = {k: float(f'{v:.3e}') for k, v in sorted(worst.items())}
    ctx.extra['oracle_worst_fraction_of_allowance'] = {k: float(f'{v:.3e}') for k, v in sorted(ratio.items()) if v > 0.02}
    ctx.extra['oracle_ill_conditioned_jobs'] = ill_jobs
    ctx.extra['oracle_singular_jobs'] = singular_jobs
    ctx.extra['oracle_not_compared'] = skipped
    return nfail


def split_jobs(jobs, env, nchunks):
    chunks = [[] for _ in range(nchunks)]
    # heavy first (uncompiled loess / beads), round-robin
    order = sorted(jobs, key=lambda j: -(3 if j['method'] in ('loess',) else 2 if j['method'] in ('beads', 'optimize_extended_range') else 1))
    for i, j in enumerate(order):
        chunks[i % nchunks].append(j)
    return [c for c in chunks if c]


def run(ctx):
    ctx.rule = ('capture cases: (band-assembling method, diff_order, N, integer data/weights/lam) x 16 configurations '
                '(banded_solver 1-4 x numba blocked or not x pentapy blocked or not, real import blockers in worker processes); '
                'oracle cases: (method, kwargs, data seed) x 15 non-reference configurations compared with the reference; '
                'distinct = distinct (case, configuration); non-trivial = a solver call was captured / the reference returned a baseline')
    ctx.trusted += [
        'pentapy.solve / scipy.linalg.solveh_banded / solve_banded: their documented storage conventions are what `den` and the '
        'independent densifier of harness/c10.py implement; their numerical results are compared only by the oracle',
        'numba: a Dispatcher computes its py_func (hypothesis of C10_kernels_config_invariant; sampled by the oracle)',
        'sys.meta_path import blockers make `import numba` / `import pentapy` raise ImportError (checked: flags and sys.modules in every worker)',
        'rounding differences between solvers are outside the proof; the oracle tolerances are calibrated, not derived',
    ]
    ctx.gate()
    ctx.translate(['GenBands', 'GenC10'])   # GenC10 also pins the beads kernel loop nest and the shared beads statements
    ok = ctx.build_props()
    # ---- workers: capture + facts + oracle
    cases = gen_capture_cases(ctx)
    jobs = oracle_jobs(ctx)
    # corpus: minimised witnesses of earlier failures, replayed on every run as ordinary oracle jobs
    import glob
    for k, path in enumerate(sorted(glob.glob(os.path.join(VERIF, 'corpus', 'C10_*.json')))):
        try:
            cj = json.load(open(path))['case']['job']
        except (OSError, ValueError, KeyError):
            ctx.broke('corpus', f'unreadable corpus file {path}')
            continue
        jobs.append(dict(cj, id=f'corpus{k}', bs_list=BS))
    jobs += entry_jobs(ctx)
    pcases = pair_cases()
    bdb_cases = gen_bdb_cases(ctx)
    ps_cases = gen_ps_cases(ctx)
    tiny = tiny_beads_jobs(ctx)
    tasks, owners = [], []
    for env in ENVS:
        nch = 4 if env[0] else (3 if env == REF[0] else 2)
        chunks = split_jobs(jobs, env, nch)
        for ci, ch in enumerate(chunks):
            if env == REF[0]:
                ch = [dict(j, perturb=REF[1]) for j in ch]
            job = {'facts': ci == 0, 'capture': (cases + ps_cases) if ci == 0 else [], 'oracle': ch + (tiny if ci == 0 else []),
                   'bdb': bdb_cases if ci == 0 else [], 'pairs': pcases if ci == 0 else []}
            tasks.append((env, job))
            owners.append(env)
    try:
        outs = run_workers(tasks)
    except Exception as exc:  # noqa
        ctx.broke('workers', f'{type(exc).__name__}: {exc}')
        return
    results = {}
    for env, out in zip(owners, outs):
        r = results.setdefault(env, {'facts': None, 'capture': {}, 'oracle': {}, 'bdb': {}, 'pairs': {}})
        if out['facts']:
            r['facts'] = out['facts']
        r['capture'].update(out['capture'])
        r['oracle'].update(out['oracle'])
        r['bdb'].update(out.get('bdb') or {})
        r['pairs'].update(out.get('pairs') or {})
    check_facts(ctx, results)
    ncoq = correspondence(ctx, cases, results)
    npairs = check_pairs(ctx, pcases, results)
    nbdb = check_bdb(ctx, bdb_cases, results)
    nps = check_ps(ctx, ps_cases, results)
    check_tiny_beads(ctx, tiny, results)
    nfail = compare_oracle(ctx, jobs, results)
    ctx.note(f'{nbdb} banded-product cases evaluated inside Coq; {nps} exact P-spline system captures compared across configurations')
    ctx.note(f'{len(cases)} capture cases x 16 configurations ({ncoq} evaluated inside Coq); {len(jobs)} oracle jobs x 16 configurations, '
             f'{nfail} oracle failures; worst relative deviations per class: {ctx.extra.get("oracle_worst_relative_deviation")}')
    ctx.note('not covered: 2-D methods (Baseline2D does not read banded_solver; its numba use is the shared spline kernels), '
             'C10_btb_paths / C10_beads_bands as theorems (oracle only), multi-pass in-place add_diagonal threading (C06), '
             'PSpline.solve_pspline dispatch in Coq (oracle only), eta strictly between 0 and 1 in the exact capture (oracle only)')
    if (not ok or ctx.broken) and not ctx.violations:
        ctx.note('an obligation broke: the oracle above already ran at full budget for this tier')


def replay(rep):
    case = rep.get('case') or {}
    kind = case.get('kind')
    if kind == 'oracle':
        job = case['job']
        env = (case['block_numba'], case['block_pentapy'])
        job = dict(job, bs_list=BS, perturb=REF[1])
        out = run_workers([(REF[0], {'oracle': [job]}), (env, {'oracle': [job]})])
        ref = out[0]['oracle'][job['id']][str(REF[1])]
        got = out[1]['oracle'][job['id']][str(case['bs'])]
        if ('exc' in ref) or ('exc' in got):
            bad = ref.get('exc') != got.get('exc')
            print('replay oracle:', f'reference {ref.get("exc", "baseline")} vs {got.get("exc", "baseline")}')
            return 1 if bad else 0
        bad = 0
        for k in sorted(ref):
            if job.get('baseline_only') and k != 'baseline':
                continue
            if k == 'n_tol':
                if ref[k] != got.get(k):
                    print(f'replay oracle: {ref[k]} recorded iterations in the reference configuration, {got.get(k)} in the other')
                    bad = 1
                continue
            sk = 0.0
            for t in range(3):
                pert = out[0]['oracle'][job['id']].get(f'pert{t}') or {}
                dv = reldev(ref[k], pert.get(k, ref[k]), spread=(k == 'baseline'))
                sk = max(sk, float('inf') if dv is None else dv)
            dev = reldev(ref[k], got.get(k, []), spread=(k == 'baseline'))
            tol = tolerance(job, k, sk)
            if dev is None or (dev > tol and GAIN * sk <= ILL):
                print(f'replay oracle: {k} deviates from the reference configuration by {dev} (allowance {tol:.1e}, sensitivity {sk:.1e})')
                bad = 1
        if not bad:
            print('replay oracle: every output agrees with the reference configuration within its allowance')
        return bad
    if kind == 'pairs':
        c = dict(case['case'], id='r')
        outs = run_workers([(tuple(env), {'pairs': [c]}) for env in ENVS])
        bad = 0
        for env, out in zip(ENVS, outs):
            r = out['pairs']['r']
            scale = r.get('scale', 1.0)
            for k, v in sorted(r.items()):
                if k == 'exc' or (k != 'scale' and not (v <= (1e-8 if k == 'solve_pspline:arms' else 1e-10 * scale))):
                    print(f'replay pairs: numba blocked={env[0]} pentapy blocked={env[1]}: {k} = {v}')
                    bad = 1
        if not bad:
            print('replay pairs: every kernel agrees with its fallback on this input')
        return bad
    if kind == 'capture':
        c = {'id': 'r', 'method': case['method'], 'kw': case['kw'], 'y': case['y'], 'arrays': case['arrays'], 'bs_list': BS,
             'ncalls': 2 if case['method'] == 'jbcd' else 1}
        outs = run_workers([(env, {'capture': [c]}) for env in ENVS])
        mats = set()
        for env, out in zip(ENVS, outs):
            for bs in BS:
                r = out['capture']['r'][str(bs)]
                try:
                    A = densify(r['calls'][case.get('call', 0)], case['N'])
                    mats.add(json.dumps([[str(v) for v in row] for row in A]))
                except Exception as exc:  # noqa
                    mats.add(f'error: {exc}')
        print(f'replay capture: {len(mats)} distinct denoted matrices over the 16 configurations')
        return 0 if len(mats) == 1 else 1
    print('replay: nothing concrete to replay; broken obligations were:', rep.get('broken_obligations'))
    return 1
