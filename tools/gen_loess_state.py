#!/usr/bin/env python3
"""GenLoessState: what the loess driver and its strategy functions read from / write to the fitter object.

The C19 model (coq/C19/Model.v) reads one loess call as a function of its arguments and of the reviewed attributes of
the fitter (x, x_domain, _size, the polynomial cache behind _setup_polynomial): every call starts from a fresh
`kernels`, `coefs`, `baseline`.  That reading extends from single calls to call histories on one object only if the
driver keeps nothing between calls.  This generator emits, from the CURRENT source,
  * loess_self_reads   -- every attribute read `self.<name>` in _Polynomial.loess,
  * loess_self_writes  -- every assignment / augmented assignment / deletion / with-as / for-target rooted at `self`,
  * loess_self_calls   -- every call through `self` (`self.m(...)`, `self.a.m(...)`),
  * polynomial_class_state -- class-level statements of _Polynomial other than docstring and methods,
  * polynomial_module_state -- module-level statements that are not docstring / import / def / class / the reviewed
    wrapper construction / an immutable literal,
  * loess_strategy_functions -- the module functions reachable from the driver, with their decorators,
and REFUSES (fail closed) anything it cannot classify: a bare use of `self` (passed on, setattr / getattr / vars /
__dict__), global / nonlocal, mutable default arguments, state stored on a function object, functools imports.
coq/C19/StateCheck.v checks the emitted lists against the reviewed ones."""
import ast
import os

from trlib import TranslateError, _parse

REL = os.path.join('pybaselines', 'polynomial.py')
IMMUTABLE = (int, float, str, bytes, bool, type(None), complex)


def _immutable_literal(node):
    if isinstance(node, ast.Constant):
        return isinstance(node.value, IMMUTABLE)
    if isinstance(node, ast.UnaryOp) and isinstance(node.op, (ast.USub, ast.UAdd)):
        return _immutable_literal(node.operand)
    if isinstance(node, ast.Tuple):
        return all(_immutable_literal(e) for e in node.elts)
    return False


def _root(node):
    chain = []
    while isinstance(node, (ast.Attribute, ast.Subscript, ast.Starred)):
        if isinstance(node, ast.Attribute):
            chain.append(node.attr)
        node = node.value
    return node, list(reversed(chain))


def _targets(fn):
    """every expression that is bound / mutated by a statement of fn"""
    out = []
    for n in ast.walk(fn):
        if isinstance(n, ast.Assign):
            out += n.targets
        elif isinstance(n, (ast.AugAssign, ast.AnnAssign)):
            out.append(n.target)
        elif isinstance(n, ast.Delete):
            out += n.targets
        elif isinstance(n, (ast.For, ast.AsyncFor)):
            out.append(n.target)
        elif isinstance(n, (ast.With, ast.AsyncWith)):
            out += [i.optional_vars for i in n.items if i.optional_vars is not None]
        elif isinstance(n, ast.NamedExpr):
            out.append(n.target)
        elif isinstance(n, ast.comprehension):
            out.append(n.target)
    flat = []
    for t in out:
        if isinstance(t, (ast.Tuple, ast.List)):
            flat += list(t.elts)
        else:
            flat.append(t)
    return flat


def _plain_function(fn, where, allow_self=False):
    for d in list(fn.args.defaults) + [d for d in fn.args.kw_defaults if d is not None]:
        if isinstance(d, (ast.List, ast.Dict, ast.Set, ast.ListComp, ast.DictComp, ast.SetComp, ast.Call)):
            raise TranslateError(f'{where}: mutable default argument {ast.unparse(d)}')
    for n in ast.walk(fn):
        if isinstance(n, (ast.Global, ast.Nonlocal)):
            raise TranslateError(f'{where}: {ast.unparse(n)}')
        if isinstance(n, (ast.FunctionDef, ast.Lambda, ast.ClassDef)) and n is not fn and not isinstance(n, ast.Lambda):
            raise TranslateError(f'{where}: nested definition {getattr(n, "name", "")}')
    for t in _targets(fn):
        base, _ = _root(t)
        if isinstance(base, ast.Name) and base.id == fn.name:
            raise TranslateError(f'{where}: stores state on the function object ({ast.unparse(t)})')
    if not allow_self:
        for n in ast.walk(fn):
            if isinstance(n, ast.Name) and n.id == 'self':
                raise TranslateError(f'{where}: uses `self`')


def _called_names(fn):
    return {n.func.id for n in ast.walk(fn) if isinstance(n, ast.Call) and isinstance(n.func, ast.Name)}


def _coq_strings(xs):
    return '[' + '; '.join('"' + x.replace('"', '""') + '"' for x in xs) + ']'


def gen_loess_state(repo=None):
    tree, _ = _parse(REL, repo)
    module_state, funcs, cls = [], {}, None
    for k, st in enumerate(tree.body):
        if k == 0 and isinstance(st, ast.Expr) and isinstance(st.value, ast.Constant) and isinstance(st.value.value, str):
            continue
        if isinstance(st, (ast.Import, ast.ImportFrom)):
            for a in st.names:
                if (getattr(st, 'module', None) or a.name).split('.')[0] == 'functools' or a.name in ('lru_cache', 'cache', 'cached_property'):
                    raise TranslateError(f'polynomial.py imports {ast.unparse(st)} (caching)')
            continue
        if isinstance(st, ast.FunctionDef):
            funcs[st.name] = st
            continue
        if isinstance(st, ast.ClassDef):
            if st.name == '_Polynomial':
                cls = st
            continue
        if isinstance(st, (ast.Assign, ast.AnnAssign)) and st.value is not None and _immutable_literal(st.value):
            continue
        if isinstance(st, ast.Assign) and ast.unparse(st) == '_polynomial_wrapper = _class_wrapper(_Polynomial)':
            continue
        module_state.append(ast.unparse(st)[:120])
    if cls is None:
        raise TranslateError('class _Polynomial not found')
    class_state, method = [], None
    for c in cls.body:
        if isinstance(c, ast.Expr) and isinstance(c.value, ast.Constant) and isinstance(c.value.value, str):
            continue
        if isinstance(c, ast.FunctionDef):
            if c.name == 'loess':
                method = c
            continue
        class_state.append(ast.unparse(c)[:120])
    if method is None:
        raise TranslateError('_Polynomial.loess not found')
    if not method.args.args or method.args.args[0].arg != 'self':
        raise TranslateError('_Polynomial.loess: first parameter is not self')
    _plain_function(method, '_Polynomial.loess', allow_self=True)
    decorators = [ast.unparse(d) for d in method.decorator_list]

    # classify every occurrence of `self`
    parents = {}
    for n in ast.walk(method):
        for ch in ast.iter_child_nodes(n):
            parents[ch] = n
    reads, writes, calls = set(), [], set()
    target_ids = set()
    for t in _targets(method):
        base, chain = _root(t)
        if isinstance(base, ast.Name) and base.id == 'self':
            writes.append(ast.unparse(t))
            for sub in ast.walk(t):
                target_ids.add(id(sub))
    for n in ast.walk(method):
        if not (isinstance(n, ast.Name) and n.id == 'self'):
            continue
        par = parents.get(n)
        if isinstance(par, ast.arg):
            continue
        if not (isinstance(par, ast.Attribute) and par.value is n):
            raise TranslateError(f'_Polynomial.loess: `self` used other than as self.<attribute> (line {n.lineno}: '
                                 f'{ast.unparse(par) if par is not None else "?"})')
        if par.attr.startswith('__'):
            raise TranslateError(f'_Polynomial.loess: self.{par.attr}')
        if id(par) in target_ids and not isinstance(par.ctx, ast.Load):
            continue
        reads.add(par.attr)
        # the full attribute chain, and whether it is called
        top = par
        chain = [par.attr]
        while isinstance(parents.get(top), ast.Attribute) and parents[top].value is top:
            top = parents[top]
            chain.append(top.attr)
        up = parents.get(top)
        if isinstance(up, ast.Call) and up.func is top:
            calls.add('.'.join(chain))
    for n in ast.walk(method):
        if isinstance(n, ast.Call) and isinstance(n.func, ast.Name) and n.func.id in ('setattr', 'getattr', 'delattr', 'vars', 'object'):
            raise TranslateError(f'_Polynomial.loess: calls {n.func.id}(...)')

    # module functions reachable from the driver
    reach, todo = [], sorted(_called_names(method) & set(funcs))
    while todo:
        name = todo.pop(0)
        if name in reach:
            continue
        reach.append(name)
        todo += sorted((_called_names(funcs[name]) & set(funcs)) - set(reach))
    strategy = []
    for name in sorted(reach):
        fn = funcs[name]
        _plain_function(fn, f'polynomial.{name}')
        strategy.append((name, [ast.unparse(d) for d in fn.decorator_list]))
    for need in ('_determine_fits', '_loess_low_memory', '_loess_first_loop', '_loess_nonfirst_loops', '_fill_skips', '_loess_solver'):
        if need not in reach:
            raise TranslateError(f'the loess driver no longer reaches polynomial.{need}')

    # module-level data (constants, thresholds, tables) the driver or a strategy function refers to
    module_data = set()
    for st in tree.body:
        tgts = st.targets if isinstance(st, ast.Assign) else ([st.target] if isinstance(st, (ast.AnnAssign, ast.AugAssign)) else [])
        for t in tgts:
            for nm in ast.walk(t):
                if isinstance(nm, ast.Name):
                    module_data.add(nm.id)
    module_data.discard('_polynomial_wrapper')
    used = set()
    for fn in [method] + [funcs[nm] for nm in reach]:
        local = {a.arg for a in fn.args.args + fn.args.kwonlyargs}
        for n in ast.walk(fn):
            if isinstance(n, ast.Name) and isinstance(n.ctx, ast.Load) and n.id in module_data and n.id not in local:
                used.add(f'{fn.name}:{n.id}')
    lines = ['(* Generated by tools/gen_loess_state.py from the current /repo source; do not edit. *)',
             'From Coq Require Import List String.',
             'Import ListNotations.',
             'Open Scope string_scope.',
             '',
             f'Definition loess_module_data_used : list string := {_coq_strings(sorted(used))}.',
             f'Definition loess_self_reads : list string := {_coq_strings(sorted(reads))}.',
             f'Definition loess_self_writes : list string := {_coq_strings(writes)}.',
             f'Definition loess_self_calls : list string := {_coq_strings(sorted(calls))}.',
             f'Definition loess_method_decorators : list string := {_coq_strings(decorators)}.',
             f'Definition polynomial_class_state : list string := {_coq_strings(class_state)}.',
             f'Definition polynomial_module_state : list string := {_coq_strings(module_state)}.',
             'Definition loess_strategy_functions : list (string * list string) := ['
             + '; '.join(f'("{n}", {_coq_strings(ds)})' for n, ds in strategy) + '].']
    return '\n'.join(lines) + '\n'


def _matexpr(node, a, b):
    """normal form of a small matrix expression over the two parameters: A, B, transpose, product; anything else is refused
    (an added ridge, a scaling, a pinv/lstsq call, an in-place update ... changes what is solved)"""
    if isinstance(node, ast.Name):
        if node.id == a:
            return 'SA'
        if node.id == b:
            return 'SB'
        raise TranslateError(f'_loess_solver: name {node.id} in the solved system')
    if isinstance(node, ast.Attribute) and node.attr == 'T':
        return f'(ST {_matexpr(node.value, a, b)})'
    if isinstance(node, ast.BinOp) and isinstance(node.op, ast.MatMult):
        return f'(SDot {_matexpr(node.left, a, b)} {_matexpr(node.right, a, b)})'
    if isinstance(node, ast.Call) and not node.keywords:
        f = node.func
        if isinstance(f, ast.Attribute) and f.attr == 'dot' and len(node.args) == 1 and not (isinstance(f.value, ast.Name) and f.value.id == 'np'):
            return f'(SDot {_matexpr(f.value, a, b)} {_matexpr(node.args[0], a, b)})'
        if isinstance(f, ast.Attribute) and f.attr == 'dot' and isinstance(f.value, ast.Name) and f.value.id == 'np' and len(node.args) == 2:
            return f'(SDot {_matexpr(node.args[0], a, b)} {_matexpr(node.args[1], a, b)})'
        if isinstance(f, ast.Attribute) and f.attr == 'transpose' and not node.args:
            return f'(ST {_matexpr(f.value, a, b)})'
    raise TranslateError(f'_loess_solver: unsupported expression in the solved system: {ast.unparse(node)[:80]}')


def gen_loess_solver(repo=None):
    """GenLoessSolver: the body of polynomial._loess_solver as a term: exactly `return np.linalg.solve(<lhs>, <rhs>)`
    with lhs, rhs products/transposes of the two parameters, nothing added (fail closed)."""
    tree, _ = _parse(REL, repo)
    fns = [st for st in tree.body if isinstance(st, ast.FunctionDef) and st.name == '_loess_solver']
    if len(fns) != 1:
        raise TranslateError('_loess_solver not found')
    fn = fns[0]
    _plain_function(fn, 'polynomial._loess_solver')
    params = [x.arg for x in fn.args.args]
    if len(params) != 2 or fn.args.vararg or fn.args.kwarg or fn.args.kwonlyargs:
        raise TranslateError(f'_loess_solver: unexpected signature {params}')
    body = [st for st in fn.body if not (isinstance(st, ast.Expr) and isinstance(st.value, ast.Constant))]
    if len(body) != 1 or not isinstance(body[0], ast.Return) or body[0].value is None:
        raise TranslateError('_loess_solver: body is not a single return statement '
                             f'({"; ".join(ast.unparse(st)[:60] for st in body)})')
    call = body[0].value
    if not (isinstance(call, ast.Call) and ast.unparse(call.func) == 'np.linalg.solve' and len(call.args) == 2 and not call.keywords):
        raise TranslateError(f'_loess_solver: does not return np.linalg.solve(lhs, rhs): {ast.unparse(call)[:100]}')
    lhs = _matexpr(call.args[0], params[0], params[1])
    rhs = _matexpr(call.args[1], params[0], params[1])
    lines = ['(* Generated by tools/gen_loess_state.py from the current /repo source; do not edit. *)',
             '(* SA = first parameter (the transposed, kernel- and weight-scaled design matrix), SB = second parameter *)',
             'Inductive sexpr := SA | SB | ST (e : sexpr) | SDot (a b : sexpr).',
             f'Definition loess_solver_lhs : sexpr := {lhs}.',
             f'Definition loess_solver_rhs : sexpr := {rhs}.']
    return '\n'.join(lines) + '\n'


def gen_loess_driver(repo=None):
    """GenLoessDriver: the control skeleton of the iteration in _Polynomial.loess: the loop range, every statement that
    can leave the loop (break / return / continue / raise) with the test guarding it, how the tested quantity is computed
    and what is recorded in tol_history (fail closed: exactly one for-loop over range(...) containing a break)."""
    tree, _ = _parse(REL, repo)
    cls = [st for st in tree.body if isinstance(st, ast.ClassDef) and st.name == '_Polynomial']
    if not cls:
        raise TranslateError('class _Polynomial not found')
    meth = [c for c in cls[0].body if isinstance(c, ast.FunctionDef) and c.name == 'loess']
    if not meth:
        raise TranslateError('_Polynomial.loess not found')
    loops = [n for n in ast.walk(meth[0]) if isinstance(n, (ast.For, ast.While))
             and any(isinstance(m, ast.Break) for m in ast.walk(n))]
    if len(loops) != 1 or not isinstance(loops[0], ast.For) or loops[0].orelse:
        raise TranslateError(f'_Polynomial.loess: expected exactly one for-loop with a break, found {len(loops)}')
    loop = loops[0]
    exits = []

    def visit(stmts, guards):
        for st in stmts:
            if isinstance(st, (ast.Break, ast.Continue, ast.Return, ast.Raise)):
                exits.append((type(st).__name__.lower(), ' and '.join(guards) if guards else 'True'))
            elif isinstance(st, ast.If):
                t = ast.unparse(st.test)
                visit(st.body, guards + [f'({t})'])
                visit(st.orelse, guards + [f'(not ({t}))'])
            elif isinstance(st, (ast.For, ast.While, ast.With, ast.Try)):
                raise TranslateError(f'_Polynomial.loess: nested {type(st).__name__} inside the iteration')
    visit(loop.body, [])
    tested = set()
    for kind, g in exits:
        for n in ast.walk(ast.parse(g, mode='eval')):
            if isinstance(n, ast.Name):
                tested.add(n.id)
    defs = []
    for st in loop.body:
        if isinstance(st, ast.Assign) and len(st.targets) == 1:
            tgt = ast.unparse(st.targets[0])
            if tgt in tested or tgt.startswith('tol_history') or tgt == 'baseline_old':
                defs.append(ast.unparse(st))
    tests = [ast.unparse(n.test) for n in ast.walk(loop) if isinstance(n, (ast.If, ast.IfExp))]
    assigns = [' '.join(ast.unparse(n).split()) for n in ast.walk(loop) if isinstance(n, (ast.Assign, ast.AugAssign, ast.AnnAssign))]
    lines = ['(* Generated by tools/gen_loess_state.py from the current /repo source; do not edit. *)',
             'From Coq Require Import List String.',
             'Import ListNotations.',
             'Open Scope string_scope.',
             '',
             f'Definition loess_loop_tests : list string := {_coq_strings(tests)}.',
             f'Definition loess_loop_assignments : list string := {_coq_strings(assigns)}.',
             f'Definition loess_loop_header : string := "{("for " + ast.unparse(loop.target) + " in " + ast.unparse(loop.iter))}".',
             'Definition loess_loop_exits : list (string * string) := ['
             + '; '.join(f'("{k}", "{g}")' for k, g in exits) + '].',
             f'Definition loess_loop_defs : list string := {_coq_strings(defs)}.']
    return '\n'.join(lines) + '\n'


GENERATORS = {'GenLoessState': gen_loess_state, 'GenLoessSolver': gen_loess_solver, 'GenLoessDriver': gen_loess_driver}
