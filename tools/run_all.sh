#!/bin/bash
# usage: tools/run_all.sh [tier] [jobs]   -- runs every claimed check (claims/ready.txt) on the unchanged /repo,
# `jobs` at a time, and prints one line per property: exit status, wall time, summary line.
cd "$(dirname "$0")/.." || exit 2
tier=${1:-quick}; jobs=${2:-4}
mkdir -p .cache/run_all
run_one() {
  p=$1; t0=$(date +%s)
  ./bin/check "$p" "$2" > ".cache/run_all/$p.out" 2>&1; rc=$?
  t1=$(date +%s)
  echo "$p rc=$rc wall=$((t1 - t0))s $(grep -E '^\[C' ".cache/run_all/$p.out" | tail -1)"
  grep -E "VIOLATION|BROKEN" ".cache/run_all/$p.out" | cut -c1-300 | sed 's/^/    /'
}
export -f run_one
xargs -a claims/ready.txt -P "$jobs" -I{} bash -c "run_one {} $tier"
