#!/usr/bin/env python3
"""GenC01Config: no method body writes the CONFIGURATION of a fitter object (fail-closed).

The C01 development (coq/C01/FitterState.v) models a fitter as configuration + lazily set state and
every method call as a script that does not write the configuration, whatever its outcome (returned,
raised up front, raised deep inside an inner fit).  That reading is tied to the source here.

Attributes: everything `__init__` and the property setters of _Algorithm / _Algorithm2D assign on `self`.
  STATE  (declared below): attributes that are legitimately set after construction -- x / z / shape on the
         first call of an object built without them, the validation flags, the polynomial / spline caches.
  CONFIG (everything else, so a new constructor attribute is configuration by default): output dtype,
         check_finite, the banded solver choice, the sort orders, the domains.

Over EVERY module of the package (every function, method, nested function) the generator REFUSES
  * a store / delete / augmented store to `self.<config attr>` outside `__init__` and the property setters of
    the algorithm classes (any syntactic form: plain, tuple-unpacking, for / with targets, del),
  * a store to `<name>.<config attr>` where <name> is not `self`, unless <name> was bound, on every path to the
    store inside the same function, by `<name> = <call>(...)`, i.e. the object was freshly constructed there
    (_override_x, _setup_optimizer, individual_axes configure the NEW object they build); parameters,
    aliases (`obj = self`), loop variables are not fresh,
  * a store through any other base expression (`self.fitter._dtype = ...`, `objs[0]._dtype = ...`),
  * an in-place subscript store into a config attribute (`self._sort_order[0] = ...`),
  * setattr / delattr / object.__setattr__ / `__dict__` / vars(...) anywhere in the package,
  * context managers defined in the package (contextlib.contextmanager, __enter__/__exit__): a temporary
    change of the configuration would have to be checked for try/finally by hand,
and otherwise emits the tables of write sites (configuration: constructor / setter / fresh-object sites;
state: all sites) that coq/props/C01.v checks against what is allowed."""
import ast
import os

from trlib import TranslateError, _parse

BASES = {'_Algorithm', '_Algorithm2D'}
BASE_FILES = {os.path.join('pybaselines', '_algorithm_setup.py'): '_Algorithm',
              os.path.join('pybaselines', 'two_d', '_algorithm_setup.py'): '_Algorithm2D'}
# legitimately written after construction (the sites are emitted and pinned on the Coq side)
STATE = {'x', 'z', '_size', '_shape', '__size', '__shape', '_validated_x', '_validated_z', '_polynomial', '_spline_basis'}
# the configuration attributes the theorems speak about must be among the derived ones
REQUIRED_CONFIG = {'_dtype', '_check_finite', '_banded_solver', '_pentapy_solver', 'banded_solver', '_sort_order',
                   '_inverted_order'}


def _modules(repo):
    root = os.path.join(repo, 'pybaselines')
    out = []
    for d, _, files in sorted(os.walk(root)):
        for f in sorted(files):
            if f.endswith('.py'):
                out.append(os.path.relpath(os.path.join(d, f), repo))
    if not out:
        raise TranslateError('no modules found under pybaselines/')
    return out


def _modname(rel):
    return rel[len('pybaselines' + os.sep):-3].replace(os.sep, '.')


def _is_setter(fn):
    return any(isinstance(d, ast.Attribute) and d.attr == 'setter' for d in fn.decorator_list)


def _self_stores(fn):
    """attribute names stored on `self` anywhere inside fn"""
    out = set()
    for n in ast.walk(fn):
        if isinstance(n, ast.Attribute) and isinstance(n.ctx, (ast.Store, ast.Del)) \
                and isinstance(n.value, ast.Name) and n.value.id == 'self':
            out.add(n.attr)
    return out


def _derive_attrs(trees):
    """(config attrs, property names with a setter) from __init__ + setters of the two base classes"""
    attrs, props = set(), set()
    for rel, cname in BASE_FILES.items():
        cls = [n for n in trees[rel].body if isinstance(n, ast.ClassDef) and n.name == cname]
        if len(cls) != 1:
            raise TranslateError(f'{rel}: class {cname} not found')
        inits = [f for f in cls[0].body if isinstance(f, ast.FunctionDef) and f.name == '__init__']
        if len(inits) != 1:
            raise TranslateError(f'{cname}.__init__ not found')
        attrs |= _self_stores(inits[0])
        for f in cls[0].body:
            if isinstance(f, ast.FunctionDef) and _is_setter(f):
                attrs |= _self_stores(f)
                attrs.add(f.name)
                props.add(f.name)
    return attrs, props


def _algorithm_classes(trees):
    """names of all classes deriving (by name, transitively) from _Algorithm / _Algorithm2D"""
    bases = {}
    for rel, tree in trees.items():
        for n in ast.walk(tree):
            if isinstance(n, ast.ClassDef):
                bs = set()
                for b in n.bases:
                    bs.add(b.attr if isinstance(b, ast.Attribute) else b.id if isinstance(b, ast.Name) else ast.unparse(b))
                bases.setdefault(n.name, set()).update(bs)
    algo = set(BASES)
    changed = True
    while changed:
        changed = False
        for c, bs in bases.items():
            if c not in algo and bs & algo:
                algo.add(c)
                changed = True
    return algo


class _NoFn:
    name = '<no function>'
    decorator_list = []


_NOFN = _NoFn()


class _Scan:
    def __init__(self, config, algo):
        self.config, self.algo = config, algo
        self.config_sites, self.state_sites = [], []
        self.nfuncs = 0

    # ---- freshness of local names: name -> True (bound by `name = call(...)` on every path so far) / False
    def _walk_block(self, stmts, env, where, cls, fn):
        for st in stmts:
            self._stmt(st, env, where, cls, fn)

    def _bind(self, target, env, fresh):
        for n in ast.walk(target):
            if isinstance(n, ast.Name) and isinstance(n.ctx, (ast.Store, ast.Del)):
                env[n.id] = fresh

    def _stmt(self, st, env, where, cls, fn):
        if isinstance(st, (ast.FunctionDef, ast.AsyncFunctionDef)):
            self._function(st, f'{where}.{st.name}', cls, dict((k, False) for k in env))
            env[st.name] = False
            return
        if isinstance(st, ast.ClassDef):
            self._class(st, f'{where}.{st.name}')
            return
        # stores performed by this statement itself (not by nested statements)
        own = [st] if not isinstance(st, (ast.If, ast.For, ast.AsyncFor, ast.While, ast.With, ast.AsyncWith, ast.Try)) else []
        if isinstance(st, (ast.For, ast.AsyncFor)):
            own = [st.target, st.iter]
        elif isinstance(st, (ast.With, ast.AsyncWith)):
            own = list(st.items)
        elif isinstance(st, (ast.If, ast.While)):
            own = [st.test]
        for part in own:
            self._check_stores(part, env, where, cls, fn)
        # bindings
        if isinstance(st, ast.Assign):
            fresh = isinstance(st.value, ast.Call) and not (isinstance(st.value.func, ast.Name) and st.value.func.id in ('getattr', 'vars'))
            for t in st.targets:
                if isinstance(t, ast.Name):
                    env[t.id] = fresh
                else:
                    self._bind(t, env, False)
        elif isinstance(st, (ast.AugAssign, ast.AnnAssign)):
            self._bind(st.target, env, False)
        elif isinstance(st, (ast.For, ast.AsyncFor)):
            self._bind(st.target, env, False)
        elif isinstance(st, (ast.With, ast.AsyncWith)):
            for it in st.items:
                if it.optional_vars is not None:
                    self._bind(it.optional_vars, env, False)
        elif isinstance(st, (ast.Import, ast.ImportFrom)):
            for a in st.names:
                env[(a.asname or a.name).split('.')[0]] = False
        # nested blocks: each with a copy; afterwards a name is fresh only if it is fresh in every branch
        blocks = []
        if isinstance(st, ast.If):
            blocks = [st.body, st.orelse]
        elif isinstance(st, (ast.For, ast.AsyncFor, ast.While)):
            blocks = [st.body, st.orelse, []]          # the body may not run at all
        elif isinstance(st, (ast.With, ast.AsyncWith)):
            blocks = [st.body]
        elif isinstance(st, ast.Try):
            blocks = [st.body + st.orelse] + [h.body for h in st.handlers] + [[]]
        if blocks:
            envs = []
            for b in blocks:
                e = dict(env)
                self._walk_block(b, e, where, cls, fn)
                envs.append(e)
            for k in set().union(*envs):
                env[k] = all(e.get(k, False) for e in envs)
            if isinstance(st, ast.Try):
                self._walk_block(st.finalbody, env, where, cls, fn)

    def _check_stores(self, node, env, where, cls, fn):
        for n in ast.walk(node):
            if isinstance(n, ast.Call):
                f = n.func
                fname = f.id if isinstance(f, ast.Name) else f.attr if isinstance(f, ast.Attribute) else ''
                if fname in ('setattr', 'delattr', '__setattr__', '__delattr__', 'vars'):
                    raise TranslateError(f'{where} line {n.lineno}: {ast.unparse(n)[:80]} (attribute written by name)')
            if isinstance(n, ast.Attribute) and n.attr == '__dict__':
                raise TranslateError(f'{where} line {n.lineno}: {ast.unparse(n)[:80]} (__dict__ access)')
            if isinstance(n, ast.Subscript) and isinstance(n.ctx, (ast.Store, ast.Del)):
                base = n.value
                while isinstance(base, ast.Subscript):
                    base = base.value
                if isinstance(base, ast.Attribute) and base.attr in self.config:
                    raise TranslateError(f'{where} line {n.lineno}: in-place store into configuration attribute `{ast.unparse(n)[:80]}`')
            if not (isinstance(n, ast.Attribute) and isinstance(n.ctx, (ast.Store, ast.Del))):
                continue
            if n.attr not in self.config and n.attr not in STATE:
                continue
            base = n.value
            if isinstance(base, ast.Name) and base.id == 'self':
                if cls is None or cls not in self.algo:
                    continue        # `self` is not a fitter (PenalizedSystem.pentapy_solver, SplineBasis.x, ...)
                kind = 'ctor' if fn.name == '__init__' else 'setter' if _is_setter(fn) else 'method'
                if n.attr in STATE:
                    self.state_sites.append((n.attr, where, kind))
                    continue
                if kind == 'method':
                    raise TranslateError(
                        f'{where} line {n.lineno}: the method body writes the configuration attribute self.{n.attr} '
                        f'(`{ast.unparse(n)}` is a store target); a fitter\'s configuration may only be written by __init__ and the '
                        'property setters -- a temporary change is lost when an inner call raises')
                self.config_sites.append((n.attr, where, kind))
            elif isinstance(base, ast.Name):
                if n.attr in STATE:
                    raise TranslateError(f'{where} line {n.lineno}: state attribute written on another object `{ast.unparse(n)}`')
                if not env.get(base.id, False):
                    raise TranslateError(
                        f'{where} line {n.lineno}: `{ast.unparse(n)}` writes a configuration attribute of an object that was not '
                        f'constructed in this function on every path (`{base.id}` may alias an existing fitter)')
                self.config_sites.append((n.attr, where, 'fresh'))
            else:
                raise TranslateError(f'{where} line {n.lineno}: configuration / state attribute written through `{ast.unparse(n)[:80]}`')

    def _function(self, fn, where, cls, outer_env=None):
        self.nfuncs += 1
        for d in fn.decorator_list:
            if 'contextmanager' in ast.unparse(d):
                raise TranslateError(f'{where}: context manager ({ast.unparse(d)}); temporary configuration changes must be reviewed')
        if fn.name in ('__enter__', '__exit__') and cls in self.algo:
            raise TranslateError(f'{where}: an algorithm class is a context manager')
        env = dict(outer_env or {})
        for a in fn.args.posonlyargs + fn.args.args + fn.args.kwonlyargs + [x for x in (fn.args.vararg, fn.args.kwarg) if x]:
            env[a.arg] = False
        self._walk_block(fn.body, env, where, cls, fn)

    def _class(self, node, where):
        for c in node.body:
            if isinstance(c, (ast.FunctionDef, ast.AsyncFunctionDef)):
                self._function(c, f'{where}.{c.name}', node.name)
            elif isinstance(c, ast.ClassDef):
                self._class(c, f'{where}.{c.name}')
            else:
                self._check_stores(c, {}, where + '.<class body>', node.name, _NOFN)


def gen_c01_config(repo=None):
    from trlib import REPO
    repo = repo or REPO
    rels = _modules(repo)
    trees = {rel: _parse(rel, repo)[0] for rel in rels}
    for rel in BASE_FILES:
        if rel not in trees:
            raise TranslateError(f'{rel} not found')
    attrs, props = _derive_attrs(trees)
    config = sorted(attrs - STATE)
    missing = REQUIRED_CONFIG - set(config)
    if missing:
        raise TranslateError(f'configuration attributes {sorted(missing)} are no longer assigned by __init__ / the setters')
    if not STATE <= attrs:
        raise TranslateError(f'declared state attributes {sorted(STATE - attrs)} are not assigned by __init__ / the setters')
    algo = _algorithm_classes(trees)
    scan = _Scan(set(config), algo)
    for rel in rels:
        mod = _modname(rel)
        for st in trees[rel].body:
            if isinstance(st, (ast.FunctionDef, ast.AsyncFunctionDef)):
                scan._function(st, f'{mod}.{st.name}', None)
            elif isinstance(st, ast.ClassDef):
                scan._class(st, f'{mod}.{st.name}')
            else:
                # module-level statements: no function context, nothing is fresh
                scan._check_stores(st, {}, f'{mod}.<module>', None, _NOFN)

    def q(s):
        return '"' + s.replace('"', '') + '"'
    cs = sorted(set(scan.config_sites))
    ss = sorted(set(scan.state_sites))
    lines = ['(* Generated by tools/gen_c01_config.py from the current /repo source; do not edit. *)',
             'From Coq Require Import List String.',
             'Import ListNotations.',
             'Open Scope string_scope.',
             '',
             f'(* {len(rels)} modules, {scan.nfuncs} functions / methods / nested functions scanned; {len(algo)} algorithm classes *)',
             '(* attributes assigned by __init__ / the property setters of _Algorithm and _Algorithm2D, minus the declared state *)',
             'Definition config_attrs : list string := [' + '; '.join(q(a) for a in config) + '].',
             'Definition state_attrs : list string := [' + '; '.join(q(a) for a in sorted(STATE)) + '].',
             '',
             '(* every store to a configuration attribute in the package: (attribute, function, kind) with kind',
             '   "ctor" (self.<attr> in __init__), "setter" (self.<attr> in a property setter) or "fresh" (<name>.<attr> where',
             '   <name> = <call>(...) was constructed in that function on every path); a store in a method body is REFUSED *)',
             'Definition config_write_sites : list (string * string * string) := [']
    lines += ['  (' + ', '.join(q(v) for v in s) + ')' + (';' if i + 1 < len(cs) else '') for i, s in enumerate(cs)]
    lines += ['].', '',
              '(* every store to a state attribute on `self` in an algorithm class *)',
              'Definition state_write_sites : list (string * string * string) := [']
    lines += ['  (' + ', '.join(q(v) for v in s) + ')' + (';' if i + 1 < len(ss) else '') for i, s in enumerate(ss)]
    lines += ['].', '']
    return '\n'.join(lines) + '\n'


GENERATORS = {'GenC01Config': gen_c01_config}
