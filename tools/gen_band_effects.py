#!/usr/bin/env python3
"""GenBandEffects: ORDER of attribute assignments versus raising validations in the mutators of
PenalizedSystem (pybaselines/_banded_utils.py) and PSpline (pybaselines/_spline_utils.py)  (fail-closed).

Two descriptions are generated from the current source, both DATA for C11/Effects.v:

 1. `reset_diagonals_effects : list effect` -- the body of PenalizedSystem.reset_diagonals as the sequence
    of effects the interpreter C11.Effects.exec runs (ECheckLam / EOrig / EFlag f / ESetLam / EPen / EBands).
    Every statement must have one of the recognised shapes; anything else that calls, raises or assigns an
    attribute becomes EOther, which no accepted order contains.  The obligations are
    `effects_ok reset_diagonals_effects = true` and `checks_first reset_diagonals_effects = true`.

 2. `mutator_events : list (string * list event)` -- for EVERY method of the two classes that assigns an
    attribute of self (constructors excepted: an exception there leaves no object behind), the events
    `Raises what` / `Assigns attr` in source order, calls to other methods of the object inlined.  The
    obligation is `forallb strongly_safe ...= true`: no attribute of self is assigned before the last
    statement that can raise (C11.EffectsProofs.strongly_safe_sound).

What "can raise" means here (a classification, recorded as trusted in the evidence):
  * a `raise` statement;
  * a call of a module-level function of the two modules whose body (transitively) contains `raise`, or
    of a `_check*` validator imported from ._validation;
  * in a method: a call of any other imported function (solvers ...), conservatively;
  * NOT: NumPy functions (`np.*`), array methods, arithmetic and indexing on already validated values,
    a small list of builtins.
Branches are flattened in source order (a raise in a later branch after an assignment in an earlier one is
reported although no single path contains both: conservative).  try/except, loops that assign attributes,
`setattr`, `self.__dict__` and `del self.x` are refused."""
import ast
import os

from trlib import TranslateError, _parse

BANDED = os.path.join('pybaselines', '_banded_utils.py')
SPLINE = os.path.join('pybaselines', '_spline_utils.py')
BUILTIN_OK = {'len', 'int', 'float', 'bool', 'max', 'min', 'abs', 'range', 'isinstance', 'tuple', 'list',
              'slice', 'getattr', 'hasattr', 'str', 'repr', 'enumerate', 'zip', 'sum', 'round'}
MUTATING_METHODS = {'fill', 'sort', 'resize', 'append', 'extend', 'update', 'pop', 'clear', 'put', 'itemset',
                    'setflags', 'insert', 'remove', 'setdefault', 'popitem', 'partition', 'byteswap'}
FLAG_OF = {'diff_order': ('FOrder', 'diff_order'), 'lower': ('FLower', 'lower_only'),
           'using_pentapy': ('FPenta', 'using_pentapy'), 'reversed': ('FRev', 'needs_reversed')}
PEN_RHS = 'self.lam * _pad_diagonals(self.original_diagonals, padding, self.lower)'


def _functions(tree):
    return {n.name: n for n in tree.body if isinstance(n, ast.FunctionDef)}


def _classes(tree):
    return {n.name: n for n in tree.body if isinstance(n, ast.ClassDef)}


def _methods(cls):
    return {n.name: n for n in cls.body if isinstance(n, ast.FunctionDef)}


def _raising_functions(funcs):
    """names of the module-level functions that can raise: fixpoint over direct `raise` and calls"""
    raising = {name for name, fn in funcs.items() if any(isinstance(n, ast.Raise) for n in ast.walk(fn))}
    changed = True
    while changed:
        changed = False
        for name, fn in funcs.items():
            if name in raising:
                continue
            for n in ast.walk(fn):
                if isinstance(n, ast.Call) and isinstance(n.func, ast.Name) and \
                        (n.func.id in raising or n.func.id.startswith('_check')):
                    raising.add(name)
                    changed = True
                    break
    return raising


def _self_attr(node):
    """'x' for self.x, self.x[...], self.x.y ...; None otherwise"""
    base = node
    while isinstance(base, (ast.Subscript, ast.Attribute)):
        if isinstance(base, ast.Attribute) and isinstance(base.value, ast.Name) and base.value.id == 'self':
            return base.attr
        base = base.value
    return None


class _Events:
    def __init__(self, funcs, raising, lookup_method):
        self.funcs = funcs
        self.raising = raising
        self.lookup = lookup_method

    def calls(self, node, where, stack):
        """events of the calls inside an expression (pre-order is good enough: all of them precede the
        statement's own assignment)"""
        ev = []
        if node is None:
            return ev
        for n in ast.walk(node):
            if not isinstance(n, ast.Call):
                continue
            f = n.func
            if isinstance(f, ast.Name):
                if f.id in ('setattr', 'delattr', 'vars', 'exec', 'eval'):
                    raise TranslateError(f'{where}: {f.id}(...)')
                if f.id in self.funcs:
                    if f.id in self.raising:
                        ev.append(('R', f.id))
                elif f.id.startswith('_check'):
                    ev.append(('R', f.id))
                elif f.id in BUILTIN_OK:
                    pass
                else:
                    ev.append(('R', f.id))       # imported library function: conservatively may raise
            elif isinstance(f, ast.Attribute):
                if isinstance(f.value, ast.Name) and f.value.id == 'self':
                    m = self.lookup(f.attr)
                    if m is None:
                        ev.append(('R', f'self.{f.attr}'))
                    elif f.attr in stack:
                        raise TranslateError(f'{where}: recursive call of self.{f.attr}')
                    else:
                        ev += self.method(m, stack + [f.attr])
                elif isinstance(f.value, ast.Name) and f.value.id == 'super':
                    raise TranslateError(f'{where}: bare super')
                elif isinstance(f.value, ast.Call) and isinstance(f.value.func, ast.Name) and f.value.func.id == 'super':
                    raise TranslateError(f'{where}: super().{f.attr}(...) in a mutator')
                else:
                    a = _self_attr(f.value) if f.attr in MUTATING_METHODS else None
                    if a is not None:
                        ev.append(('A', a))      # in-place mutation through a method of the attribute
            else:
                ev.append(('R', ast.unparse(f)[:40]))
        return ev

    def targets(self, t, where):
        if isinstance(t, (ast.Tuple, ast.List)):
            return [e for x in t.elts for e in self.targets(x, where)]
        if isinstance(t, ast.Starred):
            return self.targets(t.value, where)
        a = _self_attr(t)
        if a == '__dict__':
            raise TranslateError(f'{where}: writes self.__dict__')
        return [('A', a)] if a is not None else []

    def stmts(self, body, where, stack):
        ev = []
        for st in body:
            if isinstance(st, ast.Expr) and isinstance(st.value, ast.Constant):
                continue
            if isinstance(st, ast.Pass):
                continue
            if isinstance(st, ast.Raise):
                ev += self.calls(st.exc, where, stack)
                ev.append(('R', 'raise ' + (ast.unparse(st.exc)[:50] if st.exc is not None else '')))
            elif isinstance(st, ast.Assign):
                ev += self.calls(st.value, where, stack)
                for t in st.targets:
                    ev += self.calls(t, where, stack)
                    ev += self.targets(t, where)
            elif isinstance(st, ast.AugAssign):
                ev += self.calls(st.value, where, stack) + self.calls(st.target, where, stack)
                ev += self.targets(st.target, where)
            elif isinstance(st, ast.AnnAssign):
                ev += self.calls(st.value, where, stack)
                if st.value is not None:
                    ev += self.targets(st.target, where)
            elif isinstance(st, (ast.Expr, ast.Return)):
                ev += self.calls(st.value, where, stack)
            elif isinstance(st, ast.If):
                ev += self.calls(st.test, where, stack)
                ev += self.stmts(st.body, where, stack) + self.stmts(st.orelse, where, stack)
            elif isinstance(st, (ast.For, ast.While)):
                head = self.calls(st.iter if isinstance(st, ast.For) else st.test, where, stack)
                inner = self.stmts(st.body, where, stack) + self.stmts(st.orelse, where, stack)
                if any(k == 'A' for k, _ in inner):
                    raise TranslateError(f'{where}: a loop assigns attributes of self')
                ev += head + inner
            elif isinstance(st, ast.With):
                for it in st.items:
                    ev += self.calls(it.context_expr, where, stack)
                ev += self.stmts(st.body, where, stack)
            elif isinstance(st, ast.Assert):
                ev += self.calls(st.test, where, stack)
                ev.append(('R', 'assert'))
            elif isinstance(st, ast.Delete):
                if any(_self_attr(t) is not None for t in st.targets):
                    raise TranslateError(f'{where}: del on an attribute of self')
            else:
                raise TranslateError(f'{where}: unsupported statement {type(st).__name__}: {ast.unparse(st)[:60]}')
        return ev

    def method(self, fn, stack):
        if fn.decorator_list and not all(ast.unparse(d) == 'property' for d in fn.decorator_list):
            raise TranslateError(f'{fn.name}: decorated')
        return self.stmts(fn.body, fn.name, stack)


# ---------------------------------------------------------------- reset_diagonals as an effect list
def _pure_local(st):
    """a statement that only binds local names from call-free expressions (possibly under if/else)"""
    if isinstance(st, ast.Assign):
        return all(isinstance(t, ast.Name) for t in st.targets) and \
            not any(isinstance(n, ast.Call) for n in ast.walk(st.value))
    if isinstance(st, ast.If):
        return not any(isinstance(n, ast.Call) for n in ast.walk(st.test)) and \
            all(_pure_local(s) for s in st.body + st.orelse)
    return False


def _is_check_lam(call):
    return (isinstance(call, ast.Call) and isinstance(call.func, ast.Name) and call.func.id == '_check_lam'
            and len(call.args) == 1 and isinstance(call.args[0], ast.Name) and call.args[0].id == 'lam'
            and [(k.arg, ast.unparse(k.value)) for k in call.keywords] in ([('allow_zero', 'False')], []))


def _orig_block(st, raising):
    """the `if self.original_diagonals is None or self.diff_order != diff_order: ... else: ...` block"""
    if not isinstance(st, ast.If):
        return False
    if ast.unparse(st.test) != 'self.original_diagonals is None or self.diff_order != diff_order':
        return False

    def scan(body, allow_raising_prefix):
        assigned = False
        for s in body:
            for n in ast.walk(s):
                if isinstance(n, (ast.Raise, ast.Try, ast.While, ast.For)):
                    return False
                if isinstance(n, ast.Call):
                    f = n.func
                    if not isinstance(f, ast.Name):
                        return False
                    if f.id in raising or f.id.startswith('_check'):
                        if not allow_raising_prefix or assigned:
                            return False
                    elif f.id not in ('_lower_to_full',):
                        return False
            if isinstance(s, ast.Assign):
                for t in s.targets:
                    if isinstance(t, ast.Name):
                        continue
                    if ast.unparse(t) != 'self.original_diagonals':
                        return False
                    assigned = True
            elif isinstance(s, ast.If):
                for sub in (s.body, s.orelse):
                    r = scan(sub, allow_raising_prefix and not assigned)
                    if r is False:
                        return False
                    assigned = assigned or r == 'assigned'
            else:
                return False
        return 'assigned' if assigned else 'clean'
    return scan(st.body, True) == 'assigned' and scan(st.orelse, False) == 'assigned'


def reset_effects(fn, raising):
    effects = []
    lam_checked_local = False
    body = [s for s in fn.body if not (isinstance(s, ast.Expr) and isinstance(s.value, ast.Constant))]
    for st in body:
        src = ast.unparse(st)
        if isinstance(st, ast.Assign) and len(st.targets) == 1:
            t, v = st.targets[0], st.value
            tu = ast.unparse(t)
            if tu == 'lam' and _is_check_lam(v):
                effects.append('ECheckLam')
                lam_checked_local = True
                continue
            if tu == 'self.lam' and _is_check_lam(v):
                effects += ['ECheckLam', 'ESetLam']
                continue
            if tu == 'self.lam' and isinstance(v, ast.Name) and v.id == 'lam' and lam_checked_local:
                effects.append('ESetLam')
                continue
            if isinstance(t, ast.Attribute) and isinstance(t.value, ast.Name) and t.value.id == 'self' \
                    and t.attr in FLAG_OF and isinstance(v, ast.Name) and v.id == FLAG_OF[t.attr][1]:
                effects.append(f'EFlag {FLAG_OF[t.attr][0]}')
                continue
            if tu == 'self.penalty' and ast.unparse(v) == PEN_RHS:
                effects.append('EPen')
                continue
        if src == 'self._update_bands()':
            effects.append('EBands')
            continue
        if _orig_block(st, raising):
            effects.append('EOrig')
            continue
        if _pure_local(st):
            # the three layout locals may only be bound before the first effect that reads them
            continue
        effects.append('EOther')
    # the layout locals must be bound exactly as the model computes them (want_penta / want_lower / want_rev)
    want = {
        'using_pentapy': 'using_pentapy = allow_pentapy and _HAS_PENTAPY and (diff_order == 2)',
        'lower_only': 'if allow_lower and (not using_pentapy):\n    lower_only = True\nelse:\n    lower_only = False',
        'needs_reversed': 'if reverse_diags or (using_pentapy and reverse_diags is None):\n    needs_reversed = True\nelse:\n    needs_reversed = False',
    }
    norm = lambda s: s.replace('(', '').replace(')', '')   # noqa: E731
    texts = [norm(ast.unparse(s)) for s in body]
    for name, text in want.items():
        if texts.count(norm(text)) != 1:
            raise TranslateError(f'reset_diagonals: the local {name} is not computed in the modelled way')
        binds = [s for s in body for n in ast.walk(s) if isinstance(n, ast.Name) and n.id == name and isinstance(n.ctx, ast.Store)]
        if len(binds) != (1 if name == 'using_pentapy' else 2):
            raise TranslateError(f'reset_diagonals: the local {name} is re-bound')
    args = [a.arg for a in fn.args.args]
    if args != ['self', 'lam', 'diff_order', 'allow_lower', 'reverse_diags', 'allow_pentapy', 'padding']:
        raise TranslateError(f'reset_diagonals: signature changed: {args}')
    return effects


def coq_string(s):
    return '"' + s.replace('"', "'") + '"'


def gen_band_effects(repo=None):
    btree, _ = _parse(BANDED, repo)
    stree, _ = _parse(SPLINE, repo)
    funcs = dict(_functions(btree))
    funcs.update(_functions(stree))
    raising = _raising_functions(funcs)
    bcls, scls = _classes(btree), _classes(stree)
    if 'PenalizedSystem' not in bcls or 'PSpline' not in scls:
        raise TranslateError('PenalizedSystem / PSpline not found')
    ps, sp = bcls['PenalizedSystem'], scls['PSpline']
    if [ast.unparse(b) for b in sp.bases] != ['PenalizedSystem'] or ps.bases:
        raise TranslateError('class hierarchy changed')
    pm, sm = _methods(ps), _methods(sp)
    if 'reset_diagonals' not in pm or 'reset_penalty_diagonals' not in sm or '_update_bands' not in pm:
        raise TranslateError('reset_diagonals / reset_penalty_diagonals / _update_bands not found')
    if 'reset_diagonals' in sm or '_update_bands' in sm:
        raise TranslateError('PSpline overrides reset_diagonals / _update_bands')

    # 1. the effect list
    effects = reset_effects(pm['reset_diagonals'], raising)
    # _update_bands must be the modelled one (Uses.update_bands): only the three band attributes
    ub = _Events(funcs, raising, lambda name: pm.get(name)).method(pm['_update_bands'], ['_update_bands'])
    if [e for e in ub if e[0] == 'R'] or sorted({a for k, a in ub if k == 'A'}) != ['main_diagonal', 'main_diagonal_index', 'num_bands']:
        raise TranslateError(f'_update_bands changed: {ub}')
    # reset_penalty_diagonals must forward to reset_diagonals with the modelled arguments
    body = [s for s in sm['reset_penalty_diagonals'].body if not (isinstance(s, ast.Expr) and isinstance(s.value, ast.Constant))]
    fwd = ('self.reset_diagonals(lam=lam, diff_order=diff_order, allow_lower=allow_lower, reverse_diags=reverse_diags, '
           'allow_pentapy=False, padding=self.basis.spline_degree - diff_order)')
    if len(body) != 1 or ast.unparse(body[0]) != fwd:
        raise TranslateError('PSpline.reset_penalty_diagonals does not simply forward to reset_diagonals with '
                             'allow_pentapy=False, padding=self.basis.spline_degree - diff_order')

    # 2. events of every mutator
    rows = []
    exempt = []
    for cname, methods, lookup in (('PenalizedSystem', pm, lambda n: pm.get(n)),
                                   ('PSpline', sm, lambda n: sm.get(n) or pm.get(n))):
        for name, fn in methods.items():
            if name == '__init__':
                exempt.append(f'{cname}.{name}')
                continue
            ev = _Events(funcs, raising, lookup).method(fn, [name])
            if any(k == 'A' for k, _ in ev):
                rows.append((f'{cname}.{name}', ev))
    need = {'PenalizedSystem.reset_diagonals', 'PenalizedSystem.add_penalty', 'PenalizedSystem.add_diagonal',
            'PenalizedSystem.reverse_penalty', 'PenalizedSystem._update_bands', 'PSpline.reset_penalty_diagonals'}
    missing = need - {r[0] for r in rows}
    if missing:
        raise TranslateError(f'mutators not found: {sorted(missing)}')

    def coq_ev(e):
        return ('Raises ' if e[0] == 'R' else 'Assigns ') + coq_string(e[1])
    lines = ['(* Generated by tools/gen_band_effects.py from the current /repo source; do not edit. *)',
             'From Coq Require Import List String.',
             'From PB Require Import C11.Effects.',
             'Import ListNotations.',
             'Open Scope string_scope.',
             '',
             '(* PenalizedSystem.reset_diagonals, statement by statement *)',
             'Definition reset_diagonals_effects : list effect := [' + '; '.join(effects) + '].',
             '',
             '(* every method of PenalizedSystem / PSpline that assigns an attribute of self (constructors excepted: '
             + ', '.join(exempt) + '): raising statements and assignments in source order *)',
             'Definition mutator_events : list (string * list event) := [']
    for i, (name, ev) in enumerate(rows):
        lines.append(f'  ({coq_string(name)}, [' + '; '.join(coq_ev(e) for e in ev) + '])' + (';' if i + 1 < len(rows) else ''))
    lines.append('].')
    return '\n'.join(lines) + '\n'


GENERATORS = {'GenBandEffects': gen_band_effects}
