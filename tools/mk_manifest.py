#!/usr/bin/env python3
"""Regenerates /verif/MANIFEST.json from the table below (one entry per claimed property)."""
import json
import os

HERE = os.path.dirname(os.path.dirname(os.path.abspath(__file__)))

# only properties listed in claims/ready.txt (checks the lead has confirmed on the unchanged tree) are claimed
READY = [l.strip() for l in open(os.path.join(HERE, 'claims', 'ready.txt')) if l.strip()]
CLAIMS = {}
for _p in sorted(os.listdir(os.path.join(HERE, 'claims'))):
    if _p.endswith('.json') and _p[:-5] in READY:
        CLAIMS[_p[:-5]] = json.load(open(os.path.join(HERE, 'claims', _p)))

NOT_YET = 'check not built yet in this session (work in progress; see DESIGN.md section 8 build order)'


def main():
    props = [json.loads(l)['id'] for l in open(os.path.join(HERE, 'properties.jsonl'))]
    checks = []
    for pid in props:
        if pid not in CLAIMS:
            continue
        c = CLAIMS[pid]
        checks.append({
            'property_id': pid,
            'quick_cmd': f'./bin/check {pid} quick',
            'thorough_cmd': f'./bin/check {pid} thorough',
            'evidence_file': f'evidence/{pid}.json',
            'replay_cmd_template': f'./bin/check {pid} --replay {{path}}',
            'engine': 'coq-proof+correspondence',
            'level_claimed': {'category': 'proof', 'text': c['text'], 'design_ref': c['design_ref']},
            'level_note': c['note'],
            'technique': c['technique'],
        })
    man = {
        'version': 1,
        'setup_cmd': './bin/setup',
        'hooks': {
            'guard': 'PYBASELINES_VERIF',
            'enable': 'no source hooks exist; checks instrument from the harness process (monkey-patching, Dispatcher.py_func, ndarray subclasses)',
            'baseline_off_cmd': 'cd /repo && /venv/bin/python -m pytest -ra -q -p no:cacheprovider --timeout=900 --continue-on-collection-errors',
            'source_commits': [],
            'add_only': True,
        },
        'engines': [{
            'name': 'coq-proof+correspondence', 'path': 'bin/check',
            'serves_properties': sorted(CLAIMS),
            'kind_free_text': 'Coq 8.16.1 theorems about executable Gallina models (coq/), tied to /repo by a fail-closed ast translator '
                              '(tools/translate.py -> coq/gen) and by correspondence runs evaluated inside Coq (harness/).',
        }],
        'checks': checks,
        'notes': 'Fix commits in /repo: 85aceed (C11 reset_diagonals layout order). See known_findings.txt and DESIGN.md.',
        'not_applicable': [{'property_id': p, 'reason': NOT_YET} for p in props if p not in CLAIMS],
    }
    with open(os.path.join(HERE, 'MANIFEST.json'), 'w') as f:
        json.dump(man, f, indent=1)
    print('MANIFEST.json:', len(checks), 'checks,', len(man['not_applicable']), 'not claimed')


if __name__ == '__main__':
    main()
