#!/usr/bin/env python3
"""Regenerates /verif/MANIFEST.json from the table below (one entry per claimed property)."""
import json
import os

HERE = os.path.dirname(os.path.dirname(os.path.abspath(__file__)))

COMMON_NOTE = ('Trusted: Coq 8.16.1 kernel + VM (vm_compute; no native_compute); no axioms declared (grep gate on every run, '
               'Print Assumptions recorded per theorem in the evidence); tools/translate.py where gen/*.v is used; the '
               'correspondence harness (generators, recorders, exact Fraction/hex-float conversions). ')

CLAIMS = {
    'C11': dict(
        text=('FULL. Kernel-checked theorems, for every size N > d and every reconfiguration history: the hard-coded band tables '
              '(regenerated from _banded_utils.py by the translator on every run) equal the bands of D\'D via a reflective check '
              'lifted to all N by a representative-column lemma; dispatch side conditions; layout conversions; any history of '
              'reset_diagonals/reverse_penalty followed by a reset equals the fresh system. The hand model of '
              'diff_penalty_diagonals/_lower_to_full/_shift_rows/_pad_diagonals/PenalizedSystem is tied to the code by exact-integer '
              'correspondence evaluated inside Coq; a direct dense oracle searches for failing inputs.'),
        design_ref='DESIGN.md section 4, C11',
        note=COMMON_NOTE + 'Modelled not verified: scipy.sparse D.T@D/_sparse_to_banded (general path) taken as the specification and dense-checked; float rounding for non-integer lam.',
        technique='Coq proof (reflection + induction) over translator-generated tables; exact-integer model/implementation correspondence',
    ),
}

NOT_YET = 'check not built yet in this session (work in progress; see DESIGN.md section 8 build order)'


def main():
    props = [json.loads(l)['id'] for l in open(os.path.join(HERE, 'properties.jsonl'))]
    checks = []
    for pid in props:
        if pid not in CLAIMS:
            continue
        c = CLAIMS[pid]
        checks.append({
            'property_id': pid,
            'quick_cmd': f'./bin/check {pid} quick',
            'thorough_cmd': f'./bin/check {pid} thorough',
            'evidence_file': f'evidence/{pid}.json',
            'replay_cmd_template': f'./bin/check {pid} --replay {{path}}',
            'engine': 'coq-proof+correspondence',
            'level_claimed': {'category': 'proof', 'text': c['text'], 'design_ref': c['design_ref']},
            'level_note': c['note'],
            'technique': c['technique'],
        })
    man = {
        'version': 1,
        'setup_cmd': './bin/setup',
        'hooks': {
            'guard': 'PYBASELINES_VERIF',
            'enable': 'no source hooks exist; checks instrument from the harness process (monkey-patching, Dispatcher.py_func, ndarray subclasses)',
            'baseline_off_cmd': 'cd /repo && /venv/bin/python -m pytest -ra -q -p no:cacheprovider --timeout=900 --continue-on-collection-errors',
            'source_commits': [],
            'add_only': True,
        },
        'engines': [{
            'name': 'coq-proof+correspondence', 'path': 'bin/check',
            'serves_properties': sorted(CLAIMS),
            'kind_free_text': 'Coq 8.16.1 theorems about executable Gallina models (coq/), tied to /repo by a fail-closed ast translator '
                              '(tools/translate.py -> coq/gen) and by correspondence runs evaluated inside Coq (harness/).',
        }],
        'checks': checks,
        'notes': 'Fix commits in /repo: 85aceed (C11 reset_diagonals layout order). See known_findings.txt and DESIGN.md.',
        'not_applicable': [{'property_id': p, 'reason': NOT_YET} for p in props if p not in CLAIMS],
    }
    with open(os.path.join(HERE, 'MANIFEST.json'), 'w') as f:
        json.dump(man, f, indent=1)
    print('MANIFEST.json:', len(checks), 'checks,', len(man['not_applicable']), 'not claimed')


if __name__ == '__main__':
    main()
