#!/usr/bin/env python3
"""Runs every seeded change under seeded/ against the check of the property it breaks (plus the extra
checks listed in EXTRA) with tools/seedtest.sh (isolated copies; /repo and /verif are not touched) and
writes seeded/RESULTS.json: per (seed, check) the exit status, whether a concrete failing input was
reported, and which obligations broke.   usage: tools/seed_matrix.py [jobs]"""
import concurrent.futures
import json
import os
import re
import subprocess
import sys

HERE = os.path.dirname(os.path.dirname(os.path.abspath(__file__)))
EXTRA = {  # seeds that also violate a neighbouring property's statement
    'C06_diff_penalty_diagonals_the_guard_that_fa': ['C11'],
    'C07_splinebasis_same_basis_pybaselines_splin': ['C03'],
    'C08_in_polyhelper_recalc_vandermonde_pybasel': ['C03'],
    'C03_pinv_stale_overwrite': ['C08'],
    'C12_in_pybaselines_spline_utils_py_numba_btb': ['C07'],
    'C09_pybaselines_weighting_py_asls_was_rewrit': ['C01'],
    'C01_r2_individual_axes_forward_order': ['C02', 'C20'],
    'C07_r2_btb_forward_only_interval_scan': ['C12'],
    'C17_r2_modpoly_drops_copy_weights': ['C13'],
    'C11_r2_lam_one_skips_copy_aliasing': ['C06'],
    'C02_r3_return_results_only_1d_sort_keys': ['C08'],
    'C17_r3_get_function_sorts_sorted_x_again': ['C02'],
    'C06_r3_solve_banded_overwrite_ab_tridiagonal': ['C10', 'C13'],
    'C20_r3_individual_axes_sort_order_loop': ['C01', 'C02'],
    'C12_r3_spline_basis2d_reuses_rows_for_close_axes': ['C07', 'C20'],
    'C06_r4_eigenvalues_zeroed_by_magnitude_1e_10': ['C20'],
    'C20_r4_eigenvalues_zeroed_by_sqrt_eps': ['C06'],
    'C10_r4_solve_banded_overwrite_ab_hardcoded': ['C06', 'C13'],
    'C16_r4_collab_pls_fabc_raw_method_string': ['C17'],
    'C17_r4_collab_pls_2d_drops_lowercasing': ['C16'],
    'C01_r4_yx_arrays_casts_generated_x_data_to_float64': ['C16'],
    'C01_r5_extrapolate2d_row_col_padding_mixup': ['C18'],
    'C18_r5_pad_edges2d_numpy_pair_pad_width': ['C01'],
    'C07_r5_pspline_smooth_sorts_xy_not_weights': ['C02'],
    'C02_r5_get_function_sorts_x_again': ['C17'],
    'C12_r5_make_btwb_2d_uniform_weight_shortcut': ['C07'],
    'C19_r5_loess_kernels_cached_across_calls': ['C03'],
    'C03_r5_extended_range_fitter_reused_by_added_count': ['C17'],
    'C01_r6_adaptive_minmax_dtype_not_restored_after_raise': ['C03', 'C15'],
    'C03_r6_collab_pls_dtype_not_restored_after_raise': ['C01'],
    'C05_r6_failed_first_call_resets_x_but_not_spline_cache': ['C03'],
    'C06_r6_setup_whittaker_2d_ravel_order_k': ['C20', 'C16'],
    'C20_r6_setup_whittaker_2d_ravel_order_a': ['C06', 'C16'],
    'C08_r6_return_results_skips_non_1d_sort_keys': ['C02'],
    'C10_r6_btb_bty_forward_only_interval_scan_inlined': ['C12', 'C07'],
    'C12_r6_solve_pspline_eps_jitter_on_btwb_diagonal': ['C07'],
    'C15_r6_adaptive_minmax_check_finite_not_restored': ['C03', 'C01'],
    'C09_r6_pspline_airpls_early_exit_writes_zero_tol': ['C01'],
    'C01_r7_register_no_data_call_keeps_sorted_order': ['C02'],
    'C02_r7_aspls_2d_alpha_sorted_with_inverted_order': ['C06'],
    'C06_r7_aspls_alpha_assigned_through_sort_index': ['C02'],
    'C08_r7_pinv_cache_validated_by_shape_only': ['C03'],
    'C15_r7_setup_polynomial_skips_order_check_on_cached_vandermonde': ['C03'],
    'C12_r7_design_matrix_repeated_x_shortcut_wraps_at_row_0': ['C10'],
    'C16_r7_individual_axes_inner_fitter_inherits_output_dtype': ['C01'],
    'C20_r7_airpls_2d_l1_norm_via_linalg_norm': ['C09'],
    'C09_r7_brpls_outer_stop_uses_inner_tol': ['C01'],
    'C11_r7_mpspline_reset_penalty_without_diff_order': ['C07'],
    'C10_r7_solve_pspline_fallback_drops_zero_weight_samples': ['C12'],
    'C01_r8_iasls_default_weights_mapped_with_sort_order': ['C02'],
    'C03_r8_banded_solver_setter_writes_before_validation': ['C15'],
    'C04_r8_whittaker_system_2d_cached_shared_coef': ['C03'],
    'C06_r8_eigen_decomposition_cache_key_omits_diff_order': ['C20'],
    'C07_r8_diff_penalty_full_band_size_gate_too_low': ['C11'],
    'C11_r8_diff_penalty_lower_only_size_gate_table': ['C06'],
    'C12_r8_same_basis_keyed_on_total_knot_count': ['C03'],
    'C17_r8_collab_pls_method_name_not_lowercased': ['C16'],
    'C20_r8_individual_axes_first_partial_aliases_running_total': ['C17'],
}


def run(seed, prop):
    patch = os.path.join(HERE, 'seeded', seed, 'patch.diff')
    p = subprocess.run([os.path.join(HERE, 'tools', 'seedtest.sh'), patch, prop], stdout=subprocess.PIPE,
                       stderr=subprocess.STDOUT, text=True)
    out = p.stdout
    viol = [l for l in out.split('\n') if l.startswith('VIOLATION')]
    broken = [re.sub(r'\s+', ' ', l)[7:160] for l in out.split('\n') if l.startswith('BROKEN')]
    summary = [l for l in out.split('\n') if l.startswith('[C')]
    return {
        'seed': seed, 'check': prop, 'exit': p.returncode,
        'concrete_failing_input': any('no-failing-input-found' not in v for v in viol),
        'violation_lines': len(viol),
        'broken_obligations': broken[:6],
        'summary': summary[-1] if summary else out[-300:],
    }


def main():
    jobs = int(sys.argv[1]) if len(sys.argv) > 1 else 5
    only = sys.argv[2:]   # optional: seed directory names to (re)run; results are merged into RESULTS.json
    seeds = sorted(d for d in os.listdir(os.path.join(HERE, 'seeded'))
                   if os.path.exists(os.path.join(HERE, 'seeded', d, 'patch.diff')) and (not only or d in only))
    tasks = []
    for s in seeds:
        tasks.append((s, s[:3]))
        for extra in EXTRA.get(s, []):
            tasks.append((s, extra))
    res = []
    with concurrent.futures.ThreadPoolExecutor(jobs) as ex:
        for r in ex.map(lambda t: run(*t), tasks):
            print(r['seed'], r['check'], 'exit', r['exit'], 'concrete' if r['concrete_failing_input'] else '',
                  len(r['broken_obligations']), 'broken', flush=True)
            res.append(r)
    rpath = os.path.join(HERE, 'seeded', 'RESULTS.json')
    if only and os.path.exists(rpath):
        old = [r for r in json.load(open(rpath)) if r['seed'] not in only]
        res = sorted(old + res, key=lambda r: (r['seed'], r['check'] != r['seed'][:3], r['check']))
    with open(rpath, 'w') as f:
        json.dump(res, f, indent=1)
    missed = [r for r in res if r['exit'] == 0 and r['check'] == r['seed'][:3]]
    print('missed by own check:', [r['seed'] for r in missed])


if __name__ == '__main__':
    main()
