"""GenRouting.v : for every registered method and every documented scalar parameter the statement of C15
lists, the validators / inline guards the parameter syntactically reaches, in source order, through
_setup_* -> PenalizedSystem / PSpline / SplineBasis / _PolyHelper (and the 2-D counterparts), with a `Use`
marker for every use of the parameter that is neither a guard, a pure comparison nor a tracked call.
Fail-closed: anything unrecognised becomes `Use` (so a guard found later no longer counts)."""
import ast
import os

from trlib import TranslateError, _parse

PARAMS = ('lam', 'p', 'quantile', 'eta', 'diff_order', 'poly_order', 'num_knots', 'spline_degree',
          'half_window', 'max_half_window', 'min_half_window')
MODS_1D = ('whittaker', 'spline', 'morphological', 'smooth', 'polynomial', 'classification', 'misc',
           'optimizers')
MODS_2D = ('whittaker', 'spline', 'morphological', 'smooth', 'polynomial', 'optimizers')
SUPPORT_1D = ('_algorithm_setup', '_banded_utils', '_spline_utils')
SUPPORT_2D = ('two_d/_algorithm_setup', 'two_d/_whittaker_utils', 'two_d/_spline_utils')
VALIDATORS = ('_check_lam', '_check_half_window', '_check_scalar_variable')
BENIGN_CALLS = ('array_equal', 'isinstance')
MAX_DEPTH = 8


class Index:
    """functions and classes of the support modules of one dimension (2-D falls back to 1-D)."""

    def __init__(self, repo, two_d):
        self.funcs = {}      # name -> FunctionDef (module level)
        self.classes = {}    # class name -> (ClassDef, {method name -> FunctionDef})
        self.cls_mod = {}
        self.two_d = two_d
        mods = SUPPORT_1D + (SUPPORT_2D if two_d else ())
        for m in mods:       # later (2-D) definitions override
            tree, _ = _parse(f'pybaselines/{m}.py', repo)
            for node in tree.body:
                if isinstance(node, ast.FunctionDef):
                    self.funcs[node.name] = node
                elif isinstance(node, ast.ClassDef):
                    self.classes[node.name] = (node, {n.name: n for n in node.body
                                                      if isinstance(n, ast.FunctionDef)})
                    self.cls_mod[node.name] = m

    def method(self, cls, name):
        """FunctionDef of `name` in class `cls` or its (known) bases."""
        seen = set()
        while cls in self.classes and cls not in seen:
            seen.add(cls)
            node, meths = self.classes[cls]
            if name in meths:
                return meths[name], cls
            bases = [b.id for b in node.bases if isinstance(b, ast.Name)]
            cls = bases[0] if bases else None
        return None, None

    def base_of(self, cls):
        node = self.classes[cls][0]
        bases = [b.id for b in node.bases if isinstance(b, ast.Name)]
        return bases[0] if bases else None

    def unique_method(self, name):
        hits = [(c, m[name]) for c, (_, m) in self.classes.items() if name in m]
        if len(hits) == 1:
            return hits[0][1], hits[0][0]
        return None, None


def _mentions(node, par):
    return any(isinstance(n, ast.Name) and n.id == par for n in ast.walk(node))


def _is_name(node, par):
    return isinstance(node, ast.Name) and node.id == par


def _const(node):
    if isinstance(node, ast.Constant) and isinstance(node.value, (int, float)) \
            and not isinstance(node.value, bool):
        return node.value
    if isinstance(node, ast.UnaryOp) and isinstance(node.op, ast.USub):
        v = _const(node.operand)
        return None if v is None else -v
    return None


def _zlit(v):
    if v != int(v):
        raise TranslateError(f'non-integer guard constant {v}')
    v = int(v)
    return f'({v})' if v < 0 else str(v)


def _raises_value_or_type_error(body):
    if len(body) != 1 or not isinstance(body[0], ast.Raise) or body[0].exc is None:
        return False
    exc = body[0].exc
    fn = exc.func if isinstance(exc, ast.Call) else exc
    return isinstance(fn, ast.Name) and fn.id in ('ValueError', 'TypeError')


def _strip_none_test(test, par):
    """`par is not None and <rest>` -> <rest>."""
    if isinstance(test, ast.BoolOp) and isinstance(test.op, ast.And) and len(test.values) == 2:
        a, b = test.values
        if (isinstance(a, ast.Compare) and _is_name(a.left, par) and len(a.ops) == 1
                and isinstance(a.ops[0], ast.IsNot) and isinstance(a.comparators[0], ast.Constant)
                and a.comparators[0].value is None):
            return b
    return test


def guard_of_test(test, par):
    """Coq guard for `if <test>: raise ValueError(...)`, or 'GOpaque' when the shape is not known."""
    test = _strip_none_test(test, par)
    # not lo <[=] par <[=] hi
    if isinstance(test, ast.UnaryOp) and isinstance(test.op, ast.Not) and isinstance(test.operand, ast.Compare):
        c = test.operand
        if (len(c.ops) == 2 and _is_name(c.comparators[0], par) and _const(c.left) == 0
                and _const(c.comparators[1]) == 1
                and all(isinstance(o, (ast.Lt, ast.LtE)) for o in c.ops)):
            lo = 'true' if isinstance(c.ops[0], ast.Lt) else 'false'
            hi = 'true' if isinstance(c.ops[1], ast.Lt) else 'false'
            return f'(GRange01 {lo} {hi})'
    # par < c
    if isinstance(test, ast.Compare) and len(test.ops) == 1 and _is_name(test.left, par) \
            and _const(test.comparators[0]) is not None:
        c = _const(test.comparators[0])
        if isinstance(test.ops[0], ast.Lt):
            return f'(GLt {_zlit(c)})'
        if isinstance(test.ops[0], ast.LtE):
            return f'(GLe {_zlit(c)})'
    # np.less(par, c).any()
    if (isinstance(test, ast.Call) and isinstance(test.func, ast.Attribute) and test.func.attr == 'any'
            and isinstance(test.func.value, ast.Call) and isinstance(test.func.value.func, ast.Attribute)
            and test.func.value.func.attr == 'less' and len(test.func.value.args) == 2
            and _is_name(test.func.value.args[0], par) and _const(test.func.value.args[1]) is not None):
        return f'(GNpLessAny {_zlit(_const(test.func.value.args[1]))})'
    # par not in {..}
    if isinstance(test, ast.Compare) and len(test.ops) == 1 and isinstance(test.ops[0], ast.NotIn) \
            and _is_name(test.left, par) and isinstance(test.comparators[0], (ast.Set, ast.Tuple, ast.List)):
        vals = [_const(e) for e in test.comparators[0].elts]
        if all(v is not None for v in vals):
            return '(GNotIn [' + '; '.join(_zlit(v) for v in vals) + '])'
    return 'GOpaque'


def _kw_bool(call, name, default, pos=None):
    for kw in call.keywords:
        if kw.arg == name:
            if isinstance(kw.value, ast.Constant) and isinstance(kw.value.value, bool):
                return kw.value.value
            raise TranslateError(f'non-constant {name}= in validator call (line {call.lineno})')
    if pos is not None and len(call.args) > pos:
        a = call.args[pos]
        if isinstance(a, ast.Constant) and isinstance(a.value, bool):
            return a.value
        if isinstance(a, ast.Name):
            return ('name', a.id)
        raise TranslateError(f'non-constant positional {name} in validator call (line {call.lineno})')
    return default


def _b(v):
    return 'true' if v else 'false'


def validator_guard(call, fname, env):
    """Coq guard for a call of one of the _check_* validators (first argument is the parameter)."""
    def resolve(v):
        if isinstance(v, tuple):
            if v[1] in env:
                return env[v[1]]
            raise TranslateError(f'validator flag given by a variable ({v[1]}) at line {call.lineno}')
        return v
    if fname == '_check_lam':
        az = resolve(_kw_bool(call, 'allow_zero', False, 1))
        td = resolve(_kw_bool(call, 'two_d', False, 2))
        return f'(GCSV {_b(az)} {_b(td)} DtFloat)'
    if fname == '_check_half_window':
        az = resolve(_kw_bool(call, 'allow_zero', False, 1))
        td = resolve(_kw_bool(call, 'two_d', False, 2))
        return f'(GHalfWindow {_b(az)} {_b(td)})'
    az = resolve(_kw_bool(call, 'allow_zero', False, 1))
    td = resolve(_kw_bool(call, 'two_d', False, 3))
    dt = 'DtNone'
    for kw in call.keywords:
        if kw.arg == 'dtype':
            src = ast.unparse(kw.value)
            if src in ('int', 'np.intp', 'np.int64'):
                dt = 'DtInt'
            elif src in ('float', 'np.float64'):
                dt = 'DtFloat'
            else:
                raise TranslateError(f'unknown dtype {src} in validator call (line {call.lineno})')
    return f'(GCSV {_b(az)} {_b(td)} {dt})'


class Walker:
    def __init__(self, index, method_index):
        self.ix = index
        self.methods = method_index    # registered methods of the current module class: name -> FunctionDef

    # ---- statements in source order
    def walk(self, fn, par, cls, depth, env=None):
        """items (strings) for parameter `par` of FunctionDef `fn` (a method of class `cls` or a function)."""
        if depth > MAX_DEPTH:
            return ['Use']
        env = env or {}
        items = []
        for st in fn.body:
            self.stmt(st, par, cls, depth, items, env)
        return items

    def stmt(self, st, par, cls, depth, items, env):
        if isinstance(st, ast.Expr) and isinstance(st.value, ast.Constant):
            return
        if isinstance(st, ast.If):
            t = st.test
            if _mentions(t, par) and _raises_value_or_type_error(st.body):
                g = guard_of_test(t, par)
                if env.get('__elem__'):
                    # the callee received one element of the validated pair (self.num_knots[0], ...)
                    g = '(GEachLt' + g[len('(GLt'):] if g.startswith('(GLt ') else 'GOpaque'
                items.append('G ' + g)
            else:
                self.expr(t, par, cls, depth, items, env)
                # a branch of the method body that depends on ANOTHER user parameter (`if weights is None:`):
                # guards found inside are conditional and must not count as covering
                others = env.get('__params__', ()) if depth == 0 else ()
                cond = (not _mentions(t, par)) and any(_mentions(t, o) for o in others if o != par) \
                    and not _raises_value_or_type_error(st.body)   # a guard of the other parameter skips nothing
                sub_b, sub_e = [], []
                for s in st.body:
                    self.stmt(s, par, cls, depth, sub_b, env)
                for s in st.orelse:
                    self.stmt(s, par, cls, depth, sub_e, env)
                if cond:
                    def prefix(l):
                        out = []
                        for x in l:
                            if not x.startswith('G '):
                                break
                            out.append(x)
                        return out
                    pb, pe = prefix(sub_b), prefix(sub_e)
                    if pb and pb == pe:
                        # both branches reach the same guards first: unconditional
                        items.extend(pb)
                        items.extend(sub_b[len(pb):] + sub_e[len(pe):])
                    else:
                        items.extend('G GOpaque' if x.startswith('G ') else x for x in sub_b + sub_e)
                else:
                    items.extend(sub_b + sub_e)
                return
            for s in st.orelse:
                self.stmt(s, par, cls, depth, items, env)
            return
        if isinstance(st, (ast.For, ast.While)):
            self.expr(st.iter if isinstance(st, ast.For) else st.test, par, cls, depth, items, env)
            for s in st.body + st.orelse:
                self.stmt(s, par, cls, depth, items, env)
            return
        if isinstance(st, ast.With):
            for it in st.items:
                self.expr(it.context_expr, par, cls, depth, items, env)
            for s in st.body:
                self.stmt(s, par, cls, depth, items, env)
            return
        if isinstance(st, ast.Try):
            for s in st.body + [x for h in st.handlers for x in h.body] + st.orelse + st.finalbody:
                self.stmt(s, par, cls, depth, items, env)
            return
        if isinstance(st, (ast.FunctionDef, ast.ClassDef)):
            if _mentions(st, par):
                items.append('Use')
            return
        val = st.value if isinstance(st, ast.Assign) else None
        # a copy of the validator's result (np.array(<validator call>)) is still the validated value
        if isinstance(val, ast.Call) and ast.unparse(val.func) in ('np.array', 'np.asarray') \
                and len(val.args) == 1 and not val.keywords:
            val = val.args[0]
        if isinstance(st, ast.Assign) and isinstance(val, ast.Call) and isinstance(val.func, ast.Name) \
                and val.func.id in VALIDATORS and val.args and _is_name(val.args[0], par):
            for tg in st.targets:
                if isinstance(tg, (ast.Name, ast.Attribute)):
                    env.setdefault('__alias__', set()).add(ast.unparse(tg))
        # simple statements: walk the expressions they contain
        for child in ast.iter_child_nodes(st):
            if isinstance(child, ast.expr):
                if isinstance(st, (ast.Assign, ast.AugAssign, ast.AnnAssign)) and child in getattr(st, 'targets', [getattr(st, 'target', None)]):
                    if isinstance(st, ast.AugAssign) and _mentions(child, par):
                        items.append('Use')
                    continue
                self.expr(child, par, cls, depth, items, env)

    # ---- expressions
    def expr(self, node, par, cls, depth, items, env):
        if node is None:
            return
        if not _mentions(node, par):
            # an element of the validated pair (alias[i]) handed to a tracked callee is still followed
            aliases = env.get('__alias__', ())
            if aliases:
                for sub in ast.walk(node):
                    if isinstance(sub, ast.Call) and any(
                            isinstance(a, ast.Subscript) and ast.unparse(a.value) in aliases for a in sub.args):
                        self.call(sub, par, cls, depth, items, env)
            return
        if isinstance(node, ast.Name):
            items.append('Use')     # a bare use that is not an argument of a tracked call
            return
        if isinstance(node, ast.Compare):
            return                  # pure comparison (==, <, is None, ...): not a numerical use
        if isinstance(node, ast.Call):
            self.call(node, par, cls, depth, items, env)
            return
        if isinstance(node, (ast.BoolOp, ast.IfExp, ast.UnaryOp)) and not isinstance(getattr(node, 'op', None), (ast.USub, ast.UAdd, ast.Invert)):
            for child in ast.iter_child_nodes(node):
                if isinstance(child, ast.expr):
                    self.expr(child, par, cls, depth, items, env)
            return
        if isinstance(node, ast.Dict) or isinstance(node, (ast.Tuple, ast.List)):
            # stored into a container (e.g. the params dict): only a Use when it is the bare name
            for child in ast.iter_child_nodes(node):
                if isinstance(child, ast.expr):
                    self.expr(child, par, cls, depth, items, env)
            return
        # arithmetic, subscripts, attribute access, ...: every bare occurrence inside is a use, but a
        # validator / tracked call nested in the expression is still followed
        for child in ast.iter_child_nodes(node):
            if isinstance(child, ast.expr):
                self.expr(child, par, cls, depth, items, env)

    def call(self, node, par, cls, depth, items, env):
        f = node.func
        # arguments that are exactly the parameter
        pos = [i for i, a in enumerate(node.args) if _is_name(a, par)]
        kws = [kw.arg for kw in node.keywords if kw.arg is not None and _is_name(kw.value, par)]
        others = [a for a in node.args if not _is_name(a, par)] + \
                 [kw.value for kw in node.keywords if not _is_name(kw.value, par)]
        # the parameter inside a more complicated argument expression is a use (walk them first,
        # Python evaluates arguments before the call)
        for a in others:
            self.expr(a, par, cls, depth, items, env)
        if isinstance(f, ast.Attribute):
            self.expr(f.value, par, cls, depth, items, env)
        aliases = env.get('__alias__', ())
        elem_pos = [i for i, a in enumerate(node.args)
                    if isinstance(a, ast.Subscript) and ast.unparse(a.value) in aliases
                    and isinstance(a.slice, ast.Constant) and ast.unparse(a.value) != par]
        if not pos and not kws and not elem_pos:
            return
        target, tcls, is_method = None, None, False
        fname = f.id if isinstance(f, ast.Name) else (f.attr if isinstance(f, ast.Attribute) else None)
        if fname in BENIGN_CALLS:
            return                  # pure comparisons / type tests: not a numerical use
        if isinstance(f, ast.Name):
            if fname in VALIDATORS:
                if pos == [0] and not kws:
                    items.append('G ' + validator_guard(node, fname, env))
                else:
                    items.append('Use')
                return
            if fname in self.ix.classes:
                target, tcls = self.ix.method(fname, '__init__')
                is_method = True
            elif fname in self.ix.funcs:
                target, tcls, is_method = self.ix.funcs[fname], None, False
        elif isinstance(f, ast.Attribute):
            recv = f.value
            if isinstance(recv, ast.Name) and recv.id == 'self':
                if cls is not None:
                    target, tcls = self.ix.method(cls, fname)
                if target is None and fname in self.methods:
                    target, tcls = self.methods[fname], cls     # another registered method of the class
                is_method = True
            elif (isinstance(recv, ast.Call) and isinstance(recv.func, ast.Name) and recv.func.id == 'super'
                  and cls is not None and self.ix.base_of(cls)):
                target, tcls = self.ix.method(self.ix.base_of(cls), fname)
                is_method = True
            elif fname not in ('__init__',):
                target, tcls = self.ix.unique_method(fname)
                if target is None:
                    # several classes define it: keep the one whose parameter at the same position
                    # carries the same name as the argument (e.g. same_basis(num_knots, spline_degree))
                    hits = []
                    for c, (_, m) in self.ix.classes.items():
                        if fname in m:
                            a = [x.arg for x in m[fname].args.args][1:]
                            if all(i < len(a) and a[i] == par for i in pos) and all(k == par for k in kws):
                                hits.append((m[fname], c))
                    if len(hits) > 1 and self.ix.two_d:
                        hits = [h for h in hits if self.ix.cls_mod[h[1]].startswith('two_d/')]
                    if len(hits) == 1:
                        target, tcls = hits[0]
                is_method = True
        if target is None:
            items.append('Use')     # unknown callee receives the raw parameter
            return
        args = [a.arg for a in target.args.args]
        if is_method:
            args = args[1:]
        kwonly = [a.arg for a in target.args.kwonlyargs]
        # boolean flags passed as constants are propagated (two_d=..., allow_zero=...)
        env2 = {}
        for i, a in enumerate(node.args):
            if i < len(args) and isinstance(a, ast.Constant) and isinstance(a.value, bool):
                env2[args[i]] = a.value
        for kw in node.keywords:
            if kw.arg and isinstance(kw.value, ast.Constant) and isinstance(kw.value.value, bool):
                env2[kw.arg] = kw.value.value
        for d_arg, d_val in zip(reversed(target.args.args), reversed(target.args.defaults)):
            if d_arg.arg not in env2 and isinstance(d_val, ast.Constant) and isinstance(d_val.value, bool):
                bound = {args[i] for i in range(min(len(node.args), len(args)))} | {kw.arg for kw in node.keywords}
                if d_arg.arg not in bound:
                    env2[d_arg.arg] = d_val.value
        if env.get('__elem__'):
            env2['__elem__'] = True
        for i in pos:
            if i >= len(args):
                items.append('Use')
                continue
            items.extend(self.walk(target, args[i], tcls, depth + 1, dict(env2)))
        for i in elem_pos:
            if i < len(args):
                e3 = dict(env2)
                e3['__elem__'] = True
                sub = self.walk(target, args[i], tcls, depth + 1, e3)
                items.extend(x for x in sub if x.startswith('G '))   # uses of the validated element do not count
        for k in kws:
            if k not in args and k not in kwonly:
                items.append('Use')     # swallowed by **kwargs
                continue
            items.extend(self.walk(target, k, tcls, depth + 1, dict(env2)))


def registered_methods(tree):
    """[(class name, FunctionDef)] of methods decorated with ..._register."""
    out = []
    for node in tree.body:
        if not isinstance(node, ast.ClassDef):
            continue
        for fn in node.body:
            if not isinstance(fn, ast.FunctionDef):
                continue
            for dec in fn.decorator_list:
                if any(isinstance(n, ast.Attribute) and n.attr == '_register' for n in ast.walk(dec)):
                    out.append((node, fn))
                    break
    return out


def gen_routing(repo=None):
    out = ['(* GENERATED by tools/translate.py (tools/gen_routing.py) from pybaselines/*.py and',
           '   pybaselines/two_d/*.py -- do not edit *)',
           'From Coq Require Import ZArith List Bool String.',
           'From PB Require Import C15.Model.',
           'Import ListNotations.', 'Open Scope Z_scope.', 'Open Scope string_scope.', '']
    entries = []
    count = {False: 0, True: 0}
    for two_d in (False, True):
        ix = Index(repo, two_d)
        base_cls = '_Algorithm2D' if two_d else '_Algorithm'
        if base_cls not in ix.classes:
            raise TranslateError(f'class {base_cls} not found')
        for mod in (MODS_2D if two_d else MODS_1D):
            rel = f'pybaselines/{"two_d/" if two_d else ""}{mod}.py'
            tree, _ = _parse(rel, repo)
            regs = registered_methods(tree)
            if not regs:
                raise TranslateError(f'no registered method found in {rel}')
            for cnode, fn in regs:
                count[two_d] += 1
                bases = [b.id for b in cnode.bases if isinstance(b, ast.Name)]
                # the module class derives from _Algorithm(2D): resolve self._setup_* there
                cls = base_cls if base_cls in bases else (bases[0] if bases and bases[0] in ix.classes else base_cls)
                meths = {n.name: n for n in cnode.body if isinstance(n, ast.FunctionDef)}
                walker = Walker(ix, meths)
                params = [a.arg for a in fn.args.args[2:]] + [a.arg for a in fn.args.kwonlyargs]
                for par in params:
                    if par not in PARAMS:
                        continue
                    items = walker.walk(fn, par, cls, 0, {'__params__': tuple(params)})
                    body = '; '.join(items)
                    entries.append(f'  {{| e_two_d := {_b(two_d)}; e_module := "{mod}"; e_method := "{fn.name}"; '
                                   f'e_param := "{par}";\n     e_chain := [{body}] |}}')
    if count[False] < 40 or count[True] < 20:
        raise TranslateError(f'suspiciously few registered methods: {count}')
    out.append('Definition routing : list entry := [')
    out.append(';\n'.join(entries))
    out.append('].')
    out.append('')
    out.append('Definition array_routing : list aentry := [')
    out.append(';\n'.join(array_entries(repo) + forwarded_entries(repo)))
    out.append('].')
    out.append('')
    out.append('Definition hw_sites : list (bool * string * string * string * bool * bool) := [')
    out.append(';\n'.join(hw_site_entries(repo)))
    out.append('].')
    out.append('')
    out.append('Definition cfg_writes : list (bool * string * string * string * string) := [')
    out.append(';\n'.join(cfg_write_entries(repo)))
    out.append('].')
    out.append('')
    out.append('Definition finite_routing : list centry := [')
    out.append(';\n'.join(finite_entries(repo)))
    out.append('].')
    out.append('')
    out.append(f'Definition n_methods_1d : Z := {count[False]}.')
    out.append(f'Definition n_methods_2d : Z := {count[True]}.')
    return '\n'.join(out) + '\n'


# ------------------------------------------------------------------------------------------------
# per-point arrays: in every function that hands one of its parameters to _check_optional_array /
# _check_sized_array, the events of that parameter in source order: AValidate for the validation
# call, AUse for ANY other occurrence (subscripting, fancy indexing, np.asarray(...), a call
# argument, ...) except the pure `is None` / `is not None` tests.  Fail-closed.
ARRAY_VALIDATORS = {'_check_optional_array': 1, '_check_sized_array': 0}   # position of the array argument
ARRAY_VALIDATOR_KW = 'array'


def _array_events(fn, par):
    events = []

    def visit(node):
        if isinstance(node, ast.Compare) and _is_name(node.left, par) and len(node.ops) == 1 \
                and isinstance(node.ops[0], (ast.Is, ast.IsNot)) \
                and isinstance(node.comparators[0], ast.Constant) and node.comparators[0].value is None:
            return
        if isinstance(node, ast.Call) and isinstance(node.func, ast.Name) and node.func.id in ARRAY_VALIDATORS:
            pos = ARRAY_VALIDATORS[node.func.id]
            is_arr = (len(node.args) > pos and _is_name(node.args[pos], par)) or any(
                kw.arg == ARRAY_VALIDATOR_KW and _is_name(kw.value, par) for kw in node.keywords)
            if is_arr:
                # the other arguments are evaluated first
                for i, a in enumerate(node.args):
                    if i != pos or not _is_name(a, par):
                        visit(a)
                for kw in node.keywords:
                    if not (kw.arg == ARRAY_VALIDATOR_KW and _is_name(kw.value, par)):
                        visit(kw.value)
                events.append('AValidate')
                return
        if isinstance(node, ast.Name):
            if node.id == par and isinstance(node.ctx, ast.Load):
                events.append('AUse')
            return
        if isinstance(node, (ast.FunctionDef, ast.Lambda, ast.ClassDef)):
            if _mentions(node, par):
                events.append('AUse')
            return
        # statements: value before targets, test before body (source / evaluation order)
        if isinstance(node, ast.Assign):
            visit(node.value)
            for tg in node.targets:
                if not isinstance(tg, ast.Name):
                    visit(tg)
            return
        for child in ast.iter_child_nodes(node):
            visit(child)

    for st in fn.body:
        visit(st)
    return events


def _validated_params(fn):
    params = {a.arg for a in fn.args.args} | {a.arg for a in fn.args.kwonlyargs}
    out = []
    for node in ast.walk(fn):
        if isinstance(node, ast.Call) and isinstance(node.func, ast.Name) and node.func.id in ARRAY_VALIDATORS:
            pos = ARRAY_VALIDATORS[node.func.id]
            cands = []
            if len(node.args) > pos:
                cands.append(node.args[pos])
            cands += [kw.value for kw in node.keywords if kw.arg == ARRAY_VALIDATOR_KW]
            for c in cands:
                if isinstance(c, ast.Name) and c.id in params and c.id not in out and c.id not in ('self', 'data'):
                    out.append(c.id)
    return out


def array_entries(repo):
    entries = []
    for two_d in (False, True):
        rels = [(f'pybaselines/{"two_d/" if two_d else ""}_algorithm_setup.py', '_algorithm_setup')]
        rels += [(f'pybaselines/{"two_d/" if two_d else ""}{m}.py', m) for m in (MODS_2D if two_d else MODS_1D)]
        for rel, mod in rels:
            tree, _ = _parse(rel, repo)
            for cnode in tree.body:
                if not isinstance(cnode, ast.ClassDef):
                    continue
                for fn in cnode.body:
                    if not isinstance(fn, ast.FunctionDef):
                        continue
                    for par in _validated_params(fn):
                        ev = _array_events(fn, par)
                        entries.append(f'  {{| a_two_d := {_b(two_d)}; a_module := "{mod}"; a_fn := "{fn.name}"; '
                                       f'a_arg := "{par}"; a_events := [{"; ".join(ev)}] |}}')
    return entries


FORWARD_EXPR = 'method_kws[key]'


def forwarded_entries(repo):
    """optimize_extended_range: every load of the per-point keyword arrays `method_kws[key]` (key in
    ('weights', 'alpha')) must be the array argument of np.pad(...) whose result is stored back under the
    same key (a length-changing-by-a-constant, non-broadcasting extension; the inner method then validates
    the length).  Any other load (e.g. the right-hand side of a broadcasting slice assignment) is AUse."""
    tree, _ = _parse('pybaselines/optimizers.py', repo)
    out = []
    for cnode in tree.body:
        if not isinstance(cnode, ast.ClassDef):
            continue
        for fn in cnode.body:
            if not (isinstance(fn, ast.FunctionDef) and fn.name == 'optimize_extended_range'):
                continue
            events = []
            pads = set()
            validated = set()
            for node in ast.walk(fn):
                if (isinstance(node, ast.Assign) and len(node.targets) == 1
                        and ast.unparse(node.targets[0]) == FORWARD_EXPR and isinstance(node.value, ast.Call)
                        and ast.unparse(node.value.func) == 'np.pad' and node.value.args):
                    first = node.value.args[0]
                    src = None            # the load of method_kws[key] feeding the pad, and how
                    if ast.unparse(first) == FORWARD_EXPR:
                        src, how = first, 'pad'
                    elif (isinstance(first, ast.Call) and isinstance(first.func, ast.Name)
                          and first.func.id in ARRAY_VALIDATORS):
                        pos = ARRAY_VALIDATORS[first.func.id]
                        if len(first.args) > pos and ast.unparse(first.args[pos]) == FORWARD_EXPR:
                            # length-validated first (at least as strict), then padded
                            src, how = first.args[pos], 'validate'
                            if sum(FORWARD_EXPR in ast.unparse(a) for a in first.args) \
                                    + sum(FORWARD_EXPR in ast.unparse(k.value) for k in first.keywords) != 1:
                                src = None
                    if src is None:
                        continue
                    ok = True
                    # constant fill, no other mention of the array in the remaining arguments
                    rest = node.value.args[1:] + [kw.value for kw in node.value.keywords]
                    if any(FORWARD_EXPR in ast.unparse(r) for r in rest):
                        ok = False
                    if len(node.value.args) < 3 or not (isinstance(node.value.args[2], ast.Constant)
                                                        and node.value.args[2].value == 'constant'):
                        ok = False
                    if ok:
                        (pads if how == 'pad' else validated).add(id(src))
            for node in ast.walk(fn):
                if isinstance(node, ast.Subscript) and isinstance(node.ctx, ast.Load) \
                        and ast.unparse(node) == FORWARD_EXPR:
                    events.append((node.lineno, node.col_offset, 'APad' if id(node) in pads else
                                   ('AValidate' if id(node) in validated else 'AUse')))
            # keys of the loop
            keys_ok = any(isinstance(n, ast.For) and ast.unparse(n.target) == 'key'
                          and ast.unparse(n.iter) == "('weights', 'alpha')" for n in ast.walk(fn))
            ev = [e for _, _, e in sorted(events)]
            if not keys_ok:
                ev = ['AUse'] + ev
            out.append(f'  {{| a_two_d := false; a_module := "optimizers"; a_fn := "optimize_extended_range"; '
                       f'a_arg := "{FORWARD_EXPR}"; a_events := [{"; ".join(ev)}] |}}')
    return out


# ------------------------------------------------------------------------------------------------
# check_finite forwarding: every validation call in the wrappers (_register.inner), the _setup_* methods
# and the registered methods must carry check_finite=self._check_finite (in __init__: =check_finite).
FINITE_CALLEES = ('_check_array', '_check_sized_array', '_check_optional_array', '_yx_arrays', '_yxz_arrays')


def finite_entries(repo):
    entries = []
    for two_d in (False, True):
        rels = [(f'pybaselines/{"two_d/" if two_d else ""}_algorithm_setup.py', '_algorithm_setup')]
        rels += [(f'pybaselines/{"two_d/" if two_d else ""}{m}.py', m) for m in (MODS_2D if two_d else MODS_1D)]
        for rel, mod in rels:
            tree, _ = _parse(rel, repo)
            for cnode in tree.body:
                if not isinstance(cnode, ast.ClassDef):
                    continue
                for fn in cnode.body:
                    if not isinstance(fn, ast.FunctionDef):
                        continue
                    if mod == '_algorithm_setup' and not (fn.name in ('_register', '__init__')
                                                          or fn.name.startswith('_setup_')):
                        continue
                    want = 'check_finite' if fn.name == '__init__' else 'self._check_finite'
                    for node in ast.walk(fn):      # includes the nested `inner` of _register
                        if isinstance(node, ast.Call) and isinstance(node.func, ast.Name) \
                                and node.func.id in FINITE_CALLEES:
                            fwd = any(kw.arg == 'check_finite' and ast.unparse(kw.value) == want
                                      for kw in node.keywords)
                            # a pre-validation of a keyword array that is handed on in method_kws to the inner
                            # registered method, which validates it again with the fitter's check_finite
                            apos = ARRAY_VALIDATORS.get(node.func.id, 0)
                            pre = len(node.args) > apos and ast.unparse(node.args[apos]) == FORWARD_EXPR
                            entries.append(f'  {{| c_two_d := {_b(two_d)}; c_module := "{mod}"; c_fn := "{fn.name}"; '
                                           f'c_callee := "{node.func.id}"; c_forwarded := {_b(fwd)}; '
                                           f'c_prevalidation := {_b(pre)} |}}')
    return entries


# ------------------------------------------------------------------------------------------------
# every call site of _check_half_window (wrapper setups and method bodies) with the flags it passes
def hw_site_entries(repo):
    entries = []
    for two_d in (False, True):
        rels = [(f'pybaselines/{"two_d/" if two_d else ""}_algorithm_setup.py', '_algorithm_setup')]
        rels += [(f'pybaselines/{"two_d/" if two_d else ""}{m}.py', m) for m in (MODS_2D if two_d else MODS_1D)]
        for rel, mod in rels:
            tree, _ = _parse(rel, repo)
            for cnode in tree.body:
                if not isinstance(cnode, ast.ClassDef):
                    continue
                for fn in cnode.body:
                    if not isinstance(fn, ast.FunctionDef):
                        continue
                    sites = [n for n in ast.walk(fn) if isinstance(n, ast.Call) and isinstance(n.func, ast.Name)
                             and n.func.id == '_check_half_window']
                    for node in sorted(sites, key=lambda n: (n.lineno, n.col_offset)):
                        if not node.args:
                            raise TranslateError(f'_check_half_window without positional argument (line {node.lineno})')
                        az = _kw_bool(node, 'allow_zero', False, 1)
                        td = _kw_bool(node, 'two_d', False, 2)
                        if isinstance(az, tuple) or isinstance(td, tuple):
                            raise TranslateError(f'_check_half_window flag given by a variable (line {node.lineno})')
                        arg = ast.unparse(node.args[0]).replace('"', "'")
                        entries.append(f'  ({_b(two_d)}, "{mod}", "{fn.name}", "{arg}", {_b(az)}, {_b(td)})')
    return entries


# ------------------------------------------------------------------------------------------------
# writes of fitter CONFIGURATION attributes (on any receiver): only constructors / documented setters /
# the helpers that configure a freshly built object may contain them
CFG_ATTRS = ('_check_finite', '_dtype', '_sort_order', '_inverted_order', 'banded_solver', '_banded_solver',
             'pentapy_solver', '_pentapy_solver')


def cfg_write_entries(repo):
    entries = []
    for two_d in (False, True):
        rels = [(f'pybaselines/{"two_d/" if two_d else ""}_algorithm_setup.py', '_algorithm_setup')]
        rels += [(f'pybaselines/{"two_d/" if two_d else ""}{m}.py', m) for m in (MODS_2D if two_d else MODS_1D)]
        for rel, mod in rels:
            tree, _ = _parse(rel, repo)

            def record(fn_name, node_attr, recv, line):
                entries.append(f'  ({_b(two_d)}, "{mod}", "{fn_name}", "{node_attr}", "{recv}")')

            def scan(fn_name, root):
                for node in ast.walk(root):
                    if isinstance(node, ast.Attribute) and isinstance(node.ctx, (ast.Store, ast.Del)) \
                            and node.attr in CFG_ATTRS:
                        record(fn_name, node.attr, ast.unparse(node.value).replace('"', "'"), node.lineno)
                    if isinstance(node, ast.Call) and isinstance(node.func, ast.Name) \
                            and node.func.id in ('setattr', 'delattr') and len(node.args) >= 2:
                        a = node.args[1]
                        if not isinstance(a, ast.Constant):
                            record(fn_name, '<dynamic>', ast.unparse(node.args[0]).replace('"', "'"), node.lineno)
                        elif a.value in CFG_ATTRS:
                            record(fn_name, a.value, ast.unparse(node.args[0]).replace('"', "'"), node.lineno)
                    if isinstance(node, ast.Attribute) and node.attr == '__dict__':
                        record(fn_name, '<__dict__>', ast.unparse(node.value).replace('"', "'"), node.lineno)

            for top in tree.body:
                if isinstance(top, ast.ClassDef):
                    for fn in top.body:
                        if isinstance(fn, ast.FunctionDef):
                            scan(fn.name, fn)
                elif isinstance(top, ast.FunctionDef):
                    scan(top.name, top)
    return entries


GENERATORS = {'GenRouting': gen_routing}
