"""GenBands.v : _diff_1_diags, _diff_2_diags, _diff_3_diags and the dispatch of diff_penalty_diagonals."""
import ast

from trlib import (TranslateError, _parse, _func, _body_wo_doc, const_eval, zlit, optz,
                   bool_expr, arith_expr)



def _colspec(node, env):
    if isinstance(node, ast.Slice):
        if node.step is not None:
            raise TranslateError('slice with step')
        lo = None if node.lower is None else const_eval(node.lower, env)
        hi = None if node.upper is None else const_eval(node.upper, env)
        return f'(Slc {optz(lo)} {optz(hi)})'
    return f'(Idx {zlit(const_eval(node, env))})'


def _target(node, env, arr_name):
    if not (isinstance(node, ast.Subscript) and isinstance(node.value, ast.Name)
            and node.value.id == arr_name):
        raise TranslateError(f'unsupported assignment target: {ast.dump(node)}')
    sl = node.slice
    if not (isinstance(sl, ast.Tuple) and len(sl.elts) == 2):
        raise TranslateError('target is not a 2-d subscript')
    row = const_eval(sl.elts[0], env)
    return row, _colspec(sl.elts[1], env)


def _band_stmts(stmts, env, cond, arr_name, out):
    for st in stmts:
        if isinstance(st, ast.Assign):
            val = const_eval(st.value, env)
            for tgt in st.targets:
                row, col = _target(tgt, env, arr_name)
                out.append(f'{{| a_cond := {cond}; a_row := {zlit(row)}; a_col := {col}; '
                           f'a_val := {zlit(val)} |}}')
        elif isinstance(st, ast.For):
            if st.orelse or not isinstance(st.target, ast.Name):
                raise TranslateError('unsupported for loop')
            it = st.iter
            if not (isinstance(it, ast.Call) and isinstance(it.func, ast.Name)
                    and it.func.id == 'range' and not it.keywords):
                raise TranslateError('for loop not over range(...)')
            args = [const_eval(a, env) for a in it.args]
            for v in range(*args):
                env2 = dict(env)
                env2[st.target.id] = v
                _band_stmts(st.body, env2, cond, arr_name, out)
        elif isinstance(st, ast.If):
            t = st.test
            if (cond == 'Always' and not st.orelse and isinstance(t, ast.UnaryOp)
                    and isinstance(t.op, ast.Not) and isinstance(t.operand, ast.Name)
                    and t.operand.id == 'lower_only'):
                _band_stmts(st.body, env, 'IfFull', arr_name, out)
            else:
                raise TranslateError(f'unsupported if: {ast.dump(t)}')
        else:
            raise TranslateError(f'unsupported statement: {ast.dump(st)[:200]}')


def _band_table(tree, name, order):
    fn = _func(tree, name)
    args = [a.arg for a in fn.args.args]
    if args != ['data_size', 'lower_only']:
        raise TranslateError(f'{name}: unexpected signature {args}')
    body = _body_wo_doc(fn)
    # output = np.full((A if lower_only else B, data_size), V)  |  np.ones((...))
    first = body[0]
    if not (isinstance(first, ast.Assign) and len(first.targets) == 1
            and isinstance(first.targets[0], ast.Name)):
        raise TranslateError(f'{name}: first statement is not the allocation')
    arr_name = first.targets[0].id
    call = first.value
    if not (isinstance(call, ast.Call) and isinstance(call.func, ast.Attribute)
            and isinstance(call.func.value, ast.Name) and call.func.value.id == 'np'
            and not call.keywords):
        raise TranslateError(f'{name}: unsupported allocation')
    kind = call.func.attr
    if kind == 'full' and len(call.args) == 2:
        fill = const_eval(call.args[1], {})
    elif kind == 'ones' and len(call.args) == 1:
        fill = 1
    elif kind == 'zeros' and len(call.args) == 1:
        fill = 0
    else:
        raise TranslateError(f'{name}: unsupported allocation np.{kind}')
    shape = call.args[0]
    if not (isinstance(shape, ast.Tuple) and len(shape.elts) == 2
            and isinstance(shape.elts[1], ast.Name) and shape.elts[1].id == 'data_size'):
        raise TranslateError(f'{name}: unsupported shape')
    rows = shape.elts[0]
    if not (isinstance(rows, ast.IfExp) and isinstance(rows.test, ast.Name)
            and rows.test.id == 'lower_only'):
        raise TranslateError(f'{name}: unsupported row count')
    rows_lower = const_eval(rows.body, {})
    rows_full = const_eval(rows.orelse, {})
    last = body[-1]
    if not (isinstance(last, ast.Return) and isinstance(last.value, ast.Name)
            and last.value.id == arr_name):
        raise TranslateError(f'{name}: does not end with return {arr_name}')
    out = []
    _band_stmts(body[1:-1], {}, 'Always', arr_name, out)
    asgs = ';\n    '.join(out)
    return (f'Definition {name.strip("_")} : table := {{|\n  t_order := {order}%nat;\n'
            f'  t_rows_lower := {rows_lower};\n  t_rows_full := {rows_full};\n'
            f'  t_fill := {zlit(fill)};\n  t_asgs := [\n    {asgs}\n  ] |}}.\n')


def gen_bands(repo=None):
    tree, _ = _parse('pybaselines/_banded_utils.py', repo)
    out = ['(* GENERATED by tools/translate.py from pybaselines/_banded_utils.py -- do not edit *)',
           'From Coq Require Import ZArith List Bool.',
           'From PB Require Import lib.PySlice C11.Table.',
           'Import ListNotations.', 'Open Scope Z_scope.', '']
    # dispatch of diff_penalty_diagonals
    fn = _func(tree, 'diff_penalty_diagonals')
    args = [a.arg for a in fn.args.args]
    if args != ['data_size', 'diff_order', 'lower_only', 'padding']:
        raise TranslateError(f'diff_penalty_diagonals: unexpected signature {args}')
    body = _body_wo_doc(fn)
    names = {'data_size', 'diff_order'}
    # 1: argument guards  if diff_order < 0: raise ... elif data_size <= 0: raise ...
    guard = body[0]
    guards = []
    node = guard
    while isinstance(node, ast.If):
        if not (len(node.body) == 1 and isinstance(node.body[0], ast.Raise)):
            raise TranslateError('diff_penalty_diagonals: guard is not a raise')
        guards.append(bool_expr(node.test, names))
        if len(node.orelse) == 1 and isinstance(node.orelse[0], ast.If):
            node = node.orelse[0]
        elif not node.orelse:
            node = None
        else:
            raise TranslateError('diff_penalty_diagonals: unsupported guard chain')
    out.append('Definition disp_rejects (data_size diff_order : Z) : bool := '
               + ('(' + ' || '.join(guards) + ')' if guards else 'false') + '.')
    # 2: three-way dispatch
    disp = body[1]
    if not (isinstance(disp, ast.If) and len(disp.orelse) == 1
            and isinstance(disp.orelse[0], ast.If)):
        raise TranslateError('diff_penalty_diagonals: dispatch is not if/elif/else')
    first, second = disp, disp.orelse[0]

    def _assigned_call(stmts, fname):
        for st in stmts:
            for n in ast.walk(st):
                if isinstance(n, ast.Call) and isinstance(n.func, ast.Name) and n.func.id == fname:
                    return True
                if isinstance(n, ast.Call) and isinstance(n.func, ast.Attribute) \
                        and n.func.attr == fname:
                    return True
        return False
    if not _assigned_call(first.body, 'ones'):
        raise TranslateError('diff_penalty_diagonals: first branch is not np.ones')
    if not (_assigned_call(second.body, 'difference_matrix')
            and _assigned_call(second.body, '_sparse_to_banded')):
        raise TranslateError('diff_penalty_diagonals: second branch is not the general path')
    # the general path must slice [diff_order:] under lower_only
    ok_slice = False
    for st in second.body:
        if isinstance(st, ast.If) and isinstance(st.test, ast.Name) and st.test.id == 'lower_only':
            for a in st.body:
                if (isinstance(a, ast.Assign) and isinstance(a.value, ast.Subscript)
                        and isinstance(a.value.slice, ast.Slice)
                        and isinstance(a.value.slice.lower, ast.Name)
                        and a.value.slice.lower.id == 'diff_order'
                        and a.value.slice.upper is None):
                    ok_slice = True
    if not ok_slice:
        raise TranslateError('diff_penalty_diagonals: general path lower slice not recognised')
    out.append('Definition disp_identity (data_size diff_order : Z) : bool := '
               + bool_expr(first.test, names) + '.')
    out.append('Definition disp_general (data_size diff_order : Z) : bool := '
               + bool_expr(second.test, names) + '.')
    # else branch: {1: _diff_1_diags, ...}[diff_order](data_size, lower_only)
    mapping = None
    for st in second.orelse:
        for n in ast.walk(st):
            if isinstance(n, ast.Dict):
                mapping = [(const_eval(k, {}), v.id) for k, v in zip(n.keys, n.values)
                           if isinstance(v, ast.Name)]
                if len(mapping) != len(n.keys):
                    raise TranslateError('dispatch dict has non-name values')
    if not mapping:
        raise TranslateError('diff_penalty_diagonals: dispatch dict not found')
    # last statements: _pad_diagonals(diagonals, padding, lower_only=lower_only); return
    if not _assigned_call(body[2:], '_pad_diagonals'):
        raise TranslateError('diff_penalty_diagonals: padding call not found')
    out.append('')
    for order, fname in mapping:
        out.append(_band_table(tree, fname, order))
    entries = '; '.join(f'({zlit(o)}, {f.strip("_")})' for o, f in mapping)
    out.append(f'Definition disp_tables : list (Z * table) := [{entries}].')
    return '\n'.join(out) + '\n'



GENERATORS = {'GenBands': gen_bands}
