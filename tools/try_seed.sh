#!/bin/bash
# usage: tools/try_seed.sh <patch.diff> <Cxx> [tier]   -- applies a seeded change to /repo, runs the check, reverts
patch=$(readlink -f "$1"); prop=$2; tier=${3:-quick}
cd /repo || exit 2
if ! git diff --quiet; then echo "/repo has local changes; refusing"; exit 2; fi
git apply "$patch" || { echo "patch does not apply"; exit 2; }
cd /verif && ./bin/check "$prop" "$tier" 2>&1 | grep -E "VIOLATION|KNOWN-FINDING|BROKEN|^\[C" | cut -c1-400
rc=${PIPESTATUS[0]}
git -C /repo checkout -- . && git -C /repo status --short
exit $rc
